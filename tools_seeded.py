#!/venv/bin/python
"""Run checks against the seeded breaking changes kept under seeded/<name>/.

    ./tools_seeded.py [name ...] [--tier quick|thorough] [--checks C07,C12]

For each seeded change: `git -C /repo apply seeded/<name>/patch.diff`, run the
quick (or thorough) command of the property it breaks (meta.json: property,
plus optional extra checks), record exit code and violation kinds into
seeded/<name>/result.json, and undo the change (`git -C /repo checkout -- .`)
straight afterwards, whatever happened. /repo must be clean before starting.
"""
from __future__ import annotations

import argparse
import json
import os
import re
import subprocess
import sys
import time

ROOT = os.path.dirname(os.path.abspath(__file__))
REPO = '/repo'


def sh(cmd: list[str], **kw) -> subprocess.CompletedProcess:
    return subprocess.run(cmd, capture_output=True, text=True, **kw)


def main() -> int:
    ap = argparse.ArgumentParser()
    ap.add_argument('names', nargs='*')
    ap.add_argument('--tier', default='quick')
    ap.add_argument('--checks', default='')
    a = ap.parse_args()
    sdir = os.path.join(ROOT, 'seeded')
    names = a.names or sorted(d for d in os.listdir(sdir) if os.path.isdir(os.path.join(sdir, d)))
    st = sh(['git', '-C', REPO, 'status', '--porcelain', '--untracked-files=no'])
    if st.stdout.strip():
        print('refusing: /repo has uncommitted changes:\n' + st.stdout)
        return 2
    missed = 0
    for name in names:
        d = os.path.join(sdir, name)
        meta = json.load(open(os.path.join(d, 'meta.json')))
        checks = [c for c in a.checks.split(',') if c] or [meta['property']] + list(meta.get('also_run', []))
        patch = os.path.join(d, 'patch.diff')
        ap_ = sh(['git', '-C', REPO, 'apply', '--whitespace=nowarn', patch])
        if ap_.returncode != 0:
            print('%s: patch does not apply: %s' % (name, ap_.stderr.strip()[:300]))
            continue
        res = {'name': name, 'property': meta['property'], 'tier': a.tier, 'runs': []}
        try:
            for pid in checks:
                t0 = time.time()
                env = dict(os.environ, PYTHONHASHSEED='0')
                r = subprocess.run([os.path.join(ROOT, 'check'), pid, '--tier', a.tier], capture_output=True, text=True, cwd=ROOT, env=env)
                kinds = sorted(set(re.findall(r'violation kind (\S+)', r.stdout)))
                res['runs'].append({'check': pid, 'exit': r.returncode, 'kinds': kinds, 'wall_s': round(time.time() - t0, 1),
                                    'violation_lines': len(re.findall(r'^VIOLATION ', r.stdout, re.M)),
                                    'tail': r.stdout[-600:] if r.returncode not in (0, 1) else ''})
                print('%s: %s exit=%d kinds=%s (%.0fs)' % (name, pid, r.returncode, kinds[:6], time.time() - t0))
        finally:
            sh(['git', '-C', REPO, 'checkout', '--', '.'])
        res['caught'] = any(x['exit'] == 1 and x['violation_lines'] > 0 for x in res['runs'])
        if not res['caught']:
            missed += 1
        with open(os.path.join(d, 'result.json'), 'w') as f:
            json.dump(res, f, indent=1)
            f.write('\n')
    # evidence files were rewritten by runs on a modified tree: restore them
    sh(['git', '-C', ROOT, 'checkout', '--', 'evidence'])
    print('seeded changes not caught: %d of %d' % (missed, len(names)))
    return 0


if __name__ == '__main__':
    sys.exit(main())
