#!/venv/bin/python
"""Confirm a sub-agent's breaking change and file it under seeded/<name>/.

    ./tools_confirm_seed.py C07 /tmp/mut/C07 [--name C07-a] [--tests "tests/runtime ..."] [--check-tier quick]

Steps (all in a fresh scratch worktree of /repo's HEAD under /tmp/conf/<name>,
removed at the end): the demo must pass on the unchanged tree, the patch must
apply, the demo must fail with it, the named repository tests must pass with
it; then the property's check is run against the scratch tree (PYTHONPATH),
and everything is recorded in seeded/<name>/{patch.diff,demo.py,meta.json,
result.json}. Nothing is applied to /repo itself by this tool (tools_seeded.py
does that, following the brief's procedure, when nothing else is using /repo).
"""
from __future__ import annotations

import argparse
import json
import os
import re
import shutil
import subprocess
import sys
import time

ROOT = os.path.dirname(os.path.abspath(__file__))


def sh(cmd, **kw):
    return subprocess.run(cmd, capture_output=True, text=True, **kw)


def main() -> int:
    ap = argparse.ArgumentParser()
    ap.add_argument('pid')
    ap.add_argument('src')
    ap.add_argument('--name', default=None)
    ap.add_argument('--tests', default='')
    ap.add_argument('--needs', default='')
    ap.add_argument('--check-tier', default='quick')
    ap.add_argument('--skip-check', action='store_true')
    ap.add_argument('--lock', action='store_true', help='serialise the pytest run with other runs that use port 7472')
    ap.add_argument('--netns', action='store_true', help='run pytest in a private network namespace (own port 7472)')
    a = ap.parse_args()
    name = a.name or a.pid
    wt = '/tmp/conf/' + name
    os.makedirs('/tmp/conf', exist_ok=True)
    sh(['git', '-C', '/repo', 'worktree', 'remove', '--force', wt])
    r = sh(['git', '-C', '/repo', 'worktree', 'add', '--detach', wt, 'HEAD'])
    if r.returncode != 0:
        print(r.stderr)
        return 2
    out = {'name': name, 'property': a.pid, 'source': a.src}
    try:
        patch = os.path.join(a.src, 'patch.diff')
        demo = os.path.join(a.src, 'demo_%s.py' % a.pid)
        dname = os.path.basename(demo)
        shutil.copy(demo, os.path.join(wt, dname))
        env = dict(os.environ, PYTHONPATH=wt, PYTHONHASHSEED='0')
        d0 = sh(['/venv/bin/python', dname], cwd=wt, env=env, timeout=1800)
        out['demo_without_change'] = {'exit': d0.returncode, 'tail': (d0.stdout + d0.stderr)[-400:]}
        ap_ = sh(['git', '-C', wt, 'apply', '--whitespace=nowarn', patch])
        out['patch_applies_on_head'] = ap_.returncode == 0
        if ap_.returncode != 0:
            out['apply_error'] = ap_.stderr[-300:]
            print(json.dumps(out, indent=1))
            return 1
        d1 = sh(['/venv/bin/python', dname], cwd=wt, env=env, timeout=1800)
        out['demo_with_change'] = {'exit': d1.returncode, 'tail': (d1.stdout + d1.stderr)[-600:]}
        if a.tests:
            t0 = time.time()
            cmd = ['/venv/bin/python', '-m', 'pytest', '-q', '-p', 'no:cacheprovider', '--timeout=900'] + a.tests.split()
            if a.lock:
                cmd = ['flock', '/tmp/bqskit-pytest.lock'] + cmd
            if a.netns:
                cmd = ['unshare', '-n', 'sh', '-c', 'ip link set lo up; exec "$@"', 'sh'] + cmd
            t = sh(cmd, cwd=wt, env=env, timeout=7200)
            last = [l for l in t.stdout.strip().splitlines() if l.strip()][-1:] or ['']
            out['tests_with_change'] = {'cmd': ' '.join(a.tests.split()), 'exit': t.returncode, 'summary': last[0][-200:], 'wall_s': round(time.time() - t0)}
        sd = os.path.join(ROOT, 'seeded', name)
        os.makedirs(sd, exist_ok=True)
        shutil.copy(patch, os.path.join(sd, 'patch.diff'))
        shutil.copy(demo, os.path.join(sd, dname))
        if not a.skip_check:
            t0 = time.time()
            c = subprocess.run([os.path.join(ROOT, 'check'), a.pid, '--tier', a.check_tier], capture_output=True, text=True, cwd=ROOT, env=env)
            kinds = sorted(set(re.findall(r'violation kind (\S+)', c.stdout)))
            out['check'] = {'cmd': './check %s --tier %s (PYTHONPATH=scratch worktree with the patch)' % (a.pid, a.check_tier), 'exit': c.returncode,
                            'violation_lines': len(re.findall(r'^VIOLATION ', c.stdout, re.M)), 'kinds': kinds, 'wall_s': round(time.time() - t0),
                            'tail': c.stdout[-500:] if c.returncode not in (0, 1) else ''}
            sh(['git', '-C', ROOT, 'checkout', '--', 'evidence/%s.json' % a.pid])
        prev = {}
        mp = os.path.join(sd, 'meta.json')
        if os.path.exists(mp):
            try:
                prev = json.load(open(mp))
            except ValueError:
                prev = {}
        if 'tests_with_change' not in out and prev.get('confirmed', {}).get('tests_with_change'):
            out['tests_with_change'] = prev['confirmed']['tests_with_change']
        if 'check' not in out and prev.get('check_result'):
            out['check'] = prev['check_result']
        meta = {
            'property': a.pid,
            'origin': 'fresh sub-agent given only the property text and a scratch worktree of /repo',
            'needs_to_manifest': a.needs or prev.get('needs_to_manifest', ''),
            'confirmed': {k: out[k] for k in ('demo_without_change', 'demo_with_change', 'patch_applies_on_head', 'tests_with_change') if k in out},
            'what_was_run': 'tools_confirm_seed.py: demo on unchanged scratch worktree (must exit 0), git apply, demo again (must fail), repository tests named above with the change, then the check against the scratch tree',
            'check_result': out.get('check'),
        }
        with open(os.path.join(sd, 'meta.json'), 'w') as f:
            json.dump(meta, f, indent=1)
            f.write('\n')
        print(json.dumps(out, indent=1)[:3000])
    finally:
        sh(['git', '-C', '/repo', 'worktree', 'remove', '--force', wt])
    return 0


if __name__ == '__main__':
    sys.exit(main())
