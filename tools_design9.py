#!/venv/bin/python
"""Regenerates DESIGN.md section 9 (genuine defects: repaired / recorded) from
known_findings.json, keeping the hand-written tail ("Observations outside the
statements ...") of the section."""
import json
import os

ROOT = os.path.dirname(os.path.abspath(__file__))

TAIL_MARK = 'Observations outside the statements'

BASELINE = '''Repository test suite, guard off (there is no hook commit: nothing in /repo
is guarded). The pinned command of /root/.vp/BASELINE.json, run in a private
network namespace so that nothing else can hold port 7472, with the 45 fix
commits up to bd5668f: **5096 passed, 2 skipped, 361 deselected, 2 xfailed** -
the same 5096 as on the pinned commit. The six later commits touch only
`bqskit/runtime/worker.py` (cancel paths). With them: `tests/runtime` +
`tests/compiler/test_compiler.py` 88 passed (on e8c880d and again on the final tree cecb626, quiet machine; the
same 88 passed with each of the ten runtime seeded changes, which is what
"passes the existing tests" means for those); `tests/compiler`,
`tests/passes/control`, `tests/passes/partitioning`, `tests/passes/util` 797
passed; a last full run on the final tree cecb626 was abandoned at 63% (3242
passed, 0 failed, 2 errors, both set-up errors of the detached fixture while
the final evidence run loaded the machine) for lack of time.
Two artefacts of the repository's own tests, both present on the pinned
commit and unrelated to any change here: (a) running
`tests/compiler/test_compiler.py` *after* `tests/runtime/test_logging.py` in
one process makes `test_log_msg_printed_locally` fail (the earlier module
leaves the `bqskit` logger at a level that filters the message; the pinned
command runs them in the other order); (b) the detached fixture of
`tests/runtime/conftest.py` starts a manager and a server without a
handshake: on a loaded machine the server gives up on the manager after ~8 s
("Manager connection refused"), set-up fails, the orphaned pair keeps the
ports, and every later detached test then hangs in teardown because its
SIGINT reaches a server that is still starting. Confirmations were therefore
run on an otherwise idle machine.
'''


def main() -> None:
    k = json.load(open(os.path.join(ROOT, 'known_findings.json')))
    p = os.path.join(ROOT, 'DESIGN.md')
    s = open(p).read()
    i = s.find('## 9. Genuine defects found')
    j = s.find('## 10. Seeded breaking changes')
    assert 0 <= i < j
    old = s[i:j]
    t = old.find(TAIL_MARK)
    tail = old[t:].rstrip('\n') if t >= 0 else ''
    rows = []
    for f in k['fixed']:
        rows.append('| %s | %s | %s |' % (f['commit'], f['property'], f['what'].replace('|', '/').replace('\n', ' ')))
    opens = []
    for f in k['findings']:
        opens.append('* **%s** (%s): %s' % (f['id'], f['property'], f['what'].replace('\n', ' ')))
    text = '''## 9. Genuine defects found

Every entry below was shown against the real code by a failing input, history
or schedule (the witness/replay files of the checks; the reproducers are in the
commit messages). Repaired in /repo, one `fix:` commit per defect
(`known_findings.json` -> `fixed`, %d entries; a fixed entry suppresses
nothing: the check passes on the repaired tree without a KNOWN-FINDING line and
reports the violation again if it returns):

| commit | property | what failed |
|---|---|---|
%s

%s
Recorded as known findings (`known_findings.json` -> `findings`, %d entries),
because the repair is not small/safe, needs a design decision, or lies in the
prebuilt native wheel. Each is matched by mechanism keys (kind, raising site,
gate class/leaf, input kind, message fragment) computed by the check's own
classifier, never by case hashes or random values, so a different violation of
the same property is still reported:

%s

%s
''' % (len(rows), '\n'.join(rows), BASELINE, len(opens), '\n'.join(opens), tail)
    s = s[:i] + text.rstrip('\n') + '\n\n\n' + s[j:]
    open(p, 'w').write(s)
    print('section 9 written: %d fixed, %d open' % (len(rows), len(opens)))


if __name__ == '__main__':
    main()
