"""Importable workloads for checks that run code inside runtime workers.

Everything a runtime worker has to execute or unpickle lives here (never in
`__main__`): the runtime ships passes with dill, which pickles `__main__`
objects by value, so their module globals would be copied instead of shared.
Workers can import this module because the client sends its `sys.path` when
it connects (`./check` puts /verif on `sys.path`).

Contents
* circuit <-> JSON (fully materialised, replayable cases; exact floats),
  flattening and per-qudit sequences (used by C08 and C11);
* side-channel log (one `O_APPEND` write per event; survives data reverts);
* C11 ForEach workloads: `Body`, collection filters, `RFilter`;
* C11 control-flow workloads: `SetData`, `Mark`, `ScriptPred`, `Cond`,
  `LessThan`.
"""
from __future__ import annotations

import hashlib
import json
import os
from typing import Any
from typing import Sequence

import numpy as np

import bqskit.ir.gates as _gates
from bqskit.compiler.basepass import BasePass
from bqskit.compiler.machine import MachineModel
from bqskit.compiler.passdata import PassData
from bqskit.ir.circuit import Circuit
from bqskit.ir.gates import BarrierPlaceholder
from bqskit.ir.gates import CircuitGate
from bqskit.ir.gates import ConstantUnitaryGate
from bqskit.ir.gates import HGate
from bqskit.ir.gates import MeasurementPlaceholder
from bqskit.ir.gates import Reset
from bqskit.ir.gates import RZGate
from bqskit.ir.gates import TdgGate
from bqskit.ir.gates import TGate
from bqskit.ir.gates import VariableUnitaryGate
from bqskit.ir.gates import XGate
from bqskit.ir.operation import Operation
from bqskit.passes.control.predicate import PassPredicate
from bqskit.qis.unitary.unitarymatrix import UnitaryMatrix

PLACEHOLDERS = (BarrierPlaceholder, MeasurementPlaceholder, Reset)


# ------------------------------------------------------------ circuit <-> JSON
def gate_to_json(gate: Any, params: Sequence[float] = ()) -> Any:
    """JSON recipe of a gate. Blocks are written with their parameters set."""
    if isinstance(gate, CircuitGate):
        sub = gate._circuit.copy()
        stored = [float(x) for x in sub.params]
        if len(params) == sub.num_params:
            sub.set_params(list(params))
        j = {'block': circ_to_json(sub)}
        if len(params) == len(stored) and len(stored) and not np.allclose(stored, list(params)):
            # the operation's parameters differ from the ones stored inside
            # the gate (a block re-parameterised after it was formed)
            j['stored_params'] = stored
        return j
    if isinstance(gate, BarrierPlaceholder):
        return {'barrier': gate.num_qudits}
    if isinstance(gate, MeasurementPlaceholder):
        return {
            'measure': [[str(a), int(b)] for a, b in gate.classical_regs],
            'map': [
                [int(q), str(r), int(i)]
                for q, (r, i) in gate.measurements.items()
            ],
        }
    if isinstance(gate, Reset):
        return {'reset': 1}
    if isinstance(gate, ConstantUnitaryGate):
        u = np.asarray(gate.get_unitary())
        return {
            'cunitary': [u.real.tolist(), u.imag.tolist()],
            'radixes': [int(r) for r in gate.radixes],
        }
    if isinstance(gate, VariableUnitaryGate):
        return {
            'vunitary': int(gate.num_qudits),
            'radixes': [int(r) for r in gate.radixes],
        }
    return type(gate).__name__


def gate_from_json(j: Any) -> Any:
    if isinstance(j, str):
        return getattr(_gates, j)()
    if 'block' in j:
        sub = circ_from_json(j['block'])
        if 'stored_params' in j:
            sub.set_params(list(j['stored_params']))
        return CircuitGate(sub, True)
    if 'barrier' in j:
        return BarrierPlaceholder(int(j['barrier']))
    if 'measure' in j:
        return MeasurementPlaceholder(
            [(a, int(b)) for a, b in j['measure']],
            {int(q): (r, int(i)) for q, r, i in j['map']},
        )
    if 'reset' in j:
        return Reset()
    if 'cunitary' in j:
        re, im = j['cunitary']
        u = np.array(re) + 1j * np.array(im)
        return ConstantUnitaryGate(
            UnitaryMatrix(u, j['radixes'], check_arguments=False),
            j['radixes'],
        )
    if 'vunitary' in j:
        return VariableUnitaryGate(int(j['vunitary']), j['radixes'])
    raise ValueError('unknown gate recipe %r' % (j,))


def op_to_json(op: Operation) -> list[Any]:
    return [
        gate_to_json(op.gate, op.params),
        [int(q) for q in op.location],
        [float(p) for p in op.params],
    ]


def circ_to_json(c: Circuit) -> dict[str, Any]:
    """Fully materialised circuit: operations in iteration order."""
    return {
        'radixes': [int(r) for r in c.radixes],
        'ops': [op_to_json(op) for op in c],
    }


def circ_from_json(j: dict[str, Any]) -> Circuit:
    c = Circuit(len(j['radixes']), list(j['radixes']))
    for g, loc, params in j['ops']:
        c.append_gate(gate_from_json(g), list(loc), list(params))
    return c


def _semantic(x: Any) -> Any:
    """The recipe without the parameters stored inside block gates: they are
    private to the gate (the operation's parameters say what the block is)
    and are not stable under pickling, which merges equal gates."""
    if isinstance(x, dict):
        return {k: _semantic(v) for k, v in x.items() if k != 'stored_params'}
    if isinstance(x, (list, tuple)):
        return [_semantic(v) for v in x]
    return x


def fingerprint(x: Any) -> str:
    if isinstance(x, Circuit):
        x = circ_to_json(x)
    s = json.dumps(_semantic(x), sort_keys=True)
    return hashlib.sha1(s.encode()).hexdigest()[:16]


# ------------------------------------------------- flattening / sequences
def flat_ops(
    c: Circuit, loc: Sequence[int] | None = None,
    out: list[Any] | None = None, depth: int = 0,
) -> list[tuple[Any, tuple[int, ...], tuple[float, ...], int]]:
    """
    Leaf operations (gate, global location, params, nesting depth) of a
    circuit with every CircuitGate opened recursively, written here (no
    call to unfold/unfold_all). Iteration order of every level is a
    topological order, so the result is a valid simulation order.
    """
    if out is None:
        out = []
    for op in c:
        g = tuple(int(q) for q in op.location) if loc is None else \
            tuple(int(loc[q]) for q in op.location)
        if isinstance(op.gate, CircuitGate):
            sub = op.gate._circuit
            if sub.num_params and len(op.params) == sub.num_params:
                sub = sub.copy()
                sub.set_params(op.params)
            flat_ops(sub, g, out, depth + 1)
        else:
            out.append(
                (op.gate, g, tuple(float(p) for p in op.params), depth),
            )
    return out


def leaf_key(gate: Any, loc: Sequence[int], params: Sequence[float]) -> str:
    """Canonical identity of a leaf operation (exact parameters)."""
    return json.dumps(
        [gate_to_json(gate), list(loc), [float(p) for p in params]],
        sort_keys=True,
    )


def per_qudit(keys_locs: Sequence[tuple[str, Sequence[int]]], n: int) -> list[list[str]]:
    seqs: list[list[str]] = [[] for _ in range(n)]
    for k, loc in keys_locs:
        for q in loc:
            seqs[q].append(k)
    return seqs


def flat_sequences(c: Circuit) -> list[list[str]]:
    """Per-qudit sequences of leaf-operation keys of the opened circuit."""
    return per_qudit(
        [(leaf_key(g, loc, p), loc) for g, loc, p, _ in flat_ops(c)],
        c.num_qudits,
    )


def top_sequences(c: Circuit) -> list[list[str]]:
    """Per-qudit sequences of top-level operation keys (blocks by content)."""
    return per_qudit(
        [
            (json.dumps(op_to_json(op), sort_keys=True), tuple(op.location))
            for op in c
        ],
        c.num_qudits,
    )


# ------------------------------------------------------------ side channel
def log_event(path: str | None, ev: Any) -> None:
    """Append one JSON line (atomic for short lines) to the side-channel log.
    Unlike PassData it is not reverted by DoThenDecide/ParallelDo."""
    if not path:
        return
    fd = os.open(path, os.O_WRONLY | os.O_APPEND | os.O_CREAT, 0o644)
    try:
        os.write(fd, (json.dumps(ev) + '\n').encode())
    finally:
        os.close(fd)


def read_log(path: str) -> list[Any]:
    if not os.path.exists(path):
        return []
    with open(path) as f:
        return [json.loads(line) for line in f if line.strip()]


# ------------------------------------------------------------ guard
class Guard(BasePass):
    """Runs `inner` and, instead of letting an exception take the whole
    compilation (and the attached server) down, reports it in
    data['verif_exc']. The pass still executes inside a real worker."""

    def __init__(self, inner: BasePass) -> None:
        self.inner = inner

    async def run(self, circuit: Circuit, data: PassData) -> None:
        import traceback
        try:
            await self.inner.run(circuit, data)
        except Exception as e:  # noqa
            tb = traceback.extract_tb(e.__traceback__)
            data['verif_exc'] = {
                'exc': type(e).__name__,
                'msg': str(e)[:300],
                'site': '%s:%s' % (os.path.basename(tb[-1].filename), tb[-1].name) if tb else '?',
                'frames': [
                    '%s:%s' % (os.path.basename(fr.filename), fr.name)
                    for fr in tb if '/bqskit/' in fr.filename
                ][-8:],
            }


# ------------------------------------------------------------ ForEach bodies
LOGKEY = 'ForEachBlockPass_pass_down_veriflog'
BODY_FAIL_MSG = 'verif-body-failure'


def transform(kind: str, arg: Any, c: Circuit) -> None:
    """The deterministic rewrite each body kind performs (in place). Used by
    the pass inside the worker and by the harness's expected-output model."""
    if kind == 'identity':
        return
    if kind == 'xx':  # equivalent rewrite
        q = int(arg) % c.num_qudits
        c.append_gate(XGate(), q)
        c.append_gate(XGate(), q)
        return
    if kind == 'shrink':  # cancel a trailing H.H pair (fewer operations/cycles)
        for q in range(c.num_qudits):
            cyc = [i for i in range(c.num_cycles) if c._circuit[i][q] is not None]
            if len(cyc) >= 2:
                o1, o2 = c._circuit[cyc[-1]][q], c._circuit[cyc[-2]][q]
                if isinstance(o1.gate, HGate) and isinstance(o2.gate, HGate):
                    c.pop((cyc[-1], q))
                    c.pop((cyc[-2], q))
                    return
        return
    if kind == 'grow':  # two more cycles, equivalent
        q = int(arg) % c.num_qudits
        c.append_gate(TGate(), q)
        c.append_gate(TdgGate(), q)
        return
    if kind == 'perturb':  # bounded perturbation
        delta = float(arg)
        if c.num_params > 0:
            c.set_param(0, c.get_param(0) + delta)
        else:
            c.append_gate(RZGate(), 0, [delta])
        return
    if kind == 'fail':
        raise RuntimeError(BODY_FAIL_MSG)
    if kind == 'fail_wide':  # fails only on blocks of >= arg qudits
        if c.num_qudits >= int(arg):
            raise RuntimeError(BODY_FAIL_MSG)
        return
    raise ValueError(kind)


class Body(BasePass):
    """Instrumented ForEach body: records what it was called on, then applies
    `transform(kind, arg)`."""

    def __init__(self, kind: str, arg: Any = 0, tag: str = 'b') -> None:
        self.kind = kind
        self.arg = arg
        self.tag = tag

    async def run(self, circuit: Circuit, data: PassData) -> None:
        fp = fingerprint(circuit)
        pt = data['point'] if 'point' in data else None
        model = data.model
        rec = {
            'tag': self.tag,
            'kind': self.kind,
            'fp': fp,
            'point': [int(pt[0]), int(pt[1])] if pt is not None else None,
            'ordinal': len(data['calls']) if 'calls' in data else 0,
            'subnumbering': sorted(
                [int(k), int(v)] for k, v in data['subnumbering'].items()
            ) if 'subnumbering' in data else None,
            'model_n': int(model.num_qudits),
            'model_edges': sorted(
                sorted([int(a), int(b)]) for a, b in model.coupling_graph
            ),
            'model_radixes': [int(r) for r in model.radixes],
            'pid': os.getpid(),
        }
        if 'calls' not in data:
            data['calls'] = []
        data['calls'].append(rec)
        log_event(data[LOGKEY] if LOGKEY in data else None, ['body', rec])
        transform(self.kind, self.arg, circuit)
        rec['out_fp'] = fingerprint(circuit)


def is_block(op: Operation) -> bool:
    return isinstance(op.gate, CircuitGate)


def cf_blocks(op: Operation) -> bool:
    return is_block(op)


def cf_width2(op: Operation) -> bool:
    return is_block(op) and op.num_qudits == 2


def cf_wide(op: Operation) -> bool:
    return op.num_qudits >= 2 and not isinstance(op.gate, PLACEHOLDERS)


def cf_odd(op: Operation) -> bool:
    """Parity of a tag carried in the block (its operation count)."""
    return is_block(op) and op.gate._circuit.num_operations % 2 == 1


def cf_none(op: Operation) -> bool:
    return False


COLLECTION_FILTERS = {
    'default': None, 'blocks': cf_blocks, 'width2': cf_width2,
    'wide': cf_wide, 'odd': cf_odd, 'none': cf_none,
}


class RFilter:
    """Replace filter (callable object; ships with the pass, so its counter
    starts at 0 in every compilation). Logs every decision to the side
    channel so the harness knows what was decided for which block."""

    def __init__(self, mode: str, logpath: str | None = None) -> None:
        self.mode = mode
        self.logpath = logpath
        self.n = 0

    def __call__(self, new: Circuit, old: Operation) -> bool:
        if self.mode == 'always':
            d = True
        elif self.mode == 'never':
            d = False
        elif self.mode == 'alternate':
            d = self.n % 2 == 0
        elif self.mode == 'parity':
            d = (sum(old.location) + new.num_operations) % 2 == 0
        else:
            raise ValueError(self.mode)
        self.n += 1
        log_event(
            self.logpath, [
                'rfilter', {
                    'loc': [int(q) for q in old.location],
                    'old_fp': fingerprint(op_to_json(old)[0]),
                    'new_fp': fingerprint(new),
                    'decision': bool(d), 'n': self.n - 1,
                },
            ],
        )
        return d


# ------------------------------------------------------------ control flow
def _line_model(n: int, kind: str) -> MachineModel:
    if kind == 'line':
        return MachineModel(n, [(i, i + 1) for i in range(n - 1)])
    if kind == 'ring':
        e = [(i, i + 1) for i in range(n - 1)]
        if n > 2:
            e.append((0, n - 1))
        return MachineModel(n, e)
    return MachineModel(n)


def apply_actions(acts: Sequence[Sequence[Any]], circuit: Circuit, data: PassData) -> None:
    """Data/circuit edits of SetData and Mark. Each action is a JSON list."""
    for a in acts:
        k = a[0]
        if k == 'gate':  # marker gate RZ(theta) on qudit q
            circuit.append_gate(RZGate(), int(a[1]) % circuit.num_qudits, [float(a[2])])
        elif k == 'pop':  # remove the last operation (if any)
            if circuit.num_operations > 0:
                circuit.pop()
        elif k == 'placement':
            data.placement = [int(x) for x in a[1]]
        elif k == 'initial_mapping':
            data.initial_mapping = [int(x) for x in a[1]]
        elif k == 'final_mapping':
            data.final_mapping = [int(x) for x in a[1]]
        elif k == 'error':
            data.error = float(a[1])
        elif k == 'seed':
            data.seed = None if a[1] is None else int(a[1])
        elif k == 'key':
            data[str(a[1])] = a[2]
        elif k == 'model':
            data.model = _line_model(int(a[1]), str(a[2]))
        elif k == 'target':  # target := diag phase unitary with angle a[1]
            d = int(np.prod(circuit.radixes))
            u = np.eye(d, dtype=np.complex128)
            u[0, 0] = np.exp(1j * float(a[1]))
            data.target = UnitaryMatrix(u, circuit.radixes, check_arguments=False)
        else:
            raise ValueError('unknown action %r' % (a,))


class SetData(BasePass):
    """First pass of a case: installs the initial pass data."""

    def __init__(self, acts: Sequence[Sequence[Any]]) -> None:
        self.acts = [list(a) for a in acts]

    async def run(self, circuit: Circuit, data: PassData) -> None:
        apply_actions(self.acts, circuit, data)


class Mark(BasePass):
    """Leaf body of the control-flow workloads: logs itself into
    data['trace'] and the side channel, then edits circuit/data."""

    def __init__(self, ident: int, acts: Sequence[Sequence[Any]] = ()) -> None:
        self.ident = int(ident)
        self.acts = [list(a) for a in acts]

    async def run(self, circuit: Circuit, data: PassData) -> None:
        if 'trace' not in data:
            data['trace'] = []
        data['trace'].append(['pass', self.ident])
        log_event(data['veriflog'] if 'veriflog' in data else None, ['pass', self.ident])
        apply_actions(self.acts, circuit, data)


class ScriptPred(PassPredicate):
    """Predicate that pops scripted outcomes from data['script'][name]
    (False when exhausted) and logs its calls. The script travels with the
    PassData, as the task does; globals would not."""

    def __init__(self, ident: int) -> None:
        self.ident = int(ident)

    def get_truth_value(self, circuit: Circuit, data: PassData) -> bool:
        script = data['script'] if 'script' in data else {}
        lst = script.get(str(self.ident), [])
        out = bool(lst.pop(0)) if lst else False
        if 'trace' not in data:
            data['trace'] = []
        data['trace'].append(['pred', self.ident, out])
        log_event(data['veriflog'] if 'veriflog' in data else None, ['pred', self.ident, out])
        return out


def _decide(mode: str, a: Circuit, b: Circuit) -> bool:
    if mode == 'always':
        return True
    if mode == 'never':
        return False
    if mode == 'fewer':  # second has fewer operations than first
        return b.num_operations < a.num_operations
    if mode == 'more':
        return b.num_operations > a.num_operations
    raise ValueError(mode)


class Cond:
    """DoThenDecide condition (old, new) -> accept?"""

    def __init__(self, ident: int, mode: str, logpath: str | None = None) -> None:
        self.ident = int(ident)
        self.mode = mode
        self.logpath = logpath

    def __call__(self, old: Circuit, new: Circuit) -> bool:
        d = _decide(self.mode, old, new)
        log_event(
            self.logpath, [
                'cond', self.ident, bool(d),
                int(old.num_operations), int(new.num_operations),
            ],
        )
        return d


class LessThan:
    """ParallelDo ordering: first preferred to second?"""

    def __init__(self, ident: int, mode: str, logpath: str | None = None) -> None:
        self.ident = int(ident)
        self.mode = mode
        self.logpath = logpath

    def __call__(self, a: Circuit, b: Circuit) -> bool:
        if self.mode == 'fewer':
            d = a.num_operations < b.num_operations
        elif self.mode == 'more':
            d = a.num_operations > b.num_operations
        elif self.mode == 'never':
            d = False
        else:
            raise ValueError(self.mode)
        log_event(
            self.logpath, [
                'less', self.ident, bool(d),
                int(a.num_operations), int(b.num_operations),
            ],
        )
        return d


# ------------------------------------------------------------ harness helpers
class StartTimeout(BaseException):  # not swallowed by `except Exception` in the client
    pass


def _children_of(pid: int) -> list[int]:
    out = []
    for d in os.listdir('/proc'):
        if not d.isdigit():
            continue
        try:
            with open('/proc/%s/stat' % d) as f:
                st = f.read()
            ppid = int(st[st.rindex(')') + 2:].split()[1])
        except (OSError, ValueError, IndexError):
            continue
        if ppid == pid:
            out.append(int(d))
    return out


def kill_child_servers() -> int:
    """Kill attached runtime servers (and their workers) that are children of
    this process. Used after a start-up that never completed: on a heavily
    loaded machine the workers give up connecting after ~13 s and the server
    then waits for them forever."""
    import signal as _signal
    n = 0
    for c in _children_of(os.getpid()):
        try:
            with open('/proc/%d/cmdline' % c) as f:
                cmd = f.read()
        except OSError:
            continue
        if 'start_attached_server' not in cmd:
            continue
        for g in _children_of(c):
            try:
                os.kill(g, _signal.SIGKILL)
            except OSError:
                pass
        try:
            os.kill(c, _signal.SIGKILL)
            os.waitpid(c, 0)
        except OSError:
            pass
        n += 1
    return n


def _warm_up(comp: Any, num_workers: int) -> None:
    """First use of every worker imports the pass modules (tens of seconds on
    a loaded machine): do it outside the per-case watchdogs."""
    from bqskit.passes import ForEachBlockPass
    c = Circuit(2)
    for _ in range(2 * num_workers + 2):
        sub = Circuit(1)
        sub.append_gate(HGate(), 0)
        c.append_gate(CircuitGate(sub), 0)
        c.append_gate(CircuitGate(sub), 1)
    comp.compile(c, [ForEachBlockPass([Body('identity')])])


def safe_compiler(num_workers: int, attempts: int = 4, first_wait: int = 75, warm: bool = True) -> Any:
    """`compiledrv.new_compiler` under a start-up watchdog, then a warm-up
    compilation (main thread of a batch process only; the process owns one
    compiler at a time)."""
    import signal as _signal
    from vlib.compiledrv import new_compiler

    def _alarm(signum: int, frame: Any) -> None:
        raise StartTimeout()

    last: BaseException | None = None
    for k in range(attempts):
        old = _signal.signal(_signal.SIGALRM, _alarm)
        _signal.alarm(first_wait + 45 * k)
        comp = None
        try:
            comp = new_compiler(num_workers)
            if warm:
                _signal.alarm(240 + 120 * k)
                _warm_up(comp, num_workers)
            return comp
        except (StartTimeout, RuntimeError) as e:
            last = e
            _signal.alarm(0)
            if comp is not None:
                try:
                    comp.conn = None  # no graceful handshake with a stuck server
                    comp.close()
                except BaseException:  # noqa
                    pass
            kill_child_servers()
        finally:
            _signal.alarm(0)
            _signal.signal(_signal.SIGALRM, old)
    raise RuntimeError('could not start a compiler in %d attempts: %r' % (attempts, last))


def close_compiler(comp: Any) -> None:
    """Graceful close under a watchdog, then make sure nothing is left."""
    import signal as _signal

    def _alarm(signum: int, frame: Any) -> None:
        raise StartTimeout()

    old = _signal.signal(_signal.SIGALRM, _alarm)
    _signal.alarm(20)
    try:
        comp.close()
    except BaseException:  # noqa
        pass
    finally:
        _signal.alarm(0)
        _signal.signal(_signal.SIGALRM, old)
    kill_child_servers()
