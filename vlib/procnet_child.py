"""Child process of a procnet case: owns the client (Compiler must live in a
main thread), starts the real runtime, injects the kill, performs the client
calls and reports events as JSON lines on stdout. The parent watches for
hangs from outside."""
from __future__ import annotations

import json
import os
import signal
import sys
import threading
import time
from typing import Any

ROOT = os.path.dirname(os.path.dirname(os.path.abspath(__file__)))
sys.path.insert(0, ROOT)


def emit(**kw: Any) -> None:
    sys.stdout.write(json.dumps(kw, default=repr) + '\n')
    sys.stdout.flush()


def main() -> None:
    case = json.loads(sys.argv[1])
    from bqskit.ir.circuit import Circuit

    from vlib import compiledrv
    from vlib import procnet as P
    from vlib.simnet import workloads as WL
    env = dict(case.get('env') or {})
    tree = case['tree']
    mode = case['mode']
    det = None
    if case['topology'] == 'attached':
        comp = compiledrv.new_compiler(int(case['workers']), env=env)
        server_pid = comp.p.pid
        roots = [server_pid]

        def victims() -> list[int]:
            return [p for p in P.descendants(server_pid) if P.alive(p)]
    else:
        det = P.Detached(list(case['managers']), env=env)
        roots = [p.pid for p in det.procs]
        emit(ev='spawned', roots=roots)
        try:
            comp = det.connect(120)
        except BaseException:
            det.kill_all()
            raise
        if case.get('victim_role') == 'manager':
            def victims() -> list[int]:
                return [p.pid for p in det.manager_procs if P.alive(p.pid)]
        else:
            victims = det.worker_pids
    emit(ev='up', roots=roots)

    def kill_one(sel: float) -> None:
        vp = sorted(victims())
        if vp:
            v = vp[int(sel * len(vp)) % len(vp)]
            try:
                os.kill(v, signal.SIGKILL)
                emit(ev='killed', pid=v)
            except OSError:
                pass

    def do_compile(label: str) -> None:
        emit(ev='calling', label=label)
        try:
            out = comp.compile(Circuit(1), [WL.TreePass(tree)], True)
            val = out[1].get('tree_result', None) if isinstance(out, tuple) else None
            emit(ev='ret', label=label, outcome='value', value=val)
        except BaseException as e:  # noqa
            emit(ev='ret', label=label, outcome='raise', msg=P.exc_text(e)[-400:])

    if mode == 'ext_idle':
        do_compile('warmup')
        kill_one(float(case.get('victim_sel', 0.0)))
        time.sleep(float(case.get('delay', 0.0)))
        do_compile('main')
    else:
        if mode == 'ext_busy':
            t = threading.Timer(float(case.get('delay', 0.0)), kill_one, args=(float(case.get('victim_sel', 0.0)),))
            t.daemon = True
            t.start()
        do_compile('main')
    try:
        comp.close()
        emit(ev='closed')
    except BaseException as e:  # noqa
        emit(ev='closed', error=P.exc_text(e)[-200:])
    # leave the runtime processes to exit on their own: the parent checks


if __name__ == '__main__':
    main()
