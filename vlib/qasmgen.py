"""OpenQASM 2 generators for C17.

Three parts:

1. `qasm_gate_table()` - the list of library gates that have a QASM spelling,
   derived at run time by walking `bqskit.ir.gates` for Gate classes that
   define `_qasm_name` (class attribute or assigned in `__init__`), plus the
   ControlledGate compositions whose `qasm_name` property does not raise.
   Gates are described by JSON-able *recipes* so a case can be replayed.
2. Round-trip circuit generator over that table (nested CircuitGates,
   hostile parameter values, frozen parameters, placeholders).
3. A grammar-based OpenQASM 2 *program* generator. Programs are JSON-able
   ASTs (dict/list only): registers, user gate definitions nested two deep
   with formal parameters used in arithmetic, qelib1 gate applications, U/CX,
   barriers, measure, reset, comments.  Expressions are *semantic* trees
   rendered with the minimal parentheses standard precedence requires (plus
   optional redundant ones); `eval_expr` is an independent evaluator used for
   domain control (no division by ~0, ln of negatives, overflow) and as a
   cross-check of the renderer against Qiskit.  A greedy AST shrinker and a
   feature extractor support mechanism-level classification of failures.
"""
from __future__ import annotations

import copy
import importlib
import inspect
import math
import pkgutil
from typing import Any
from typing import Callable
from typing import Iterator

import numpy as np

# --------------------------------------------------------------------------
# 1. gate table
# --------------------------------------------------------------------------
_TABLE: list[dict[str, Any]] | None = None


def _gate_classes() -> list[type]:
    import bqskit.ir.gates as G
    from bqskit.ir.gate import Gate
    seen: dict[int, type] = {}
    for m in pkgutil.walk_packages(G.__path__, G.__name__ + '.'):
        try:
            mod = importlib.import_module(m.name)
        except Exception:  # noqa
            continue
        for _, cls in inspect.getmembers(mod, inspect.isclass):
            if not issubclass(cls, Gate) or cls.__module__ != mod.__name__:
                continue
            seen[id(cls)] = cls
    return sorted(seen.values(), key=lambda c: c.__name__)


def _defines_qasm_name(cls: type) -> bool:
    for k in cls.__mro__:
        if '_qasm_name' in vars(k):
            return True
        init = vars(k).get('__init__')
        if init is not None:
            try:
                if '_qasm_name' in inspect.getsource(init):
                    return True
            except (OSError, TypeError):
                pass
    return False


def _ctor_candidates(cls: type) -> list[tuple[tuple, dict]]:
    try:
        sig = inspect.signature(cls.__init__)
    except (TypeError, ValueError):
        return [((), {})]
    out: list[tuple[tuple, dict]] = [((), {})]
    if 'num_qudits' in sig.parameters:
        for k in (1, 2, 3):
            out.append(((), {'num_qudits': k}))
    return out


def is_placeholder(gate: Any) -> bool:
    from bqskit.ir.gates.barrier import BarrierPlaceholder
    from bqskit.ir.gates.measure import MeasurementPlaceholder
    from bqskit.ir.gates.reset import Reset
    return isinstance(gate, (BarrierPlaceholder, MeasurementPlaceholder, Reset))


def qasm_gate_table() -> list[dict[str, Any]]:
    """Entries: {'recipe', 'gate', 'qasm', 'nq', 'np', 'key'}."""
    global _TABLE
    if _TABLE is not None:
        return _TABLE
    from bqskit.ir.gates.composed.controlled import ControlledGate
    from bqskit.ir.gates.barrier import BarrierPlaceholder
    from bqskit.ir.gates.measure import MeasurementPlaceholder
    from bqskit.ir.gates.reset import Reset
    table: list[dict[str, Any]] = []
    keys: set[str] = set()

    def add(recipe: dict[str, Any], gate: Any) -> None:
        try:
            qn = gate.qasm_name
        except Exception:  # noqa  (no spelling -> not in the table)
            return
        if not gate.is_qubit_only():
            return
        key = '%s/%s/%d' % (type(gate).__name__, qn, gate.num_qudits)
        if isinstance(gate, ControlledGate):
            key += '/' + type(gate.gate).__name__
        if key in keys:
            return
        keys.add(key)
        table.append({
            'recipe': recipe, 'gate': gate, 'qasm': qn, 'key': key,
            'nq': gate.num_qudits, 'np': gate.num_params,
        })

    for cls in _gate_classes():
        if cls in (BarrierPlaceholder, MeasurementPlaceholder, Reset):
            continue
        if not _defines_qasm_name(cls):
            continue
        for args, kw in _ctor_candidates(cls):
            try:
                g = cls(*args, **kw)
            except Exception:  # noqa
                continue
            add({'cls': cls.__module__ + ':' + cls.__name__, 'kw': kw}, g)
    # controlled compositions with a spelling
    base = list(table)
    for e in base:
        if e['nq'] > 2:
            continue
        for k in (1, 2, 3, 4):
            if e['nq'] + k > 5:
                continue
            try:
                cg = ControlledGate(e['gate'], k)
            except Exception:  # noqa
                continue
            add({'ctrl': e['recipe'], 'k': k}, cg)
    _TABLE = table
    return table


def build_gate(recipe: dict[str, Any]) -> Any:
    if 'cls' in recipe:
        mod, name = recipe['cls'].split(':')
        cls = getattr(importlib.import_module(mod), name)
        return cls(**recipe.get('kw', {}))
    if 'ctrl' in recipe:
        from bqskit.ir.gates.composed.controlled import ControlledGate
        return ControlledGate(build_gate(recipe['ctrl']), int(recipe['k']))
    if 'frozen' in recipe:
        from bqskit.ir.gates.composed.frozenparam import FrozenParameterGate
        fp = {int(k): float(v) for k, v in recipe['fp'].items()}
        return FrozenParameterGate(build_gate(recipe['frozen']), fp)
    if 'cg' in recipe:
        from bqskit.ir.gates.circuitgate import CircuitGate
        return CircuitGate(build_circuit(recipe['cg']), True)
    if 'barrier' in recipe:
        from bqskit.ir.gates.barrier import BarrierPlaceholder
        return BarrierPlaceholder(int(recipe['barrier']))
    if 'reset' in recipe:
        from bqskit.ir.gates.reset import Reset
        return Reset()
    if 'measure' in recipe:
        from bqskit.ir.gates.measure import MeasurementPlaceholder
        m = recipe['measure']
        return MeasurementPlaceholder(
            [(str(n), int(s)) for n, s in m['cregs']],
            {int(q): (str(v[0]), int(v[1])) for q, v in m['m'].items()},
        )
    raise ValueError('bad gate recipe %r' % (recipe,))


def build_circuit(cr: dict[str, Any]) -> Any:
    from bqskit.ir.circuit import Circuit
    c = Circuit(int(cr['n']))
    for op in cr['ops']:
        g = build_gate(op['g'])
        c.append_gate(g, [int(q) for q in op['loc']], [float(p) for p in op['params']])
    return c


def recipe_names(cr: dict[str, Any]) -> list[str]:
    """Flat list of gate descriptors used by a circuit recipe (for sigs)."""
    out: list[str] = []
    for op in cr['ops']:
        out.extend(_recipe_name(op['g']))
    return out


def _recipe_name(r: dict[str, Any]) -> list[str]:
    if 'cls' in r:
        kw = r.get('kw') or {}
        return [r['cls'].split(':')[1] + (str(sorted(kw.items())) if kw else '')]
    if 'ctrl' in r:
        return ['C%d[%s]' % (r['k'], ','.join(_recipe_name(r['ctrl'])))]
    if 'frozen' in r:
        return ['Frozen[%s]' % ','.join(_recipe_name(r['frozen']))]
    if 'cg' in r:
        return ['CG[%s]' % ','.join(recipe_names(r['cg']))]
    return [next(iter(r))]


# --------------------------------------------------------------------------
# 2. round-trip circuits
# --------------------------------------------------------------------------
SCI_VALUES = [1e-5, 2.5e-7, -3.75e-6, 1e-12, 1.2345678901234567e-8, 1e16, -2.5e16, 7e-5]


def rt_param(rng: np.random.Generator) -> float:
    r = rng.random()
    if r < 0.35:
        return float(rng.uniform(-2 * np.pi, 2 * np.pi))
    if r < 0.45:
        return -abs(float(rng.uniform(0.01, 7)))
    if r < 0.57:
        return float(rng.choice([-1, 1])) * 1e-9 * float(rng.uniform(1, 9))
    if r < 0.69:
        return float(rng.choice([-1, 1])) * float(rng.uniform(1e3, 1e6))
    if r < 0.82:
        return float(rng.choice(SCI_VALUES))
    if r < 0.92:
        return float(rng.choice([0.0, np.pi, -np.pi / 2, np.pi / 4, 3.0, -1.0, 0.1 + 0.2]))
    return float(rng.integers(-5, 6))


def param_style(p: float) -> str:
    s = str(p)
    if 'e' in s or 'E' in s:
        return 'sci'
    if p < 0:
        return 'negative'
    if abs(p) >= 1e3:
        return 'large'
    return 'plain'


def _rand_loc(rng: np.random.Generator, n: int, k: int) -> list[int]:
    return [int(x) for x in rng.permutation(n)[:k]]


def _rt_op(
    rng: np.random.Generator, table: list[dict[str, Any]], n: int, depth: int,
    force: dict[str, Any] | None = None,
) -> dict[str, Any]:
    r = rng.random()
    if force is None and depth < 2 and r < (0.3 if depth == 0 else 0.35):
        k = int(rng.integers(1, min(3, n) + 1))
        sub = {'n': k, 'ops': []}
        for _ in range(int(rng.integers(1, 5))):
            sub['ops'].append(_rt_op(rng, table, k, depth + 1))
        npar = sum(len(o['params']) for o in sub['ops'])
        # the outer operation gets fresh parameters (not the inner defaults)
        params = [rt_param(rng) for _ in range(npar)]
        return {'g': {'cg': sub}, 'loc': _rand_loc(rng, n, k), 'params': params}
    if force is not None:
        e = force
    else:
        cands = [e for e in table if e['nq'] <= n]
        e = cands[int(rng.integers(len(cands)))]
    recipe = e['recipe']
    npar = e['np']
    if force is None and npar >= 1 and rng.random() < 0.08:
        idx = sorted(int(i) for i in rng.choice(npar, size=int(rng.integers(1, npar + 1)), replace=False))
        recipe = {'frozen': recipe, 'fp': {str(i): rt_param(rng) for i in idx}}
        npar -= len(idx)
    return {
        'g': recipe, 'loc': _rand_loc(rng, n, e['nq']),
        'params': [rt_param(rng) for _ in range(npar)],
    }


def gen_rt_circuit(
    rng: np.random.Generator, table: list[dict[str, Any]],
    placeholders: bool = True,
) -> dict[str, Any]:
    n = int(rng.choice([1, 2, 2, 3, 3, 3, 4, 4, 5]))
    nops = int(rng.integers(1, 13))
    cr: dict[str, Any] = {'n': n, 'ops': []}
    measured: set[int] = set()
    for _ in range(nops):
        r = rng.random()
        if placeholders and r < 0.05:
            k = int(rng.integers(1, n + 1))
            cr['ops'].append({'g': {'barrier': k}, 'loc': _rand_loc(rng, n, k), 'params': []})
        elif placeholders and r < 0.08:
            cr['ops'].append({'g': {'reset': 1}, 'loc': _rand_loc(rng, n, 1), 'params': []})
        elif placeholders and r < 0.11:
            k = int(rng.integers(1, n + 1))
            qs = sorted(_rand_loc(rng, n, k))
            cregs = [['c', n], ['m_2', 2]]
            m = {}
            for q in qs:
                m[str(q)] = ['c', q] if rng.random() < 0.7 else ['m_2', int(rng.integers(2))]
            cr['ops'].append({'g': {'measure': {'cregs': cregs, 'm': m}}, 'loc': qs, 'params': []})
        else:
            cr['ops'].append(_rt_op(rng, table, n, 0))
    return cr


def single_gate_cases(table: list[dict[str, Any]], rng: np.random.Generator) -> list[dict[str, Any]]:
    """Every table gate: alone, inside a CircuitGate, inside a nested one."""
    out = []
    for e in table:
        nq = e['nq']
        for wrap in (0, 1, 2):
            n = min(5, nq + 1)
            op = _rt_op(rng, table, nq if wrap else n, 0, force=e)
            if wrap == 0:
                cr = {'n': n, 'ops': [op]}
            else:
                op['loc'] = list(range(nq))[::-1] if nq > 1 else [0]
                inner = {'n': nq, 'ops': [op]}
                if wrap == 2:
                    inner = {'n': nq, 'ops': [{
                        'g': {'cg': inner}, 'loc': list(range(nq)),
                        'params': [rt_param(rng) for _ in op['params']],
                    }]}
                cr = {'n': n, 'ops': [{
                    'g': {'cg': inner}, 'loc': _rand_loc(rng, n, nq),
                    'params': [rt_param(rng) for _ in op['params']],
                }]}
            out.append({'entry': e['key'], 'wrap': wrap, 'circuit': cr})
    return out


# --------------------------------------------------------------------------
# 3. expressions
# --------------------------------------------------------------------------
FUNCS = ('sin', 'cos', 'tan', 'exp', 'ln', 'sqrt')
BOUND = 1e6


class Domain(Exception):
    pass


def eval_expr(e: list, env: dict[str, float]) -> float:
    """Independent evaluator of the semantic tree (standard OpenQASM 2
    meaning). Raises Domain for anything numerically hazardous."""
    t = e[0]
    if t == 'num':
        v = float(e[1])
    elif t == 'pi':
        v = math.pi
    elif t == 'id':
        if e[1] not in env:
            raise Domain('unbound ' + e[1])
        v = env[e[1]]
    elif t == 'neg':
        v = -eval_expr(e[1], env)
    elif t == 'par':
        v = eval_expr(e[1], env)
    elif t == 'fn':
        x = eval_expr(e[2], env)
        f = e[1]
        if f == 'sin':
            v = math.sin(x)
        elif f == 'cos':
            v = math.cos(x)
        elif f == 'tan':
            if abs(math.cos(x)) < 0.05:
                raise Domain('tan pole')
            v = math.tan(x)
        elif f == 'exp':
            if x > 12:
                raise Domain('exp big')
            v = math.exp(x)
        elif f == 'ln':
            if x < 1e-3:
                raise Domain('ln')
            v = math.log(x)
        elif f == 'sqrt':
            if x < 0:
                raise Domain('sqrt')
            v = math.sqrt(x)
        else:
            raise Domain('fn')
    elif t == 'bin':
        a = eval_expr(e[2], env)
        b = eval_expr(e[3], env)
        op = e[1]
        if op == '+':
            v = a + b
        elif op == '-':
            v = a - b
        elif op == '*':
            v = a * b
        elif op == '/':
            if abs(b) < 1e-3:
                raise Domain('div')
            v = a / b
        elif op == '^':
            if a < 0 and b != int(b):
                raise Domain('pow neg base')
            if a == 0 and b <= 0:
                raise Domain('pow zero')
            if abs(b) > 8 or abs(a) > 50:
                raise Domain('pow big')
            try:
                v = math.pow(a, b)
            except (OverflowError, ValueError):
                raise Domain('pow')
        else:
            raise Domain('op')
    else:
        raise Domain('node')
    if not math.isfinite(v) or abs(v) > BOUND:
        raise Domain('range')
    return v


def _prec(e: list) -> int:
    t = e[0]
    if t == 'bin':
        return {'+': 1, '-': 1, '*': 2, '/': 2, '^': 4}[e[1]]
    if t == 'neg':
        return 3
    return 5


def render_expr(e: list, strip_parens: bool = False) -> str:
    """Text of a semantic tree with the parentheses standard precedence
    requires. strip_parens=True drops *every* parenthesis except a function's
    argument list (used to test the 'parentheses are ignored' hypothesis)."""
    def par(s: str, need: bool) -> str:
        return '(' + s + ')' if need and not strip_parens else s

    def r(x: list) -> str:
        t = x[0]
        if t == 'num':
            return x[1]
        if t == 'pi':
            return 'pi'
        if t == 'id':
            return x[1]
        if t == 'par':
            return par(r(x[1]), True)
        if t == 'fn':
            return '%s(%s)' % (x[1], r(x[2]))
        if t == 'neg':
            c = x[1]
            return '-' + par(r(c), c[0] == 'bin' and c[1] != '^')
        op, a, b = x[1], x[2], x[3]
        pa, pb = _prec(a), _prec(b)
        if op in '+-':
            L = r(a)
            R = par(r(b), pb <= 1)
            sep = ' ' if R.startswith('-') else ''
            return L + op + sep + R
        if op in '*/':
            L = par(r(a), pa < 2)
            R = par(r(b), pb <= 2)
            return L + op + R
        L = par(r(a), pa <= 4)
        R = par(r(b), pb < 3)
        return L + '^' + R
    return r(e)


def expr_features(e: list, out: set[str] | None = None) -> set[str]:
    if out is None:
        out = set()
    t = e[0]
    if t == 'num':
        s = e[1]
        if 'e' in s or 'E' in s:
            out.add('lit:sci')
        elif s.startswith('.'):
            out.add('lit:leading_dot')
        elif s.endswith('.'):
            out.add('lit:trailing_dot')
        elif '.' not in s:
            out.add('lit:int')
    elif t == 'pi':
        out.add('pi')
    elif t == 'id':
        out.add('formal')
    elif t == 'neg':
        # a signed literal is a literal, not an application of unary minus
        out.add('lit:neg' if e[1][0] == 'num' else 'usub')
        expr_features(e[1], out)
    elif t == 'par':
        out.add('paren')
        expr_features(e[1], out)
    elif t == 'fn':
        out.add('fn:' + e[1])
        expr_features(e[2], out)
    else:
        out.add({'+': 'add', '-': 'sub', '*': 'mul', '/': 'div', '^': 'pow'}[e[1]])
        a, b = e[2], e[3]
        pa, pb = _prec(a), _prec(b)
        op = e[1]
        need = (
            (op in '+-' and pb <= 1) or (op in '*/' and (pa < 2 or pb <= 2))
            or (op == '^' and (pa <= 4 or pb < 3))
        )
        if need:
            out.add('paren')
        expr_features(a, out)
        expr_features(b, out)
    if t == 'neg' and e[1][0] == 'bin' and e[1][1] != '^':
        out.add('paren')
    return out


def _lit(rng: np.random.Generator, sci: bool = True) -> list:
    r = rng.random()
    if r < 0.35:
        return ['num', str(int(rng.integers(0, 10)))]
    if r < 0.65:
        return ['num', '%.3f' % float(rng.uniform(0, 4))]
    if r < 0.72:
        return ['num', '.' + str(int(rng.integers(1, 100)))]
    if r < 0.78:
        return ['num', str(int(rng.integers(0, 10))) + '.']
    if sci:
        m = '%.2f' % float(rng.uniform(1, 9.99)) if rng.random() < 0.6 else str(int(rng.integers(1, 10)))
        ex = int(rng.integers(-9, 4))
        sign = '+' if ex >= 0 and rng.random() < 0.5 else ''
        return ['num', '%s%s%s%d' % (m, 'e' if rng.random() < 0.7 else 'E', sign, ex)]
    return ['num', '%.2f' % float(rng.uniform(0, 4))]


def gen_expr(
    rng: np.random.Generator, depth: int, formals: list[str],
    funcs: tuple[str, ...] = FUNCS, rich: bool = True,
) -> list:
    """Random semantic expression tree (not yet domain-checked)."""
    if depth <= 0 or rng.random() < 0.22:
        r = rng.random()
        if formals and r < 0.45:
            return ['id', formals[int(rng.integers(len(formals)))]]
        if r < 0.65:
            return ['pi']
        return _lit(rng)
    r = rng.random()
    if r < 0.14:
        return ['neg', gen_expr(rng, depth - 1, formals, funcs, rich)]
    if r < 0.26 and funcs:
        return ['fn', funcs[int(rng.integers(len(funcs)))], gen_expr(rng, depth - 1, formals, funcs, rich)]
    if r < 0.32 and rich:
        return ['par', gen_expr(rng, depth - 1, formals, funcs, rich)]
    ops = '+-*/^' if rich else '+-*/'
    op = ops[int(rng.integers(len(ops)))]
    a = gen_expr(rng, depth - 1, formals, funcs, rich)
    b = gen_expr(rng, depth - 1, formals, funcs, rich)
    if op == '^' and rng.random() < 0.7:
        b = ['num', str(int(rng.integers(0, 4)))] if rng.random() < 0.6 else ['neg', ['num', str(int(rng.integers(1, 3)))]]
    return ['bin', op, a, b]


def gen_valid_expr(
    rng: np.random.Generator, depth: int, formals: list[str],
    envs: list[dict[str, float]], funcs: tuple[str, ...] = FUNCS,
    rich: bool = True,
) -> list:
    """Expression valid (Domain-free) under every environment in envs."""
    for _ in range(60):
        e = gen_expr(rng, depth, formals, funcs, rich)
        try:
            for env in envs or [{}]:
                eval_expr(e, env)
            return e
        except Domain:
            continue
    return ['pi'] if not formals else ['id', formals[0]]


# --------------------------------------------------------------------------
# 4. programs
# --------------------------------------------------------------------------
# qelib1.inc gates (name -> (num params, num qubits)); the list is checked
# against Qiskit's LEGACY_CUSTOM_INSTRUCTIONS at run time in props/c17.py
QELIB1 = {
    'u3': (3, 1), 'u2': (2, 1), 'u1': (1, 1), 'cx': (0, 2), 'id': (0, 1),
    'u': (3, 1), 'p': (1, 1), 'x': (0, 1), 'y': (0, 1), 'z': (0, 1),
    'h': (0, 1), 's': (0, 1), 'sdg': (0, 1), 't': (0, 1), 'tdg': (0, 1),
    'rx': (1, 1), 'ry': (1, 1), 'rz': (1, 1), 'sx': (0, 1), 'sxdg': (0, 1),
    'cz': (0, 2), 'cy': (0, 2), 'swap': (0, 2), 'ch': (0, 2), 'ccx': (0, 3),
    'cswap': (0, 3), 'crx': (1, 2), 'cry': (1, 2), 'crz': (1, 2),
    'cu1': (1, 2), 'cp': (1, 2), 'cu3': (3, 2), 'csx': (0, 2), 'cu': (4, 2),
    'rxx': (1, 2), 'rzz': (1, 2), 'rccx': (0, 3), 'rc3x': (0, 4),
    'c3x': (0, 4), 'c3sqrtx': (0, 4), 'c4x': (0, 5),
}
# u0(gamma) is in qelib1 too; Qiskit's legacy loader wants an integer there
U0 = 'u0'
CANON = {
    (0, 1): 'x', (1, 1): 'rz', (2, 1): 'u2', (3, 1): 'u3', (0, 2): 'cx',
    (1, 2): 'crz', (3, 2): 'cu3', (4, 2): 'cu', (0, 3): 'ccx', (0, 4): 'c3x',
    (0, 5): 'c4x',
}
QREG_NAMES = ['q', 'r', 'qr', 'anc', 'data', 'q_1', 'w0', 'regB']
CREG_NAMES = ['c', 'm', 'cr', 'out', 'c_2', 'meas0']
DEF_NAMES = ['g0', 'foo', 'my_gate', 'rot', 'blk', 'layer_1', 'majority', 'unmaj', 'gateA', 'k9', 'mix', 'ww']
FORMAL_P = ['a', 'b', 'theta', 'phi', 'lam', 't0', 'alpha_1', 'w']
FORMAL_Q = ['qa', 'qb', 'qc', 'q0', 'q1', 'c0', 'tgt', 'v_2']
RESERVED = set(FUNCS) | {'pi', 'U', 'CX', 'gate', 'qreg', 'creg', 'measure', 'reset', 'barrier', 'if', 'opaque', 'include', 'OPENQASM'}


def _pick_names(rng: np.random.Generator, pool: list[str], k: int) -> list[str]:
    idx = rng.permutation(len(pool))[:k]
    return [pool[int(i)] for i in idx]


def _gen_params_exprs(
    rng: np.random.Generator, k: int, formals: list[str],
    envs: list[dict[str, float]], prof: dict[str, Any],
) -> list[list]:
    out = []
    for _ in range(k):
        lvl = prof['expr']
        if lvl == 0:
            e = _lit(rng, sci=False)
            if rng.random() < 0.3:
                e = ['neg', e]
            if formals and rng.random() < 0.6:
                e = ['id', formals[int(rng.integers(len(formals)))]]
        else:
            d = int(rng.integers(0, 2 if lvl == 1 else 4))
            e = gen_valid_expr(rng, d, formals, envs, prof['funcs'], prof['rich'])
        out.append(e)
    return out


PROFILES = ['plain', 'registers', 'defs', 'exprs', 'exprs_safe', 'nonunitary', 'all', 'all']


def make_profile(rng: np.random.Generator, name: str | None = None) -> dict[str, Any]:
    if name is None:
        name = PROFILES[int(rng.integers(len(PROFILES)))]
    p: dict[str, Any] = {
        'name': name, 'nq': 1, 'ndefs': 0, 'expr': 0, 'funcs': (), 'rich': False,
        'barrier': 0.0, 'measure': 0.0, 'reset': 0.0, 'comment': 0.0,
        'noinc': 0.0, 'shadow': 0.0, 'body_barrier': 0.0, 'u0': 0.0, 'layout': 0,
    }
    if name == 'plain':
        p.update(nq=int(rng.integers(1, 3)), noinc=0.1)
    elif name == 'registers':
        p.update(nq=int(rng.integers(2, 4)), barrier=0.1, comment=0.05, layout=int(rng.integers(3)))
    elif name == 'defs':
        p.update(nq=int(rng.integers(1, 3)), ndefs=int(rng.integers(1, 4)), noinc=0.1, body_barrier=0.05)
    elif name == 'exprs':
        p.update(nq=1, expr=2, funcs=FUNCS, rich=True, ndefs=int(rng.integers(0, 3)))
    elif name == 'exprs_safe':
        # no power / redundant parentheses / exp / sqrt: exercises + - * /,
        # unary minus, pi, sin cos tan ln, scientific notation
        p.update(nq=int(rng.integers(1, 3)), expr=1, funcs=('sin', 'cos', 'tan', 'ln'), rich=False, ndefs=int(rng.integers(0, 3)))
    elif name == 'nonunitary':
        p.update(nq=int(rng.integers(1, 4)), barrier=0.25, measure=0.2, reset=0.15, comment=0.1, layout=int(rng.integers(3)))
    else:
        p.update(
            nq=int(rng.integers(1, 4)), ndefs=int(rng.integers(0, 4)), expr=int(rng.integers(0, 3)),
            funcs=FUNCS, rich=True, barrier=0.1, measure=0.08, reset=0.06, comment=0.08,
            noinc=0.05, shadow=0.08, body_barrier=0.1, u0=0.02, layout=int(rng.integers(3)),
        )
    return p


def gen_program(rng: np.random.Generator, profile: dict[str, Any] | None = None, shadow_names: list[str] | None = None) -> dict[str, Any]:
    prof = profile or make_profile(rng)
    nq = prof['nq']
    # register sizes: total <= 6, at least 1 each
    total_cap = int(rng.choice([2, 3, 4, 4, 5, 5, 6]))
    total_cap = max(total_cap, nq)
    sizes = [1] * nq
    for _ in range(total_cap - nq):
        sizes[int(rng.integers(nq))] += 1
    qnames = _pick_names(rng, QREG_NAMES, nq)
    qregs = [[qnames[i], sizes[i]] for i in range(nq)]
    total = sum(sizes)
    ncr = int(rng.integers(1, 4)) if (prof['measure'] > 0) else int(rng.integers(0, 2))
    cnames = _pick_names(rng, CREG_NAMES, ncr)
    cregs = [[cnames[i], int(rng.integers(1, 4))] for i in range(ncr)]
    include = not (rng.random() < prof['noinc'])
    avail = dict(QELIB1) if include else {}

    # ---- gate definitions
    defs: list[dict[str, Any]] = []
    dnames = _pick_names(rng, DEF_NAMES, prof['ndefs'])
    sigs: dict[str, tuple[int, int]] = {}
    for di in range(prof['ndefs']):
        name = dnames[di]
        if shadow_names and rng.random() < prof['shadow']:
            name = shadow_names[int(rng.integers(len(shadow_names)))]
            if name in sigs:
                name = dnames[di]
        nfp = int(rng.choice([0, 1, 1, 2, 2, 3]))
        nfq = int(rng.choice([1, 1, 2, 2, 3]))
        nfq = min(nfq, max(1, total))
        fps = _pick_names(rng, FORMAL_P, nfp)
        fqs = [n for n in _pick_names(rng, FORMAL_Q, len(FORMAL_Q)) if n not in fps][:nfq]
        # environments under which body expressions must be valid: the
        # actual call values are drawn from CALL_VALUES-like ranges later and
        # re-validated; here use a few probes
        envs = [{p_: float(v) for p_, v in zip(fps, vals)} for vals in ([0.7] * 8, [2.3, 0.4, 1.1, 3.0, 0.2, 1.7, 0.9, 2.9], [1.0, 2.0, 3.0, 0.5, 1.5, 2.5, 0.25, 0.75])]
        body: list[dict[str, Any]] = []
        nbody = 0 if rng.random() < 0.04 else int(rng.integers(1, 6))
        for bi in range(nbody):
            r = rng.random()
            if r < prof['body_barrier']:
                k = int(rng.integers(1, nfq + 1))
                body.append({'k': 'barrier', 'q': _pick_names(rng, fqs, k)})
                continue
            if r < 0.12 + prof['body_barrier']:
                body.append({'k': 'U', 'ex': _gen_params_exprs(rng, 3, fps, envs, prof), 'q': [fqs[int(rng.integers(nfq))]]})
                continue
            if r < 0.2 + prof['body_barrier'] and nfq >= 2:
                body.append({'k': 'CX', 'q': _pick_names(rng, fqs, 2)})
                continue
            cands = [(g, s) for g, s in avail.items() if s[1] <= nfq]
            prev = [(g, s) for g, s in sigs.items() if s[1] <= nfq]
            if prev and rng.random() < 0.45:
                g, s = prev[int(rng.integers(len(prev)))]
            elif cands:
                g, s = cands[int(rng.integers(len(cands)))]
            else:
                body.append({'k': 'U', 'ex': _gen_params_exprs(rng, 3, fps, envs, prof), 'q': [fqs[int(rng.integers(nfq))]]})
                continue
            body.append({'k': 'app', 'g': g, 'ex': _gen_params_exprs(rng, s[0], fps, envs, prof), 'q': _pick_names(rng, fqs, s[1])})
        defs.append({
            'k': 'gatedef', 'name': name, 'params': fps, 'qubits': fqs, 'body': body,
            'parens': bool(nfp == 0 and rng.random() < 0.3),
        })
        sigs[name] = (nfp, nfq)

    # ---- main statements
    main: list[dict[str, Any]] = []

    def rand_qubit() -> list:
        ri = int(rng.integers(nq))
        return [qregs[ri][0], int(rng.integers(qregs[ri][1]))]

    def rand_qubits(k: int) -> list[list]:
        flat = [[qregs[ri][0], i] for ri in range(nq) for i in range(qregs[ri][1])]
        idx = rng.permutation(len(flat))[:k]
        return [flat[int(i)] for i in idx]

    nmain = int(rng.integers(1, 15))
    for _ in range(nmain):
        r = rng.random()
        acc = prof['barrier']
        if r < acc:
            main.append(_gen_barrier(rng, qregs))
            continue
        acc += prof['measure']
        if r < acc and cregs:
            ci = int(rng.integers(len(cregs)))
            if rng.random() < 0.4:
                ri = int(rng.integers(nq))
                # whole register: needs a classical register of equal size
                match = [c for c in cregs if c[1] == qregs[ri][1]]
                if not match:
                    nm = [n for n in CREG_NAMES if n not in [c[0] for c in cregs]]
                    if nm:
                        cregs.append([nm[0], qregs[ri][1]])
                        match = [cregs[-1]]
                if match:
                    main.append({'k': 'measure', 'q': [qregs[ri][0], None], 'c': [match[0][0], None]})
                    continue
            main.append({'k': 'measure', 'q': rand_qubit(), 'c': [cregs[ci][0], int(rng.integers(cregs[ci][1]))]})
            continue
        acc += prof['reset']
        if r < acc:
            if rng.random() < 0.45:
                main.append({'k': 'reset', 'q': [qregs[int(rng.integers(nq))][0], None]})
            else:
                main.append({'k': 'reset', 'q': rand_qubit()})
            continue
        acc += prof['comment']
        if r < acc:
            main.append({'k': 'comment', 'text': str(rng.choice(['layer', 'h q[0]; not code', 'measure q -> c;', '', '/ triple slash', 'pi*2 (x)']))})
            continue
        r2 = rng.random()
        if r2 < 0.08:
            main.append({'k': 'U', 'ex': _gen_params_exprs(rng, 3, [], [], prof), 'q': rand_qubit()})
            continue
        if r2 < 0.14 and total >= 2:
            main.append({'k': 'CX', 'q': rand_qubits(2)})
            continue
        if include and rng.random() < prof['u0']:
            main.append({'k': 'app', 'g': U0, 'ex': [['num', str(int(rng.integers(0, 4)))]], 'q': [rand_qubit()]})
            continue
        customs = [(g, s) for g, s in sigs.items() if s[1] <= total]
        libs = [(g, s) for g, s in avail.items() if s[1] <= total]
        if customs and (rng.random() < 0.5 or not libs):
            g, s = customs[int(rng.integers(len(customs)))]
        elif libs:
            g, s = libs[int(rng.integers(len(libs)))]
        else:
            main.append({'k': 'U', 'ex': _gen_params_exprs(rng, 3, [], [], prof), 'q': rand_qubit()})
            continue
        main.append({'k': 'app', 'g': g, 'ex': _gen_params_exprs(rng, s[0], [], [], prof), 'q': rand_qubits(s[1])})

    prog = {
        'include': include, 'qregs': qregs, 'cregs': cregs, 'defs': defs,
        'main': main, 'defs_first': bool(rng.random() < 0.5),
        'layout': prof['layout'], 'profile': prof['name'],
    }
    return prog


def _gen_barrier(rng: np.random.Generator, qregs: list[list]) -> dict[str, Any]:
    nq = len(qregs)
    style = rng.random()
    args: list[list] = []
    if style < 0.25:
        ri = int(rng.integers(nq))
        args = [[qregs[ri][0], int(rng.integers(qregs[ri][1]))]]
    elif style < 0.5:
        flat = [[qregs[ri][0], i] for ri in range(nq) for i in range(qregs[ri][1])]
        k = int(rng.integers(1, len(flat) + 1))
        args = [flat[int(i)] for i in rng.permutation(len(flat))[:k]]
    elif style < 0.68:
        args = [[qregs[int(rng.integers(nq))][0], None]]
    elif style < 0.84:
        k = int(rng.integers(1, nq + 1))
        args = [[qregs[int(i)][0], None] for i in rng.permutation(nq)[:k]]
    else:
        order = [int(i) for i in rng.permutation(nq)]
        for ri in order:
            if rng.random() < 0.5:
                args.append([qregs[ri][0], None])
            else:
                k = int(rng.integers(1, qregs[ri][1] + 1))
                for i in rng.permutation(qregs[ri][1])[:k]:
                    args.append([qregs[ri][0], int(i)])
        if rng.random() < 0.5:
            args = [args[int(i)] for i in rng.permutation(len(args))]
    return {'k': 'barrier', 'q': args}


# ---- semantics needed for domain validation -------------------------------
def validate_program(prog: dict[str, Any]) -> bool:
    """Every expression evaluates without a Domain hazard under the actual
    call arguments (gate bodies are expanded recursively)."""
    defs = {d['name']: d for d in prog['defs']}

    def run_body(d: dict[str, Any], env: dict[str, float], depth: int) -> None:
        if depth > 6:
            raise Domain('depth')
        for st in d['body']:
            if st['k'] in ('app', 'U'):
                vals = [eval_expr(e, env) for e in st['ex']]
                if st['k'] == 'app' and st['g'] in defs:
                    sub = defs[st['g']]
                    run_body(sub, dict(zip(sub['params'], vals)), depth + 1)

    try:
        for st in prog['main']:
            if st['k'] in ('app', 'U'):
                vals = [eval_expr(e, {}) for e in st['ex']]
                if st['k'] == 'app' and st['g'] in defs:
                    d = defs[st['g']]
                    if len(vals) != len(d['params']):
                        return False
                    run_body(d, dict(zip(d['params'], vals)), 0)
        # definitions never called still have to be well-formed text, but
        # their expressions are never evaluated by Qiskit... they are by
        # BQSKit for closed sub-expressions, so keep them domain-safe too
        for d in prog['defs']:
            run_body(d, {p: 0.7 for p in d['params']}, 0)
    except Domain:
        return False
    return True


def gen_valid_program(rng: np.random.Generator, profile_name: str | None = None, shadow_names: list[str] | None = None) -> dict[str, Any]:
    for _ in range(40):
        prof = make_profile(rng, profile_name)
        p = gen_program(rng, prof, shadow_names)
        if validate_program(p):
            return p
    prof = make_profile(rng, 'plain')
    return gen_program(rng, prof, None)


# ---- rendering ----------------------------------------------------------------
def _arg(a: list) -> str:
    return a[0] if a[1] is None else '%s[%d]' % (a[0], a[1])


def render_program(prog: dict[str, Any], strip_parens: bool = False) -> str:
    lay = prog.get('layout', 0)
    comma = ', ' if lay == 1 else ','
    nl = '\n'
    out: list[str] = ['OPENQASM 2.0;']
    if prog['include']:
        out.append('include "qelib1.inc";')

    def ex(es: list[list]) -> str:
        return comma.join(render_expr(e, strip_parens) for e in es)

    def decls() -> list[str]:
        o = []
        for n, s in prog['qregs']:
            o.append('qreg %s[%d];' % (n, s))
        for n, s in prog['cregs']:
            o.append('creg %s[%d];' % (n, s))
        return o

    def gdefs() -> list[str]:
        o = []
        for d in prog['defs']:
            head = 'gate ' + d['name']
            if d['params']:
                head += '(' + comma.join(d['params']) + ')'
            elif d.get('parens'):
                head += '()'
            head += ' ' + comma.join(d['qubits'])
            lines = []
            for st in d['body']:
                if st['k'] == 'barrier':
                    lines.append('barrier ' + comma.join(st['q']) + ';')
                elif st['k'] == 'U':
                    lines.append('U(%s) %s;' % (ex(st['ex']), st['q'][0]))
                elif st['k'] == 'CX':
                    lines.append('CX %s;' % comma.join(st['q']))
                else:
                    p = '(%s)' % ex(st['ex']) if st['ex'] else ('()' if st.get('parens') else '')
                    lines.append('%s%s %s;' % (st['g'], p, comma.join(st['q'])))
            if lay == 2:
                o.append(head + ' { ' + ' '.join(lines) + ' }')
            else:
                o.append(head + '\n{\n' + ''.join('  ' + l + '\n' for l in lines) + '}')
        return o

    if prog.get('defs_first'):
        out += gdefs() + decls()
    else:
        out += decls() + gdefs()
    for st in prog['main']:
        k = st['k']
        if k == 'comment':
            out.append('//' + st['text'])
        elif k == 'barrier':
            out.append('barrier ' + comma.join(_arg(a) for a in st['q']) + ';')
        elif k == 'measure':
            arrow = ' -> ' if lay != 2 else '->'
            out.append('measure %s%s%s;' % (_arg(st['q']), arrow, _arg(st['c'])))
        elif k == 'reset':
            out.append('reset %s;' % _arg(st['q']))
        elif k == 'U':
            out.append('U(%s) %s;' % (ex(st['ex']), _arg(st['q'])))
        elif k == 'CX':
            out.append('CX %s;' % comma.join(_arg(a) for a in st['q']))
        else:
            p = '(%s)' % ex(st['ex']) if st['ex'] else ''
            line = '%s%s %s;' % (st['g'], p, comma.join(_arg(a) for a in st['q']))
            if lay == 1 and len(line) % 3 == 0:
                line += ' // ' + st['g']
            out.append(line)
    if lay == 2:
        # several statements per line (comments must end a line)
        text = ''
        for l in out:
            text += l + ('\n' if l.startswith('//') or '//' in l or l.startswith('OPENQASM') or l.startswith('include') else ' ')
        return text.rstrip() + '\n'
    return nl.join(out) + '\n'


# ---- features ---------------------------------------------------------------
def program_features(prog: dict[str, Any]) -> set[str]:
    f: set[str] = set()
    if len(prog['qregs']) >= 2:
        f.add('multi_qreg')
    if not prog['include']:
        f.add('no_include')
    if prog.get('layout'):
        f.add('layout%d' % prog['layout'])
    if prog['defs'] and prog.get('defs_first'):
        f.add('defs_before_regs')
    defnames = {d['name'] for d in prog['defs']}
    used_regs = set()
    for d in prog['defs']:
        f.add('userdef')
        if d['params']:
            f.add('userdef_params%d' % min(len(d['params']), 2))
        if len(d['qubits']) >= 2:
            f.add('userdef_multiqubit')
        if not d['body']:
            f.add('userdef_empty_body')
        if d.get('parens'):
            f.add('userdef_empty_parens')
        for i, st in enumerate(d['body']):
            if st['k'] == 'barrier':
                f.add('body_barrier_first' if i == 0 else 'body_barrier')
            elif st['k'] == 'U':
                f.add('body_U')
            elif st['k'] == 'CX':
                f.add('body_CX')
            else:
                if st['g'] in defnames:
                    f.add('nested_userdef')
                else:
                    f.add('gate:' + st['g'])
            for e in st.get('ex', []):
                f |= {'body_' + x if x == 'formal' else x for x in expr_features(e)}
    for st in prog['main']:
        k = st['k']
        if k == 'comment':
            f.add('comment')
        elif k == 'barrier':
            whole = [a for a in st['q'] if a[1] is None]
            single = [a for a in st['q'] if a[1] is not None]
            if whole and single:
                f.add('barrier_mixed')
            elif len(whole) >= 2:
                f.add('barrier_regs')
            elif whole:
                f.add('barrier_reg')
            elif len(single) >= 2:
                f.add('barrier_multi')
            else:
                f.add('barrier_single')
        elif k == 'measure':
            f.add('measure_reg' if st['q'][1] is None else 'measure_single')
        elif k == 'reset':
            f.add('reset_reg' if st['q'][1] is None else 'reset_single')
        elif k == 'U':
            f.add('U')
        elif k == 'CX':
            f.add('CX')
        else:
            if st['g'] in defnames:
                f.add('call_userdef')
            else:
                f.add('gate:' + st['g'])
        for e in st.get('ex', []):
            f |= expr_features(e)
        qs = st.get('q') or []
        if k in ('measure', 'reset', 'U'):
            qs = [qs]
        for a in qs:
            if isinstance(a, list):
                used_regs.add(a[0])
    # a statement addressing a register that is not the first one
    if prog['qregs'] and any(r != prog['qregs'][0][0] for r in used_regs):
        f.add('uses_later_qreg')
    return f


BASELINE = {
    'lit:int', 'userdef', 'call_userdef', 'defs_before_regs',
} | {'gate:' + g for g in CANON.values()}


def essential_features(prog: dict[str, Any]) -> list[str]:
    f = program_features(prog)
    ess = sorted(f - BASELINE)
    if not ess:
        # nothing but baseline constructs: name the (canonical) gates left
        ess = sorted(x for x in f if x.startswith('gate:')) or sorted(f)
    return ess


# ---- shrinking ----------------------------------------------------------------
def _expr_sites(prog: dict[str, Any]) -> Iterator[tuple[dict[str, Any], int, list[str]]]:
    for d in prog['defs']:
        for st in d['body']:
            for i in range(len(st.get('ex', []))):
                yield st, i, d['params']
    for st in prog['main']:
        for i in range(len(st.get('ex', []))):
            yield st, i, []


def _sub_exprs(e: list, path: tuple = ()) -> Iterator[tuple[tuple, list]]:
    yield path, e
    t = e[0]
    if t in ('neg', 'par'):
        yield from _sub_exprs(e[1], path + (1,))
    elif t == 'fn':
        yield from _sub_exprs(e[2], path + (2,))
    elif t == 'bin':
        yield from _sub_exprs(e[2], path + (2,))
        yield from _sub_exprs(e[3], path + (3,))


def _replace(e: list, path: tuple, new: list) -> list:
    if not path:
        return new
    e = list(e)
    e[path[0]] = _replace(e[path[0]], path[1:], new)
    return e


def _closed(e: list) -> bool:
    return all(s[0] != 'id' for _, s in _sub_exprs(e))


def _plain_lit(v: float) -> list:
    if v < 0:
        return ['neg', ['num', repr(-v) if 'e' not in repr(-v) else '%.12f' % -v]]
    s = repr(v)
    if 'e' in s:
        s = '%.12f' % v
    return ['num', s]


def py_eval_text(text: str) -> Any:
    """Python's reading of an expression text ('^' as '**'); used only to
    *name* a failure (is it what the parenthesis-free text does?), never as
    an oracle."""
    env = {'pi': math.pi, 'sin': math.sin, 'cos': math.cos, 'tan': math.tan, 'exp': math.exp, 'ln': math.log, 'sqrt': math.sqrt}
    return eval(text.replace('^', '**'), {'__builtins__': {}}, env)


def expr_candidates(e: list, env: dict[str, float] | None = None) -> Iterator[list]:
    """Simpler variants of an expression, biggest simplification first."""
    subs = list(_sub_exprs(e))
    if env:
        for path, s in subs:
            if s[0] == 'id' and s[1] in env:
                yield _replace(e, path, _plain_lit(float(env[s[1]])))
    # whole or sub expression -> plain literal of its value
    for path, s in subs:
        if s[0] == 'num' and 'e' not in s[1].lower() and not s[1].startswith('.') and not s[1].endswith('.'):
            continue
        if _closed(s) and not (s[0] == 'neg' and s[1][0] == 'num' and 'e' not in s[1][1].lower()):
            try:
                v = eval_expr(s, {})
            except Domain:
                continue
            yield _replace(e, path, _plain_lit(v))
    # closed sub-expression -> the constant 0.5
    for path, s in subs:
        if _closed(s) and s != ['num', '0.5'] and not (s[0] == 'num' and len(subs) == 1 and s[1] in ('0.5',)):
            if s[0] in ('num', 'neg', 'pi') or len(path) == 0:
                yield _replace(e, path, ['num', '0.5'])
    # structural: node -> child
    for path, s in subs:
        t = s[0]
        if t in ('neg', 'par'):
            yield _replace(e, path, s[1])
        elif t == 'fn':
            yield _replace(e, path, s[2])
        elif t == 'bin':
            yield _replace(e, path, s[2])
            yield _replace(e, path, s[3])
    # pi -> literal; formal parameter -> literal
    for path, s in subs:
        if s[0] == 'pi':
            yield _replace(e, path, ['num', '3.0'])
        elif s[0] == 'id':
            yield _replace(e, path, ['num', '0.7'])


def _uses(prog: dict[str, Any], name: str) -> bool:
    for d in prog['defs']:
        for st in d['body']:
            if st['k'] == 'app' and st['g'] == name:
                return True
    return any(st['k'] == 'app' and st['g'] == name for st in prog['main'])


def _reg_used(prog: dict[str, Any], name: str, key: str) -> bool:
    for st in prog['main']:
        k = st['k']
        if key == 'q':
            qs = st.get('q')
            if qs is None:
                continue
            if k in ('measure', 'reset', 'U'):
                qs = [qs]
            if any(a[0] == name for a in qs):
                return True
        else:
            if k == 'measure' and st['c'][0] == name:
                return True
    return False


def program_candidates(prog: dict[str, Any]) -> Iterator[dict[str, Any]]:
    """Strictly simpler variants of a program (for greedy shrinking)."""
    # 1. drop main statements (all, all but one, halves, then singles)
    n = len(prog['main'])
    if n >= 1:
        p = copy.deepcopy(prog)
        p['main'] = []
        yield p
    if n > 2:
        for i in range(n):
            p = copy.deepcopy(prog)
            p['main'] = [p['main'][i]]
            yield p
    if n > 3:
        for lo, hi in ((0, n // 2), (n // 2, n)):
            p = copy.deepcopy(prog)
            del p['main'][lo:hi]
            yield p
    if n > 1:
        for i in range(n):
            p = copy.deepcopy(prog)
            del p['main'][i]
            yield p
    # 2. drop unused gate definitions
    for i, d in enumerate(prog['defs']):
        others = copy.deepcopy(prog)
        del others['defs'][i]
        if not _uses(others, d['name']):
            yield others
    # 3. drop body statements
    for i, d in enumerate(prog['defs']):
        for j in range(len(d['body'])):
            p = copy.deepcopy(prog)
            del p['defs'][i]['body'][j]
            yield p
    # 4. drop unused registers
    for i, (name, _) in enumerate(prog['qregs']):
        if len(prog['qregs']) > 1 and not _reg_used(prog, name, 'q'):
            p = copy.deepcopy(prog)
            del p['qregs'][i]
            yield p
    for i, (name, _) in enumerate(prog['cregs']):
        if not _reg_used(prog, name, 'c'):
            p = copy.deepcopy(prog)
            del p['cregs'][i]
            yield p
    # 5. canonical gates
    defnames = {d['name'] for d in prog['defs']}
    def canon_sites(p: dict[str, Any]) -> list[dict[str, Any]]:
        out = [st for d in p['defs'] for st in d['body']] + list(p['main'])
        return [st for st in out if st['k'] == 'app' and st['g'] not in defnames and st['g'] in QELIB1]
    for si, st in enumerate(canon_sites(prog)):
        sig = QELIB1[st['g']]
        c = CANON.get(sig)
        if c and c != st['g'] and prog['include']:
            p = copy.deepcopy(prog)
            canon_sites(p)[si]['g'] = c
            yield p
    # 6. expressions
    sites = list(_expr_sites(prog))
    for si, (st, i, formals) in enumerate(sites):
        for cand in expr_candidates(st['ex'][i]):
            p = copy.deepcopy(prog)
            st2, i2, _ = list(_expr_sites(p))[si]
            st2['ex'][i2] = cand
            yield p
    # 7. whole register argument -> single qubit (barrier only; for measure /
    #    reset the whole-register form is the feature itself)
    for mi, st in enumerate(prog['main']):
        if st['k'] == 'barrier':
            for ai, a in enumerate(st['q']):
                if a[1] is None:
                    p = copy.deepcopy(prog)
                    p['main'][mi]['q'][ai] = [a[0], 0]
                    if len({tuple(x) for x in p['main'][mi]['q']}) == len(p['main'][mi]['q']):
                        yield p
            if len(st['q']) > 1:
                for ai in range(len(st['q'])):
                    p = copy.deepcopy(prog)
                    del p['main'][mi]['q'][ai]
                    yield p
    # 8. drop a formal parameter that no body expression uses
    for di, d in enumerate(prog['defs']):
        for pi_, pn in enumerate(d['params']):
            used = any(
                s[0] == 'id' and s[1] == pn
                for st in d['body'] for e in st.get('ex', []) for _, s in _sub_exprs(e)
            )
            if used:
                continue
            p = copy.deepcopy(prog)
            del p['defs'][di]['params'][pi_]
            for d2 in p['defs']:
                for st in d2['body']:
                    if st['k'] == 'app' and st['g'] == d['name']:
                        del st['ex'][pi_]
            for st in p['main']:
                if st['k'] == 'app' and st['g'] == d['name']:
                    del st['ex'][pi_]
            yield p
    # 9. shrink registers to size 1 where only index 0 is used; plain layout
    for i, (name, size) in enumerate(prog['qregs']):
        if size > 1:
            mx = 0
            whole = False
            for st in prog['main']:
                qs = st.get('q')
                if qs is None:
                    continue
                if st['k'] in ('measure', 'reset', 'U'):
                    qs = [qs]
                for a in qs:
                    if a[0] == name:
                        if a[1] is None:
                            whole = True
                        else:
                            mx = max(mx, a[1])
            if not whole and mx + 1 < size:
                p = copy.deepcopy(prog)
                p['qregs'][i][1] = mx + 1
                yield p
    if prog.get('layout'):
        p = copy.deepcopy(prog)
        p['layout'] = 0
        yield p
    if prog.get('defs_first'):
        p = copy.deepcopy(prog)
        p['defs_first'] = False
        yield p
    if not prog['include']:
        p = copy.deepcopy(prog)
        p['include'] = True
        yield p
    if prog['include']:
        # U -> u3, CX -> cx (main and bodies)
        def ucx_sites(p: dict[str, Any]) -> list[dict[str, Any]]:
            out = [st for d in p['defs'] for st in d['body']] + list(p['main'])
            return [st for st in out if st['k'] in ('U', 'CX')]
        for si, st in enumerate(ucx_sites(prog)):
            p = copy.deepcopy(prog)
            st2 = ucx_sites(p)[si]
            if st2['k'] == 'U':
                q = st2['q']
                in_body = any(st2 is b for d in p['defs'] for b in d['body'])
                st2['q'] = list(q) if in_body else [q]
                st2['k'], st2['g'] = 'app', 'u3'
            else:
                st2['k'], st2['g'], st2['ex'] = 'app', 'cx', []
            yield p
        # lower arity: library gate on several qubits -> canonical 1-qubit
        # gate with the same number of parameters on its first qubit
        def app_sites(p: dict[str, Any]) -> list[dict[str, Any]]:
            out = [st for d in p['defs'] for st in d['body']] + list(p['main'])
            return [st for st in out if st['k'] == 'app' and st['g'] in QELIB1 and st['g'] not in defnames]
        for si, st in enumerate(app_sites(prog)):
            npar, nqb = QELIB1[st['g']]
            c = CANON.get((npar, 1))
            if nqb > 1 and c:
                p = copy.deepcopy(prog)
                st2 = app_sites(p)[si]
                st2['g'] = c
                st2['q'] = st2['q'][:1]
                yield p
    # body barrier on several formal qubits -> fewer
    for di, d in enumerate(prog['defs']):
        for bi, st in enumerate(d['body']):
            if st['k'] == 'barrier' and len(st['q']) > 1:
                for ai in range(len(st['q'])):
                    p = copy.deepcopy(prog)
                    del p['defs'][di]['body'][bi]['q'][ai]
                    yield p
    # body call of a user gate -> canonical library gate of that signature
    if prog['include']:
        for di, d in enumerate(prog['defs']):
            for bi, st in enumerate(d['body']):
                if st['k'] == 'app' and st['g'] in defnames:
                    c = CANON.get((len(st['ex']), len(st['q'])))
                    if c:
                        p = copy.deepcopy(prog)
                        p['defs'][di]['body'][bi]['g'] = c
                        yield p
    # inline a call of a user gate (main program or gate body)
    for mi, st in enumerate(prog['main']):
        if st['k'] == 'app' and st['g'] in defnames:
            p = inline_call(prog, None, mi)
            if p is not None:
                yield p
    for di, d in enumerate(prog['defs']):
        for bi, st in enumerate(d['body']):
            if st['k'] == 'app' and st['g'] in defnames:
                p = inline_call(prog, di, bi)
                if p is not None:
                    yield p
    for di, d in enumerate(prog['defs']):
        if d.get('parens'):
            p = copy.deepcopy(prog)
            p['defs'][di]['parens'] = False
            yield p
    # merge all quantum registers into one (only indexed arguments)
    if len(prog['qregs']) > 1:
        whole = False
        for st in prog['main']:
            qs = st.get('q')
            if qs is None:
                continue
            if st['k'] in ('measure', 'reset', 'U'):
                qs = [qs]
            whole = whole or any(a[1] is None for a in qs)
        if not whole:
            offs = {}
            o = 0
            for nme, sz in prog['qregs']:
                offs[nme] = o
                o += sz
            p = copy.deepcopy(prog)
            p['qregs'] = [['q', o]]
            for st in p['main']:
                qs = st.get('q')
                if qs is None:
                    continue
                if st['k'] in ('measure', 'reset', 'U'):
                    st['q'] = ['q', offs[qs[0]] + qs[1]]
                else:
                    st['q'] = [['q', offs[a[0]] + a[1]] for a in qs]
            yield p
    # a library gate with several parameters -> rz(<one of its expressions>)
    if prog['include']:
        def multi_sites(p: dict[str, Any]) -> list[dict[str, Any]]:
            out = [st for d in p['defs'] for st in d['body']] + list(p['main'])
            return [st for st in out if st['k'] == 'app' and st['g'] in QELIB1 and st['g'] not in defnames and len(st['ex']) > 1]
        for si, st in enumerate(multi_sites(prog)):
            for ei in range(len(st['ex'])):
                p = copy.deepcopy(prog)
                st2 = multi_sites(p)[si]
                st2['g'] = 'rz'
                st2['ex'] = [st2['ex'][ei]]
                st2['q'] = st2['q'][:1]
                yield p
    # drop a formal qubit that no body statement uses
    for di, d in enumerate(prog['defs']):
        if len(d['qubits']) < 2:
            continue
        for qi, qn in enumerate(d['qubits']):
            if any(qn in st['q'] for st in d['body']):
                continue
            p = copy.deepcopy(prog)
            del p['defs'][di]['qubits'][qi]
            for d2 in p['defs']:
                for st in d2['body']:
                    if st['k'] == 'app' and st['g'] == d['name']:
                        del st['q'][qi]
            for st in p['main']:
                if st['k'] == 'app' and st['g'] == d['name']:
                    del st['q'][qi]
            yield p
    # 10. inline-free simplification of a call: replace a user gate call by a
    #     canonical library gate of the same signature
    if prog['include']:
        for mi, st in enumerate(prog['main']):
            if st['k'] == 'app' and st['g'] in defnames:
                d = next(x for x in prog['defs'] if x['name'] == st['g'])
                c = CANON.get((len(d['params']), len(d['qubits'])))
                if c:
                    p = copy.deepcopy(prog)
                    p['main'][mi]['g'] = c
                    yield p


def _subst(e: list, env: dict[str, list]) -> list:
    t = e[0]
    if t == 'id':
        a = env[e[1]]
        return a if a[0] in ('num', 'pi', 'id', 'par', 'fn') else ['par', a]
    if t in ('neg', 'par'):
        return [t, _subst(e[1], env)]
    if t == 'fn':
        return ['fn', e[1], _subst(e[2], env)]
    if t == 'bin':
        return ['bin', e[1], _subst(e[2], env), _subst(e[3], env)]
    return e


def inline_call(prog: dict[str, Any], di: int | None, si: int) -> dict[str, Any] | None:
    """Replace one call of a user gate by the callee's body."""
    p = copy.deepcopy(prog)
    site = p['main'] if di is None else p['defs'][di]['body']
    call = site[si]
    callee = next((d for d in p['defs'] if d['name'] == call['g']), None)
    if callee is None or len(callee['params']) != len(call['ex']) or len(callee['qubits']) != len(call['q']):
        return None
    penv = dict(zip(callee['params'], call['ex']))
    qenv = dict(zip(callee['qubits'], call['q']))
    new = []
    for st in callee['body']:
        st2 = copy.deepcopy(st)
        if 'ex' in st2:
            st2['ex'] = [_subst(e, penv) for e in st2['ex']]
        if st2['k'] == 'barrier' and di is None:
            st2['q'] = [qenv[q] for q in st2['q']]
        elif st2['k'] == 'U':
            st2['q'] = qenv[st2['q'][0]] if di is None else [qenv[st2['q'][0]]]
        else:
            st2['q'] = [qenv[q] for q in st2['q']]
        new.append(st2)
    site[si:si + 1] = new
    return p


_EXPR_FEATS = {'paren', 'usub', 'pow', 'add', 'sub', 'mul', 'div', 'pi'}


def _expr_family(f: set[str]) -> set[str]:
    return {x for x in f if x in _EXPR_FEATS or x.startswith('fn:') or (x.startswith('lit:') and x not in ('lit:int', 'lit:neg'))}


def shrink(
    prog: dict[str, Any], still_fails: Callable[[dict[str, Any]], bool],
    budget: int = 400,
) -> tuple[dict[str, Any], bool, int]:
    """Greedy shrink to a local minimum. Returns (program, converged, evals)."""
    evals = 0
    cur = prog
    progress = True
    while progress:
        progress = False
        cur_f = _expr_family(program_features(cur))
        for cand in program_candidates(cur):
            if evals >= budget:
                return cur, False, evals
            if not validate_program(cand):
                continue
            # shrinking is monotone: a step may not introduce a construct
            # (it could bring in a different defect)
            if not _expr_family(program_features(cand)) <= cur_f:
                continue
            evals += 1
            if still_fails(cand):
                cur = cand
                progress = True
                break
    return cur, True, evals


def rename_gate(prog: dict[str, Any], old: str, new: str) -> dict[str, Any]:
    p = copy.deepcopy(prog)
    for d in p['defs']:
        if d['name'] == old:
            d['name'] = new
        for st in d['body']:
            if st['k'] == 'app' and st['g'] == old:
                st['g'] = new
    for st in p['main']:
        if st['k'] == 'app' and st['g'] == old:
            st['g'] = new
    return p
