"""procnet: real runtime processes, real SIGKILL, stable-hang detector.

Fidelity tier for the simnet-based properties: the same task-tree workloads
run on real `bqskit.runtime` processes (attached server + forked workers via
`compiledrv.PortCompiler`, or `python -m bqskit.runtime.manager/detached`
started here on private ports). Faults are real SIGKILLs: either
self-inflicted inside a task body at a chosen (tag, phase) -- the environment
variable VERIF_CRASH_AT is inherited by every runtime process -- or sent from
the harness to a chosen worker / manager process at a chosen moment.
"""
from __future__ import annotations

import os
import signal
import subprocess
import sys
import threading
import time
from typing import Any

ROOT = os.path.dirname(os.path.dirname(os.path.abspath(__file__)))


def _children(pid: int) -> list[int]:
    out = []
    try:
        for t in os.listdir('/proc/%d/task' % pid):
            try:
                with open('/proc/%d/task/%s/children' % (pid, t)) as f:
                    out += [int(x) for x in f.read().split()]
            except OSError:
                pass
    except OSError:
        pass
    return out


def descendants(pid: int) -> list[int]:
    res = []
    st = [pid]
    while st:
        p = st.pop()
        for c in _children(p):
            res.append(c)
            st.append(c)
    return res


def alive(pid: int) -> bool:
    try:
        with open('/proc/%d/stat' % pid) as f:
            st = f.read().rsplit(')', 1)[1].split()[0]
        return st not in ('Z', 'X')
    except OSError:
        return False


def proc_sample(pid: int) -> tuple[str, int] | None:
    try:
        with open('/proc/%d/stat' % pid) as f:
            parts = f.read().rsplit(')', 1)[1].split()
        return parts[0], int(parts[11]) + int(parts[12])
    except (OSError, IndexError, ValueError):
        return None


def all_sleeping(pids: list[int], samples: int = 3, gap: float = 0.5) -> bool:
    """Stable-hang test: every process is in state S with CPU time not
    advancing over `samples` samples."""
    last: dict[int, int] = {}
    for i in range(samples):
        for p in pids:
            s = proc_sample(p)
            if s is None:
                continue
            if s[0] not in ('S', 'Z'):
                return False
            if i > 0 and p in last and s[1] != last[p]:
                return False
            last[p] = s[1]
        time.sleep(gap)
    return True


class Call:
    """Runs fn in a thread so the harness can watch for a hang."""

    def __init__(self, fn: Any, *a: Any, **k: Any) -> None:
        self.outcome = 'open'
        self.value: Any = None
        self.exc: BaseException | None = None

        def run() -> None:
            try:
                self.value = fn(*a, **k)
                self.outcome = 'value'
            except BaseException as e:  # noqa
                self.exc = e
                self.outcome = 'raise'
        self.t = threading.Thread(target=run, daemon=True)
        self.t.start()

    def wait(self, timeout: float) -> bool:
        self.t.join(timeout)
        return not self.t.is_alive()


def exc_text(e: BaseException | None) -> str:
    parts = []
    x: Any = e
    while x is not None and len(parts) < 5:
        parts.append('%s: %s' % (type(x).__name__, str(x)))
        x = x.__cause__ or x.__context__
    return ' <- '.join(parts)[-1200:]


class Detached:
    """A detached runtime (managers + server) on private ports."""

    def __init__(self, managers: list[int], env: dict[str, str] | None = None) -> None:
        from vlib import compiledrv
        self.procs: list[subprocess.Popen] = []
        self.manager_procs: list[subprocess.Popen] = []
        e = dict(os.environ)
        e['PYTHONPATH'] = ROOT + os.pathsep + e.get('PYTHONPATH', '')
        if env:
            e.update(env)
        ipports = []
        for nw in managers:
            mport, wport = compiledrv.alloc_ports(2)
            p = subprocess.Popen(
                [sys.executable, '-m', 'bqskit.runtime.manager', '-n', str(nw), '-p', str(mport), '-w', str(wport)],
                env=e, stdout=subprocess.DEVNULL, stderr=subprocess.DEVNULL,
            )
            self.procs.append(p)
            self.manager_procs.append(p)
            ipports.append('localhost:%d' % mport)
        (self.port,) = compiledrv.alloc_ports(1)
        time.sleep(0.3)
        self.server = subprocess.Popen(
            [sys.executable, '-m', 'bqskit.runtime.detached', *ipports, '-p', str(self.port)],
            env=e, stdout=subprocess.DEVNULL, stderr=subprocess.DEVNULL,
        )
        self.procs.append(self.server)

    def all_pids(self) -> list[int]:
        out = []
        for p in self.procs:
            out.append(p.pid)
            out += descendants(p.pid)
        return [x for x in out if alive(x)]

    def worker_pids(self) -> list[int]:
        out = []
        for p in self.manager_procs:
            out += descendants(p.pid)
        return [x for x in out if alive(x)]

    def connect(self, timeout: float = 60.0) -> Any:
        """Must be called from the main thread (Compiler installs a signal
        handler). Compiler itself retries for about a minute."""
        from bqskit.compiler.compiler import Compiler
        last: Exception | None = None
        t0 = time.monotonic()
        while time.monotonic() - t0 < timeout:
            try:
                return Compiler('localhost', self.port)
            except RuntimeError as e:
                last = e
                time.sleep(0.5)
        raise RuntimeError('could not connect to detached server: %s' % exc_text(last))

    def wait_exit(self, timeout: float) -> list[int]:
        """Wait for every runtime process to exit; returns survivors."""
        t0 = time.monotonic()
        while time.monotonic() - t0 < timeout:
            for p in self.procs:
                p.poll()
            left = self.all_pids()
            if not left:
                return []
            time.sleep(0.2)
        return self.all_pids()

    def kill_all(self) -> None:
        for pid in self.all_pids():
            try:
                os.kill(pid, signal.SIGKILL)
            except OSError:
                pass
        for p in self.procs:
            try:
                p.wait(timeout=5)
            except Exception:
                pass
