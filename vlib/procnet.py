"""procnet: real runtime processes, real SIGKILL, stable-hang detector.

Fidelity tier for the simnet-based properties: the same task-tree workloads
run on real `bqskit.runtime` processes (attached server + forked workers via
`compiledrv.PortCompiler`, or `python -m bqskit.runtime.manager/detached`
started here on private ports). Faults are real SIGKILLs: either
self-inflicted inside a task body at a chosen (tag, phase) -- the environment
variable VERIF_CRASH_AT is inherited by every runtime process -- or sent from
the harness to a chosen worker / manager process at a chosen moment.
"""
from __future__ import annotations

import os
import signal
import subprocess
import sys
import threading
import time
from typing import Any

ROOT = os.path.dirname(os.path.dirname(os.path.abspath(__file__)))


def _children(pid: int) -> list[int]:
    out = []
    try:
        for t in os.listdir('/proc/%d/task' % pid):
            try:
                with open('/proc/%d/task/%s/children' % (pid, t)) as f:
                    out += [int(x) for x in f.read().split()]
            except OSError:
                pass
    except OSError:
        pass
    return out


def descendants(pid: int) -> list[int]:
    res = []
    st = [pid]
    while st:
        p = st.pop()
        for c in _children(p):
            res.append(c)
            st.append(c)
    return res


def alive(pid: int) -> bool:
    try:
        with open('/proc/%d/stat' % pid) as f:
            st = f.read().rsplit(')', 1)[1].split()[0]
        return st not in ('Z', 'X')
    except OSError:
        return False


def proc_sample(pid: int) -> tuple[str, int] | None:
    try:
        with open('/proc/%d/stat' % pid) as f:
            parts = f.read().rsplit(')', 1)[1].split()
        return parts[0], int(parts[11]) + int(parts[12])
    except (OSError, IndexError, ValueError):
        return None


def all_sleeping(pids: list[int], samples: int = 3, gap: float = 0.5) -> bool:
    """Stable-hang test: every process is in state S with CPU time not
    advancing over `samples` samples."""
    last: dict[int, int] = {}
    for i in range(samples):
        for p in pids:
            s = proc_sample(p)
            if s is None:
                continue
            if s[0] not in ('S', 'Z'):
                return False
            if i > 0 and p in last and s[1] != last[p]:
                return False
            last[p] = s[1]
        time.sleep(gap)
    return True


class Call:
    """Runs fn in a thread so the harness can watch for a hang."""

    def __init__(self, fn: Any, *a: Any, **k: Any) -> None:
        self.outcome = 'open'
        self.value: Any = None
        self.exc: BaseException | None = None

        def run() -> None:
            try:
                self.value = fn(*a, **k)
                self.outcome = 'value'
            except BaseException as e:  # noqa
                self.exc = e
                self.outcome = 'raise'
        self.t = threading.Thread(target=run, daemon=True)
        self.t.start()

    def wait(self, timeout: float) -> bool:
        self.t.join(timeout)
        return not self.t.is_alive()


def exc_text(e: BaseException | None) -> str:
    parts = []
    x: Any = e
    while x is not None and len(parts) < 5:
        parts.append('%s: %s' % (type(x).__name__, str(x)))
        x = x.__cause__ or x.__context__
    return ' <- '.join(parts)[-1200:]


class Detached:
    """A detached runtime (managers + server) on private ports."""

    def __init__(self, managers: list[int], env: dict[str, str] | None = None) -> None:
        from vlib import compiledrv
        self.procs: list[subprocess.Popen] = []
        self.manager_procs: list[subprocess.Popen] = []
        e = dict(os.environ)
        e['PYTHONPATH'] = ROOT + os.pathsep + e.get('PYTHONPATH', '')
        if env:
            e.update(env)
        ipports = []
        for nw in managers:
            mport, wport = compiledrv.alloc_ports(2)
            p = subprocess.Popen(
                [sys.executable, '-m', 'bqskit.runtime.manager', '-n', str(nw), '-p', str(mport), '-w', str(wport)],
                env=e, stdout=subprocess.DEVNULL, stderr=subprocess.DEVNULL,
            )
            self.procs.append(p)
            self.manager_procs.append(p)
            ipports.append('localhost:%d' % mport)
        (self.port,) = compiledrv.alloc_ports(1)
        time.sleep(0.3)
        self.server = subprocess.Popen(
            [sys.executable, '-m', 'bqskit.runtime.detached', *ipports, '-p', str(self.port)],
            env=e, stdout=subprocess.DEVNULL, stderr=subprocess.DEVNULL,
        )
        self.procs.append(self.server)

    def all_pids(self) -> list[int]:
        out = []
        for p in self.procs:
            out.append(p.pid)
            out += descendants(p.pid)
        return [x for x in out if alive(x)]

    def worker_pids(self) -> list[int]:
        out = []
        for p in self.manager_procs:
            out += descendants(p.pid)
        return [x for x in out if alive(x)]

    def connect(self, timeout: float = 60.0) -> Any:
        """Must be called from the main thread (Compiler installs a signal
        handler). Compiler itself retries for about a minute."""
        from bqskit.compiler.compiler import Compiler
        last: Exception | None = None
        t0 = time.monotonic()
        while time.monotonic() - t0 < timeout:
            try:
                return Compiler('localhost', self.port)
            except RuntimeError as e:
                last = e
                time.sleep(0.5)
        raise RuntimeError('could not connect to detached server: %s' % exc_text(last))

    def wait_exit(self, timeout: float) -> list[int]:
        """Wait for every runtime process to exit; returns survivors."""
        t0 = time.monotonic()
        while time.monotonic() - t0 < timeout:
            for p in self.procs:
                p.poll()
            left = self.all_pids()
            if not left:
                return []
            time.sleep(0.2)
        return self.all_pids()

    def kill_all(self) -> None:
        for pid in self.all_pids():
            try:
                os.kill(pid, signal.SIGKILL)
            except OSError:
                pass
        for p in self.procs:
            try:
                p.wait(timeout=5)
            except Exception:
                pass


# ------------------------------------------------------- stress (no faults)
def stress_case(case: dict, expected: list[Any], grace: float = 30.0) -> dict:
    """Runs one real-process stress case (vlib/procnet_stress_child.py) and
    watches it from outside. `expected[i]` is the value the documented
    semantics give tree i. Returns a record with `witness` (violations),
    `inconclusive` (reason, if the case could not be decided) and counters.
    A hang is only called when the client call has not returned within
    `grace` seconds AND every runtime process and the client are asleep with
    unchanged CPU time over three samples."""
    import json
    import select
    import tempfile
    ROOT_ = ROOT
    rec: dict[str, Any] = {'witness': [], 'events': [], 'returned': 0, 'correct': 0}
    t0 = time.monotonic()
    inject = os.path.join(ROOT_, 'vlib', 'inject')
    env = dict(case.get('env') or {})
    pp = inject + os.pathsep + ROOT_
    if os.environ.get('PYTHONPATH'):
        pp += os.pathsep + os.environ['PYTHONPATH']
    env['PYTHONPATH'] = pp
    case = dict(case, env=env)
    fd, path = tempfile.mkstemp(prefix='verif-stress-', suffix='.json')
    with os.fdopen(fd, 'w') as f:
        json.dump(case, f)
    child = subprocess.Popen(
        [sys.executable, os.path.join(ROOT_, 'vlib', 'procnet_stress_child.py'), path],
        stdout=subprocess.PIPE, stderr=subprocess.DEVNULL, cwd=ROOT_, start_new_session=True,
    )
    roots: list[int] = []

    def runtime_pids() -> list[int]:
        out = []
        for r in roots:
            out.append(r)
            out += descendants(r)
        return [p for p in out if alive(p)]

    buf = b''
    state = 'starting'
    t_state = time.monotonic()
    norm = lambda v: json.loads(json.dumps(v))  # noqa: E731
    try:
        while True:
            r, _, _ = select.select([child.stdout], [], [], 1.0)
            if r:
                chunk = os.read(child.stdout.fileno(), 1 << 20)
                if not chunk:
                    break
                buf += chunk
                while b'\n' in buf:
                    line, buf = buf.split(b'\n', 1)
                    try:
                        ev = json.loads(line)
                    except ValueError:
                        continue
                    if len(rec['events']) < 40:
                        rec['events'].append({k: v for k, v in ev.items() if k != 'value'})
                    t_state = time.monotonic()
                    if ev['ev'] in ('up', 'spawned'):
                        roots = list(ev['roots'])
                        if ev['ev'] == 'up':
                            state = 'up'
                    elif ev['ev'] == 'calling':
                        state = 'calling:' + ev['label']
                    elif ev['ev'] == 'cancelled':
                        rec['cancelled'] = rec.get('cancelled', 0) + 1
                    elif ev['ev'] == 'tables':
                        rec.setdefault('tables', []).append({k: v for k, v in ev.items() if k != 'ev'})
                    elif ev['ev'] == 'probe':
                        rec['switch_interval_seen'] = ev.get('switch_interval')
                    elif ev['ev'] == 'ret':
                        rec['returned'] += 1
                        k = int(ev['idx'])
                        if ev['outcome'] == 'value':
                            if norm(ev.get('value')) == norm(expected[k]):
                                rec['correct'] += 1
                            else:
                                rec['witness'].append({'kind': 'value:wrong_result:real_processes', 'tree': k, 'got': ev.get('value'), 'want': expected[k]})
                        else:
                            rec['witness'].append({'kind': 'error:spurious:real_processes', 'tree': k, 'msg': ev.get('msg', '')[-500:], 'site': _site(ev.get('msg', ''))})
                    elif ev['ev'] == 'closed':
                        state = 'closed'
                        if ev.get('error'):
                            rec['witness'].append({'kind': 'error:close_raised:real_processes', 'msg': ev['error']})
                continue
            waited = time.monotonic() - t_state
            if state == 'starting' and waited > 150:
                rec['inconclusive'] = 'runtime did not come up in 150s'
                break
            if state.startswith('calling') and waited > grace:
                live = runtime_pids() + [child.pid]
                if all_sleeping(live):
                    rec['witness'].append({
                        'kind': 'hang:client_blocked:real_processes', 'state': state.split('@')[0],
                        'surviving_runtime_processes': len(live) - 1, 'waited_s': round(waited, 1), 'returned_before': rec['returned'],
                    })
                    break
                if waited > 6 * grace:
                    rec['inconclusive'] = 'client call still running with busy processes after %.0fs' % waited
                    break
        if state in ('starting',) and 'inconclusive' not in rec:
            rec['inconclusive'] = 'runtime did not come up (child exited during start-up)'
        elif state != 'closed' and not rec['witness'] and 'inconclusive' not in rec:
            rec['inconclusive'] = 'client process ended in state %s' % state
        if rec.get('tables'):
            last = rec['tables'][-1]
            if last.get('error'):
                rec['witness'].append({'kind': 'error:spurious:real_processes', 'tree': 'table-probe', 'msg': last['error'], 'site': _site(last['error'])})
            elif last.get('tables'):
                t = last['tables']
                per: dict[int, dict[str, int]] = {}
                for wid, nstale, sample, nbox, ndelayed in t['leaves']:
                    own = 1 if wid == t['root_worker'] else 0
                    d = per.setdefault(int(wid), {'tasks': 0, 'mailboxes': 0, 'delayed': 0})
                    # minimum over the leaves that ran on this worker (a
                    # leaf may see a sibling leaf's transient state)
                    d['tasks'] = nstale if 'n' not in d else min(d['tasks'], nstale)
                    d['mailboxes'] = max(0, nbox - own) if 'n' not in d else min(d['mailboxes'], max(0, nbox - own))
                    d['delayed'] = ndelayed if 'n' not in d else min(d['delayed'], ndelayed)
                    d['n'] = d.get('n', 0) + 1
                rec['workers_probed'] = len(per)
                rec['probe_attempts'] = len(rec['tables'])
                for wid, d in sorted(per.items()):
                    for what in ('tasks', 'mailboxes', 'delayed'):
                        if d[what] > 0:
                            rec['witness'].append({
                                'kind': 'leak:worker_%s:real_processes' % what, 'worker': wid, 'count': d[what],
                                'attempts': len(rec['tables']), 'cancelled_compilations': rec.get('cancelled', 0),
                            })
        if state == 'closed' and case.get('topology') == 'attached':
            # an attached runtime ends with its client (a detached one is
            # meant to stay up)
            t1 = time.monotonic()
            left = runtime_pids()
            while left and time.monotonic() - t1 < 25:
                time.sleep(0.25)
                left = runtime_pids()
            if left:
                rec['witness'].append({'kind': 'survivor:runtime_process_after_close:real_processes', 'count': len(left)})
        rec['state'] = state
    finally:
        for p in runtime_pids():
            try:
                os.kill(p, signal.SIGKILL)
            except OSError:
                pass
        try:
            os.killpg(child.pid, signal.SIGKILL)
        except OSError:
            pass
        try:
            child.wait(timeout=10)
        except Exception:
            pass
        try:
            os.unlink(path)
        except OSError:
            pass
        rec['wall'] = round(time.monotonic() - t0, 2)
    return rec


def _site(text: str) -> str:
    """Last bqskit source site named in a formatted traceback text."""
    import re
    m = re.findall(r'File "[^"]*?/(bqskit/[^"]+)", line \d+, in (\w+)', text or '')
    return '%s:%s' % m[-1] if m else ''
