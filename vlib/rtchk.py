"""Round-trip / copy / become monitor helpers for property C16.

Contents
  * gate catalogue: every name of `bqskit.ir.gates.__all__` with a simple
    construction, plus composed / qudit / random-matrix constructions;
    gates are addressed by JSON-able *recipes* `[key, gseed, radixes|None]`;
  * random *editing histories* over a Circuit (insert / pop / replace / fold /
    unfold / qudit insertion and removal / straighten / compress / batch
    operations ...), recorded as JSON-able steps that `apply_steps` replays;
  * public-API views of Circuit / Operation / gate / CouplingGraph /
    MachineModel / PassData / Workflow / RuntimeTask / UnitaryMatrix /
    StateVector / StateSystem objects and field-by-field comparison;
  * an input sanity check (`circuit_problems`): circuits whose views already
    disagree before pickling (that is property C05's subject) are not used as
    C16 inputs;
  * module-level callables / passes used inside workflows (they must be
    importable by name in the runtime's worker processes).
"""
from __future__ import annotations

import inspect
import pickle
from multiprocessing.reduction import ForkingPickler
from typing import Any
from typing import Callable
from typing import Sequence

import numpy as np

import bqskit.ir.gates as G
from bqskit.compiler.basepass import BasePass
from bqskit.compiler.machine import MachineModel
from bqskit.compiler.passdata import PassData
from bqskit.compiler.workflow import Workflow
from bqskit.ir.circuit import Circuit
from bqskit.ir.gate import Gate
from bqskit.ir.gates import CircuitGate
from bqskit.ir.operation import Operation
from bqskit.ir.region import CircuitRegion
from bqskit.qis.graph import CouplingGraph
from bqskit.qis.state.state import StateVector
from bqskit.qis.state.system import StateSystem
from bqskit.qis.unitary.unitarymatrix import UnitaryMatrix
from bqskit.utils.cachedclass import CachedClass

from vlib import refsim

ATOL = 1e-12


# ===================================================================== io
def fp_roundtrip(x: Any) -> Any:
    """Exactly what `Connection.send` / `recv` do with an object."""
    return pickle.loads(bytes(ForkingPickler.dumps(x)))


def dill_roundtrip(x: Any) -> Any:
    import dill
    return dill.loads(dill.dumps(x))


# ========================================================== gate catalogue
class UserPhaseGate(Gate):
    """A well-behaved user-defined gate living outside the bqskit package:
    Circuit.__reduce__ ships such gates with dill instead of pickle."""
    _num_qudits = 1
    _num_params = 1
    _radixes = (2,)
    _qasm_name = 'userphase'

    def __init__(self, scale: float = 1.0, label: str = 'u') -> None:
        self.scale = scale
        self.label = label
        self._name = 'UserPhaseGate(%r,%r)' % (scale, label)

    def get_unitary(self, params: Sequence[float] = []) -> UnitaryMatrix:
        self.check_parameters(params)
        return UnitaryMatrix([[1, 0], [0, np.exp(1j * self.scale * params[0])]])

    def __eq__(self, other: object) -> bool:
        return isinstance(other, UserPhaseGate) and (self.scale, self.label) == (other.scale, other.label)

    def __hash__(self) -> int:
        return hash(('UserPhaseGate', self.scale, self.label))


def haar(rng: np.random.Generator, dim: int) -> np.ndarray:
    z = (rng.normal(size=(dim, dim)) + 1j * rng.normal(size=(dim, dim)))
    q, r = np.linalg.qr(z / np.sqrt(2))
    ph = np.diag(r) / np.abs(np.diag(r))
    return q * ph


def _small_circuit(rng: np.random.Generator, radixes: Sequence[int], depth: int = 0, nest: int = 1) -> Circuit:
    depth = depth or int(rng.integers(1, 5))
    c, _ = random_history(rng, list(radixes), depth, nest=nest, fixed_width=True, nonunitary=False)
    if c.num_operations == 0:
        g = G.IdentityGate(1, [radixes[0]])
        c.append_gate(g, 0)
    return c


_ABSTRACT = ('ComposedGate', 'QuditGate', 'GeneralGate')

# key -> builder(rng) for gates whose radixes are fixed by the construction
FIXED: dict[str, Callable[[np.random.Generator], Gate]] = {}
# key -> builder(rng, radixes) for gates that exist on any radixes
FLEX: dict[str, Callable[[np.random.Generator, Sequence[int], int], Gate]] = {}


def _u(rng: np.random.Generator, radixes: Sequence[int]) -> UnitaryMatrix:
    return UnitaryMatrix(haar(rng, refsim.dim_of(radixes)), list(radixes), check_arguments=False)


def _init_catalogue() -> None:
    if FIXED:
        return
    for n in G.__all__:
        cls = getattr(G, n)
        if n in _ABSTRACT or not inspect.isclass(cls):
            if isinstance(cls, Gate):  # U1qPiGate etc. are instances
                FIXED[n] = (lambda cls=cls: (lambda rng: cls))()
            continue
        try:
            cls()
        except TypeError:
            continue
        FIXED[n] = (lambda cls=cls: (lambda rng: cls()))()
    F = FIXED
    # --- constructions with arguments (qubit)
    F['ControlledGate(U3)'] = lambda r: G.ControlledGate(G.U3Gate())
    F['ControlledGate(X,2)'] = lambda r: G.ControlledGate(G.XGate(), 2)
    F['ControlledGate(RZZ)'] = lambda r: G.ControlledGate(G.RZZGate())
    F['ControlledGate(Shift3;c3;lv12)'] = lambda r: G.ControlledGate(G.ShiftGate(3), 1, 3, [[1, 2]])
    F['ControlledGate(H;c3;lv2)'] = lambda r: G.ControlledGate(G.HGate(), 1, 3, 2)
    F['PowerGate(RZ,3)'] = lambda r: G.PowerGate(G.RZGate(), 3)
    F['PowerGate(CX,-2)'] = lambda r: G.PowerGate(G.CNOTGate(), -2)
    F['PowerGate(T,0)'] = lambda r: G.PowerGate(G.TGate(), 0)
    F['DaggerGate(U3)'] = lambda r: G.DaggerGate(G.U3Gate())
    F['DaggerGate(SqrtISwap)'] = lambda r: G.DaggerGate(G.SqrtISwapGate())
    F['DaggerGate(CU)'] = lambda r: G.DaggerGate(G.ConstantUnitaryGate(_u(r, [2])))
    F['EmbeddedGate(U3;3;02)'] = lambda r: G.EmbeddedGate(G.U3Gate(), 3, [0, 2])
    F['EmbeddedGate(CX;34)'] = lambda r: G.EmbeddedGate(G.CNOTGate(), [3, 4], [[0, 1], [1, 3]])
    F['FrozenParameterGate(U3;1)'] = lambda r: G.FrozenParameterGate(G.U3Gate(), {1: 0.3})
    F['FrozenParameterGate(U3;02)'] = lambda r: G.U3Gate().with_frozen_params({0: 0.1, 2: -0.7})
    F['FrozenParameterGate(RZZ;all)'] = lambda r: G.RZZGate().with_all_frozen_params([1.25])
    F['TaggedGate(RX;str)'] = lambda r: G.TaggedGate(G.RXGate(), 'tag')
    F['TaggedGate(CX;tuple)'] = lambda r: G.TaggedGate(G.CNOTGate(), ('t', 3))
    F['TaggedGate(U3;dict)'] = lambda r: G.TaggedGate(G.U3Gate(), {'k': (1, 2)})
    F['VariableLocationGate(CX)'] = lambda r: G.VariableLocationGate(G.CNOTGate(), [(0, 1), (1, 2)], [2, 2, 2])
    F['VariableLocationGate(RZ)'] = lambda r: G.VariableLocationGate(G.RZGate(), [(0,), (1,)], [2, 2])
    F['PermutationGate(3)'] = lambda r: G.PermutationGate(3, (2, 0, 1))
    F['PermutationGate(2)'] = lambda r: G.PermutationGate(2, (1, 0))
    F['MPRYGate(3,1)'] = lambda r: G.MPRYGate(3, 1)
    F['MPRZGate(2)'] = lambda r: G.MPRZGate(2)
    F['PauliGate(1)'] = lambda r: G.PauliGate(1)
    F['PauliGate(2)'] = lambda r: G.PauliGate(2)
    F['PauliZGate(2)'] = lambda r: G.PauliZGate(2)
    F['DiagonalGate(1)'] = lambda r: G.DiagonalGate(1)
    F['DiagonalGate(3)'] = lambda r: G.DiagonalGate(3)
    F['IdentityGate(2)'] = lambda r: G.IdentityGate(2)
    F['ControlledGate(Dagger(Power(U3,2)))'] = lambda r: G.ControlledGate(G.DaggerGate(G.PowerGate(G.U3Gate(), 2)))
    F['MeasurementPlaceholder(2)'] = lambda r: G.MeasurementPlaceholder([('c', 2)], {0: ('c', 0), 1: ('c', 1)})
    F['MeasurementPlaceholder(1)'] = lambda r: G.MeasurementPlaceholder([('c', 2), ('d', 1)], {0: ('d', 0)})
    # --- qutrit / ququart
    F['ClockGate(3)'] = lambda r: G.ClockGate(3)
    F['ClockGate(4)'] = lambda r: G.ClockGate(4)
    F['ShiftGate(3)'] = lambda r: G.ShiftGate(3)
    F['CSUMGate(3)'] = lambda r: G.CSUMGate(3)
    F['CSUMGate(4)'] = lambda r: G.CSUMGate(4)
    F['PDGate(1,3)'] = lambda r: G.PDGate(1, 3)
    F['PDGate(0,4)'] = lambda r: G.PDGate(0, 4)
    F['SubSwapGate(3)'] = lambda r: G.SubSwapGate(3, '0,1;1,0')
    F['SubSwapGate(3b)'] = lambda r: G.SubSwapGate(3, '0,2;2,1')
    F['RSU3Gate(2)'] = lambda r: G.RSU3Gate(2)
    F['RSU3Gate(7)'] = lambda r: G.RSU3Gate(7)
    F['Reset(3)'] = lambda r: G.Reset(3)
    F['CPIGate'] = lambda r: G.CPIGate()
    F['ArbitraryCPhaseGate(33)'] = lambda r: G.ArbitraryCPhaseGate([3, 3])
    F['DaggerGate(Clock3)'] = lambda r: G.DaggerGate(G.ClockGate(3))
    F['PowerGate(Shift3,2)'] = lambda r: G.PowerGate(G.ShiftGate(3), 2)
    F['ControlledGate(Clock3;c2)'] = lambda r: G.ControlledGate(G.ClockGate(3), 1, 2, 1)
    F['TaggedGate(CSUM3)'] = lambda r: G.TaggedGate(G.CSUMGate(3), 7)
    F['EmbeddedGate(RZ;4;13)'] = lambda r: G.EmbeddedGate(G.RZGate(), 4, [1, 3])
    # --- a gate class from outside the bqskit package (dill branch)
    F['UserPhaseGate'] = lambda r: UserPhaseGate(0.5, 'a')
    F['UserPhaseGate(2)'] = lambda r: UserPhaseGate(2.0, 'b')
    F['ControlledGate(UserPhase)'] = lambda r: G.ControlledGate(UserPhaseGate(1.5, 'c'))
    # --- keyword-argument constructions (a different cache key)
    F['ClockGate(radix=3)'] = lambda r: G.ClockGate(radix=3)
    F['PDGate(index=1,radix=3)'] = lambda r: G.PDGate(index=1, radix=3)
    F['IdentityGate(num_qudits=2)'] = lambda r: G.IdentityGate(num_qudits=2)
    F['CSUMGate(radix=4)'] = lambda r: G.CSUMGate(radix=4)
    F['PermutationGate(kw)'] = lambda r: G.PermutationGate(num_qudits=2, location=(1, 0))
    # --- flexible radixes
    X = FLEX
    # builders take (rng, radixes, nest): `nest` bounds how deep CircuitGates
    # may be nested inside the inner circuit (it strictly decreases)
    X['ConstantUnitaryGate'] = lambda r, rx, n: G.ConstantUnitaryGate(_u(r, rx), list(rx))
    X['VariableUnitaryGate'] = lambda r, rx, n: G.VariableUnitaryGate(len(rx), list(rx))
    X['BarrierPlaceholder'] = lambda r, rx, n: G.BarrierPlaceholder(len(rx), list(rx))
    X['IdentityGate'] = lambda r, rx, n: G.IdentityGate(len(rx), list(rx))
    X['CircuitGate'] = lambda r, rx, n: CircuitGate(_small_circuit(r, rx, nest=max(n - 1, 0)))
    X['CircuitGate(move)'] = lambda r, rx, n: CircuitGate(_small_circuit(r, rx, nest=max(n - 1, 0)), True)
    X['TaggedGate(CircuitGate)'] = lambda r, rx, n: G.TaggedGate(CircuitGate(_small_circuit(r, rx, nest=0)), 'blk')
    X['DaggerGate(CircuitGate)'] = lambda r, rx, n: G.DaggerGate(CircuitGate(_small_circuit(r, rx, nest=0)))
    X['DaggerGate(VU)'] = lambda r, rx, n: G.DaggerGate(G.VariableUnitaryGate(len(rx), list(rx)))
    X['ControlledGate(CU)'] = lambda r, rx, n: G.ControlledGate(
        G.ConstantUnitaryGate(_u(r, rx[1:]), list(rx[1:])), 1, rx[0], rx[0] - 1,
    ) if len(rx) >= 2 else G.ConstantUnitaryGate(_u(r, rx), list(rx))


_BY_RADIX: dict[tuple[int, ...], list[str]] = {}


def catalogue_keys() -> list[str]:
    _init_catalogue()
    return list(FIXED)


def flex_keys() -> list[str]:
    _init_catalogue()
    return list(FLEX)


def build_gate(recipe: Sequence[Any]) -> Gate:
    """recipe = [key, gseed, radixes or None, nest (optional)]"""
    _init_catalogue()
    key, gseed, radixes = recipe[0], int(recipe[1]), recipe[2]
    nest = int(recipe[3]) if len(recipe) > 3 else 0
    rng = np.random.default_rng(gseed)
    if radixes is not None:
        return FLEX[key](rng, [int(x) for x in radixes], nest)
    return FIXED[key](rng)


def _index_by_radix() -> None:
    if _BY_RADIX:
        return
    _init_catalogue()
    rng = np.random.default_rng(0)
    for k, f in FIXED.items():
        g = f(rng)
        _BY_RADIX.setdefault(tuple(g.radixes), []).append(k)


def pick_recipe(
    rng: np.random.Generator, radixes: Sequence[int], nest: int,
    p_flex: float = 0.3, allow_nonunitary: bool = True,
) -> list[Any]:
    """A recipe of a gate acting on exactly `radixes`."""
    _index_by_radix()
    rx = tuple(int(x) for x in radixes)
    fixed = _BY_RADIX.get(rx, [])
    if not allow_nonunitary:
        fixed = [k for k in fixed if not k.startswith(('Measurement', 'Reset'))]
    if fixed and rng.random() > p_flex:
        return [fixed[int(rng.integers(len(fixed)))], int(rng.integers(1 << 30)), None]
    keys = [
        k for k in FLEX
        if (nest > 0 or 'CircuitGate' not in k)
        and (refsim.dim_of(rx) <= 16 or k in ('BarrierPlaceholder', 'IdentityGate'))
        and (allow_nonunitary or k != 'BarrierPlaceholder')
    ]
    w = np.array([3.0 if k in ('ConstantUnitaryGate', 'VariableUnitaryGate') or k.startswith('CircuitGate') else 1.0 for k in keys])
    k = keys[int(rng.choice(len(keys), p=w / w.sum()))]
    return [k, int(rng.integers(1 << 30)), list(rx), int(nest)]


def rand_params(rng: np.random.Generator, gate: Gate) -> list[float]:
    n = gate.num_params
    if n == 0:
        return []
    r = rng.random()
    if r < 0.1:
        return [0.0] * n
    if r < 0.2:
        return [float(rng.choice([np.pi, np.pi / 2, -np.pi / 4, 1e-9, 1e3])) for _ in range(n)]
    return [float(x) for x in rng.uniform(-2 * np.pi, 2 * np.pi, n)]


# ======================================================= editing histories
STEP_KINDS = [
    ('append', 10), ('insert', 10), ('pop', 6), ('pop_last', 1), ('batch_pop', 2),
    ('replace', 4), ('replace_gate', 2), ('batch_replace', 2),
    ('replace_with_circuit', 2), ('fold', 4), ('surround_fold', 2),
    ('unfold', 3), ('unfold_all', 1), ('batch_unfold', 1),
    ('insert_qudit', 2), ('append_qudit', 1), ('extend_qudits', 1), ('pop_qudit', 2),
    ('straighten', 2), ('compress', 1), ('pop_cycle', 1),
    ('append_circuit', 2), ('insert_circuit', 2), ('remove', 1), ('remove_all', 1),
    ('set_params', 2), ('set_param', 2), ('freeze_param', 1), ('extend', 1),
]


def _occupied_points(c: Circuit) -> list[tuple[int, int]]:
    pts = []
    for cyc in range(c.num_cycles):
        for q in range(c.num_qudits):
            if c._circuit[cyc][q] is not None:
                pts.append((cyc, q))
    return pts


def _rand_loc(rng: np.random.Generator, n: int, k: int) -> list[int]:
    return [int(x) for x in rng.choice(n, size=k, replace=False)]


def _op_spec(rng: np.random.Generator, c: Circuit, nest: int, loc: list[int] | None = None, maxk: int = 3, nonunitary: bool = True) -> list[Any]:
    """[recipe, location, params] for an operation valid on `c`."""
    n = c.num_qudits
    if loc is None:
        k = min(int(rng.choice([1, 1, 2, 2, 2, 3])), n, maxk)
        loc = _rand_loc(rng, n, k)
    rx = [c.radixes[q] for q in loc]
    recipe = pick_recipe(rng, rx, nest, allow_nonunitary=nonunitary and rng.random() < 0.25)
    g = build_gate(recipe)
    return [recipe, loc, rand_params(rng, g)]


def _mk_op(spec: Sequence[Any]) -> Operation:
    return Operation(build_gate(spec[0]), [int(q) for q in spec[1]], [float(p) for p in spec[2]])


def gen_step(rng: np.random.Generator, c: Circuit, nest: int, fixed_width: bool, nonunitary: bool = True) -> list[Any] | None:
    nu = nonunitary
    kinds = [k for k, _ in STEP_KINDS]
    w = np.array([float(x) for _, x in STEP_KINDS])
    kind = kinds[int(rng.choice(len(kinds), p=w / w.sum()))]
    pts = _occupied_points(c)
    n = c.num_qudits
    if fixed_width and kind in ('insert_qudit', 'append_qudit', 'extend_qudits', 'pop_qudit'):
        kind = 'insert'
    if not pts and kind not in ('append', 'insert', 'insert_qudit', 'append_qudit', 'extend_qudits', 'append_circuit', 'extend'):
        kind = 'append'
    pt = list(pts[int(rng.integers(len(pts)))]) if pts else None
    if kind == 'append':
        return ['append'] + _op_spec(rng, c, nest, nonunitary=nu)
    if kind == 'extend':
        return ['extend', [_op_spec(rng, c, nest, nonunitary=nu) for _ in range(int(rng.integers(1, 4)))]]
    if kind == 'insert':
        cyc = int(rng.integers(0, c.num_cycles + 1))
        if rng.random() < 0.1:
            cyc = int(rng.integers(-c.num_cycles - 1, c.num_cycles + 3))
        return ['insert', cyc] + _op_spec(rng, c, nest, nonunitary=nu)
    if kind == 'pop':
        return ['pop', pt]
    if kind == 'pop_last':
        return ['pop_last']
    if kind == 'batch_pop':
        m = int(rng.integers(1, min(4, len(pts)) + 1))
        sel = [list(pts[int(i)]) for i in rng.choice(len(pts), size=m, replace=False)]
        return ['batch_pop', sel]
    if kind in ('replace', 'replace_gate'):
        old = c[pt[0], pt[1]]
        r = rng.random()
        if r < 0.5:
            loc = [int(q) for q in old.location]
            if rng.random() < 0.4:
                loc = [int(x) for x in rng.permutation(loc)]
        else:
            # a location that contains the point's qudit
            k = int(rng.integers(1, min(3, n) + 1))
            others = [q for q in range(n) if q != pt[1]]
            loc = [pt[1]] + [int(x) for x in rng.choice(others, size=k - 1, replace=False)] if k > 1 else [pt[1]]
            loc = [int(x) for x in rng.permutation(loc)]
        return [kind, pt] + _op_spec(rng, c, nest, loc, nonunitary=nu)
    if kind == 'batch_replace':
        seen = set()
        points, specs = [], []
        for i in rng.permutation(len(pts))[:3]:
            p = pts[int(i)]
            op = c[p]
            key = (p[0], op.location[0])
            if key in seen:
                continue
            seen.add(key)
            points.append(list(p))
            specs.append(_op_spec(rng, c, nest, [int(q) for q in op.location], nonunitary=nu))
        return ['batch_replace', points, specs]
    if kind == 'replace_with_circuit':
        op = c[pt[0], pt[1]]
        rx = [int(r) for r in op.radixes]
        return ['replace_with_circuit', pt, ['sub', int(rng.integers(1 << 30)), rx, max(nest - 1, 0)], bool(rng.random() < 0.5)]
    if kind in ('fold', 'straighten'):
        if rng.random() < 0.5:
            # region grown from an operation
            op = c[pt[0], pt[1]]
            qs = set(int(q) for q in op.location)
            if rng.random() < 0.5 and n > len(qs):
                qs.add(int(rng.integers(n)))
            lo = max(0, pt[0] - int(rng.integers(0, 2)))
            hi = min(c.num_cycles - 1, pt[0] + int(rng.integers(0, 3)))
            region = {str(q): [lo, hi] for q in sorted(qs)}
        else:
            k = int(rng.integers(1, min(3, n) + 1))
            qs2 = _rand_loc(rng, n, k)
            region = {}
            for q in qs2:
                lo = int(rng.integers(0, c.num_cycles))
                hi = int(rng.integers(lo, min(c.num_cycles, lo + 3)))
                region[str(q)] = [lo, hi]
        return [kind, region]
    if kind == 'surround_fold':
        op = c[pt[0], pt[1]]
        k = int(rng.integers(op.num_qudits, min(n, 3) + 1)) if op.num_qudits <= min(n, 3) else op.num_qudits
        return ['surround_fold', pt, k]
    if kind in ('unfold', 'batch_unfold'):
        blocks = [p for p in pts if isinstance(c[p].gate, CircuitGate)]
        if not blocks:
            return ['unfold_all']
        if kind == 'unfold':
            return ['unfold', list(blocks[int(rng.integers(len(blocks)))])]
        m = int(rng.integers(1, min(3, len(blocks)) + 1))
        return ['batch_unfold', [list(blocks[int(i)]) for i in rng.choice(len(blocks), size=m, replace=False)]]
    if kind == 'unfold_all':
        return ['unfold_all']
    if kind == 'insert_qudit':
        if n >= 7:
            return ['pop_qudit', int(rng.integers(n))]
        return ['insert_qudit', int(rng.integers(0, n + 1)), int(rng.choice([2, 2, 2, 3, 4]))]
    if kind == 'append_qudit':
        if n >= 7:
            return ['pop_qudit', int(rng.integers(n))]
        return ['append_qudit', int(rng.choice([2, 2, 3]))]
    if kind == 'extend_qudits':
        if n >= 6:
            return ['pop_qudit', int(rng.integers(n))]
        return ['extend_qudits', [int(rng.choice([2, 3])) for _ in range(int(rng.integers(1, 3)))]]
    if kind == 'pop_qudit':
        if n <= 1:
            return ['append_qudit', 2]
        return ['pop_qudit', int(rng.integers(n))]
    if kind == 'compress':
        return ['compress']
    if kind == 'pop_cycle':
        return ['pop_cycle', int(rng.integers(c.num_cycles))]
    if kind in ('append_circuit', 'insert_circuit'):
        k = int(rng.integers(1, min(3, n) + 1))
        loc = _rand_loc(rng, n, k)
        rx = [int(c.radixes[q]) for q in loc]
        sub = ['sub', int(rng.integers(1 << 30)), rx, max(nest - 1, 0)]
        asg = bool(rng.random() < 0.5)
        if kind == 'append_circuit':
            return ['append_circuit', sub, loc, asg, bool(rng.random() < 0.3)]
        return ['insert_circuit', int(rng.integers(0, c.num_cycles + 1)), sub, loc, asg]
    if kind == 'remove':
        return ['remove', pt]
    if kind == 'remove_all':
        return ['remove_all', pt]
    if kind == 'set_params':
        return ['set_params', [float(x) for x in rng.uniform(-7, 7, c.num_params)]]
    if kind in ('set_param', 'freeze_param'):
        if c.num_params == 0:
            return ['compress']
        i = int(rng.integers(c.num_params))
        if kind == 'set_param':
            return ['set_param', i, float(rng.uniform(-7, 7))]
        return ['freeze_param', i]
    raise AssertionError(kind)


def _sub(spec: Sequence[Any]) -> Circuit:
    _, gseed, rx, nest = spec
    return _small_circuit(np.random.default_rng(int(gseed)), [int(r) for r in rx], nest=int(nest))


def _region(d: dict[str, Sequence[int]]) -> CircuitRegion:
    return CircuitRegion({int(q): (int(v[0]), int(v[1])) for q, v in d.items()})


def apply_step(c: Circuit, s: Sequence[Any]) -> None:
    k = s[0]
    if k == 'append':
        c.append(_mk_op(s[1:4]))
    elif k == 'extend':
        c.extend([_mk_op(x) for x in s[1]])
    elif k == 'insert':
        c.insert(int(s[1]), _mk_op(s[2:5]))
    elif k == 'pop':
        c.pop(tuple(s[1]))
    elif k == 'pop_last':
        c.pop()
    elif k == 'batch_pop':
        c.batch_pop([tuple(p) for p in s[1]])
    elif k == 'replace':
        c.replace(tuple(s[1]), _mk_op(s[2:5]))
    elif k == 'replace_gate':
        op = _mk_op(s[2:5])
        c.replace_gate(tuple(s[1]), op.gate, op.location, op.params)
    elif k == 'batch_replace':
        c.batch_replace([tuple(p) for p in s[1]], [_mk_op(x) for x in s[2]])
    elif k == 'replace_with_circuit':
        c.replace_with_circuit(tuple(s[1]), _sub(s[2]), bool(s[3]))
    elif k == 'fold':
        c.fold(_region(s[1]))
    elif k == 'straighten':
        c.straighten(_region(s[1]))
    elif k == 'surround_fold':
        c.fold(c.surround(tuple(s[1]), int(s[2])))
    elif k == 'unfold':
        c.unfold(tuple(s[1]))
    elif k == 'batch_unfold':
        c.batch_unfold([tuple(p) for p in s[1]])
    elif k == 'unfold_all':
        c.unfold_all()
    elif k == 'insert_qudit':
        c.insert_qudit(int(s[1]), int(s[2]))
    elif k == 'append_qudit':
        c.append_qudit(int(s[1]))
    elif k == 'extend_qudits':
        c.extend_qudits([int(r) for r in s[1]])
    elif k == 'pop_qudit':
        c.pop_qudit(int(s[1]))
    elif k == 'compress':
        c.compress()
    elif k == 'pop_cycle':
        c.pop_cycle(int(s[1]))
    elif k == 'append_circuit':
        c.append_circuit(_sub(s[1]), [int(q) for q in s[2]], bool(s[3]), bool(s[4]))
    elif k == 'insert_circuit':
        c.insert_circuit(int(s[1]), _sub(s[2]), [int(q) for q in s[3]], bool(s[4]))
    elif k == 'remove':
        c.remove(c[tuple(s[1])])
    elif k == 'remove_all':
        c.remove_all(c[tuple(s[1])].gate)
    elif k == 'set_params':
        c.set_params([float(x) for x in s[1]])
    elif k == 'set_param':
        c.set_param(int(s[1]), float(s[2]))
    elif k == 'freeze_param':
        c.freeze_param(int(s[1]))
    else:
        raise ValueError('unknown step %r' % (k,))


def random_history(
    rng: np.random.Generator, radixes: Sequence[int], nsteps: int,
    nest: int = 1, fixed_width: bool = False,
    stats: dict[str, int] | None = None, nonunitary: bool = True,
) -> tuple[Circuit, list[Any]]:
    """Build a circuit through a random editing history. Steps that the
    circuit rejects (exception) or that leave its views inconsistent are
    rolled back (the history continues from the last good state) and not
    recorded; `stats` counts them. Returns (circuit, recorded steps); the
    first recorded item is ['init', radixes]."""
    c = Circuit(len(radixes), [int(r) for r in radixes])
    steps: list[Any] = [['init', [int(r) for r in radixes]]]
    tries = 0
    done = 0
    while done < nsteps and tries < 4 * nsteps + 8:
        tries += 1
        s = gen_step(rng, c, nest, fixed_width, nonunitary)
        if s is None:
            continue
        try:
            apply_step(c, s)
        except Exception as e:  # noqa - not this property's subject
            if stats is not None:
                stats['edit_raised'] = stats.get('edit_raised', 0) + 1
                key = 'edit_raised:%s:%s' % (s[0], type(e).__name__)
                stats[key] = stats.get(key, 0) + 1
            c = apply_steps(steps)  # roll back by replaying the good prefix
            continue
        probs = circuit_problems(c)
        if probs:
            if stats is not None:
                stats['edit_left_inconsistent'] = stats.get('edit_left_inconsistent', 0) + 1
                key = 'edit_left_inconsistent:%s:%s' % (s[0], probs[0])
                stats[key] = stats.get(key, 0) + 1
            c = apply_steps(steps)
            continue
        steps.append(s)
        done += 1
        if stats is not None:
            stats['step:' + s[0]] = stats.get('step:' + s[0], 0) + 1
    return c, steps


def apply_steps(steps: Sequence[Any]) -> Circuit:
    assert steps[0][0] == 'init'
    c = Circuit(len(steps[0][1]), [int(r) for r in steps[0][1]])
    for s in steps[1:]:
        apply_step(c, s)
    return c


# ============================================================ circuit views
def grid_of(c: Circuit) -> list[list[Any]]:
    """Cycle-by-cycle public grid: per cycle a sorted list of
    (location, gate, params) taken with `c[cycle, qudit]`."""
    out = []
    for cyc in range(c.num_cycles):
        row = {}
        for q in range(c.num_qudits):
            if not c.is_point_idle((cyc, q)):
                op = c[cyc, q]
                row[tuple(op.location)] = op
        out.append([row[k] for k in sorted(row, key=min)])
    return out


def circuit_problems(c: Circuit) -> list[str]:
    """Input sanity (the subject of C05, not C16): idle cycles, operations
    seen by iteration != operations in the grid, counters off. Only
    circuits with no problem are valid C16 inputs."""
    probs = []
    grid = grid_of(c)
    if any(len(r) == 0 for r in grid):
        probs.append('idle_cycle')
    flat = [(cyc, tuple(op.location), id(op)) for cyc, r in enumerate(grid) for op in r]
    try:
        it = [(cyc, tuple(op.location), id(op)) for cyc, op in c.operations_with_cycles()]
    except Exception as e:  # noqa
        return probs + ['iteration_raised:' + type(e).__name__]
    if sorted(flat) != sorted(it):
        probs.append('iteration_vs_grid')
    # iteration respects per-qudit grid order
    last = {}
    for cyc, loc, _ in it:
        for q in loc:
            if last.get(q, -1) >= cyc:
                probs.append('iteration_not_simulation_order')
            last[q] = cyc
    for cyc, r in enumerate(grid):
        for op in r:
            for q in op.location:
                if c._circuit[cyc][q] is not op:
                    probs.append('grid_location_mismatch')
    if c.num_operations != len(flat):
        probs.append('num_operations')
    cnt: dict[Gate, int] = {}
    for _, r in enumerate(grid):
        for op in r:
            cnt[op.gate] = cnt.get(op.gate, 0) + 1
    if cnt != c._gate_info:
        probs.append('gate_info')
    pairs: dict[tuple[int, int], int] = {}
    for r in grid:
        for op in r:
            for p in op.location.pairs:
                pairs[p] = pairs.get(p, 0) + 1
    if pairs != c._graph_info:
        probs.append('graph_info')
    return sorted(set(probs))


def _params_equal(a: Sequence[float], b: Sequence[float]) -> bool:
    a = np.asarray(a, dtype=float)
    b = np.asarray(b, dtype=float)
    return a.shape == b.shape and bool(np.array_equal(a, b))


def compare_circuits(
    x: Circuit, y: Circuit, layout: bool = True, unitary: bool = True,
    count: Callable[[str], None] | None = None, ux: np.ndarray | None = None,
) -> list[str]:
    """Field names on which y differs from x through the public API."""
    d = []
    if x.num_qudits != y.num_qudits:
        d.append('num_qudits')
    if tuple(x.radixes) != tuple(y.radixes):
        d.append('radixes')
    gx, gy = grid_of(x), grid_of(y)
    if layout:
        if x.num_cycles != y.num_cycles:
            d.append('num_cycles')
        if len(gx) == len(gy):
            for cyc, (rx, ry) in enumerate(zip(gx, gy)):
                if [tuple(sorted(o.location)) for o in rx] != [tuple(sorted(o.location)) for o in ry]:
                    d.append('cycle_layout')
                    break
        else:
            d.append('cycle_layout')
    fx = [o for r in gx for o in r] if layout else list(x)
    fy = [o for r in gy for o in r] if layout else list(y)
    if len(fx) != len(fy):
        d.append('operation_count')
    else:
        for ox, oy in zip(fx, fy):
            if tuple(ox.location) != tuple(oy.location):
                d.append('op_location')
                break
        for ox, oy in zip(fx, fy):
            try:
                if not (ox.gate == oy.gate) or (ox.gate != oy.gate):
                    d.append('op_gate_eq')
                    break
                if hash(ox.gate) != hash(oy.gate):
                    d.append('op_gate_hash')
                    break
                if ox.gate.name != oy.gate.name:
                    d.append('op_gate_name')
                    break
            except Exception as e:  # noqa
                d.append('op_gate_eq_raised:' + type(e).__name__)
                break
        for ox, oy in zip(fx, fy):
            if not _params_equal(ox.params, oy.params):
                d.append('op_params')
                break
        for ox, oy in zip(fx, fy):
            try:
                if not (ox == oy) or hash(ox) != hash(oy):
                    d.append('op_eq_hash')
                    break
            except Exception as e:  # noqa
                d.append('op_eq_raised:' + type(e).__name__)
                break
    # iteration order (simulation order) and its cycles
    ix = [(cyc, tuple(o.location)) for cyc, o in x.operations_with_cycles()]
    iy = [(cyc, tuple(o.location)) for cyc, o in y.operations_with_cycles()]
    if layout and ix != iy:
        d.append('iteration_order')
    if not _params_equal(x.params, y.params):
        d.append('params')
    for f in ('num_operations', 'num_params', 'depth', 'multi_qudit_depth', 'num_cycles', 'active_qudits', 'is_empty'):
        if not layout and f in ('num_cycles',):
            continue
        try:
            a, b = getattr(x, f), getattr(y, f)
        except Exception as e:  # noqa
            d.append(f + ':raised:' + type(e).__name__)
            continue
        if a != b:
            d.append(f)
    try:
        cx = {g: n for g, n in x.gate_counts.items()}
        cy = {g: n for g, n in y.gate_counts.items()}
        if cx != cy:
            d.append('gate_counts')
        if x.gate_set != y.gate_set:
            d.append('gate_set')
    except Exception as e:  # noqa
        d.append('gate_counts:raised:' + type(e).__name__)
    if set(x.coupling_graph) != set(y.coupling_graph) or x.coupling_graph != y.coupling_graph:
        d.append('coupling_graph')
    try:
        eq = (x == y)
        ne = (x != y)
        if not eq or ne:
            d.append('circuit_eq')
    except Exception as e:  # noqa
        d.append('circuit_eq:raised:' + type(e).__name__)
    # DAG navigation
    for q in range(min(x.num_qudits, y.num_qudits)):
        if x.first_on(q) != y.first_on(q) or x.last_on(q) != y.last_on(q):
            d.append('first_last_on')
            break
    if x.front != y.front or x.rear != y.rear:
        d.append('front_rear')
    if 'operation_count' not in d and layout:
        for cyc, r in enumerate(gx):
            bad = False
            for o in r:
                p = (cyc, o.location[0])
                try:
                    if x.next(p) != y.next(p) or x.prev(p) != y.prev(p):
                        bad = True
                except Exception:  # noqa
                    bad = True
            if bad:
                d.append('next_prev')
                break
    if unitary and 'operation_count' not in d:
        if ux is None:
            ux = reference_unitary(x)
        if ux is not None:
            if count:
                count('unitary_compared')
            try:
                uy = refsim.unitary(y)
                if ux.shape != uy.shape or not np.allclose(ux, uy, atol=1e-10, rtol=0):
                    d.append('unitary')
            except Exception as e:  # noqa
                d.append('unitary:raised:' + type(e).__name__)
        elif count:
            count('unitary_skipped_nonunitary_or_wide')
    return d


MAX_UNITARY_DIM = 128


def reference_unitary(x: Circuit) -> np.ndarray | None:
    """refsim unitary of a circuit of <= 6 qudits (dim <= MAX_UNITARY_DIM);
    None when it holds a measurement / reset or is too wide."""
    if x.num_qudits > 6 or x.dim > MAX_UNITARY_DIM:
        return None
    try:
        return refsim.unitary(x)
    except Exception:  # noqa
        return None


def circuit_state(c: Circuit) -> Any:
    """Hashable-ish deep snapshot of everything observable on a circuit
    (for aliasing probes): grid with gate names, params (values), inner
    circuits of CircuitGates recursively."""
    rows = []
    for cyc, r in enumerate(grid_of(c)):
        row = []
        for o in r:
            inner = None
            g = o.gate
            if isinstance(g, CircuitGate):
                inner = inner_structure(g._circuit)
            row.append((tuple(o.location), g.name, tuple(float(p) for p in o.params), inner))
        rows.append(tuple(row))
    return (
        c.num_qudits, tuple(c.radixes), tuple(rows), c.num_operations, c.num_params,
        tuple(sorted((g.name, n) for g, n in c._gate_info.items())),
        tuple(sorted(c.coupling_graph)),
        tuple(sorted((q, p) for q, p in c._front.items() if p is not None)),
        tuple(sorted((q, p) for q, p in c._rear.items() if p is not None)),
    )


def inner_structure(c: Circuit) -> Any:
    """Structure of a CircuitGate's inner circuit without its stored
    parameter values (those are scratch: `unfold` overwrites them)."""
    rows = []
    for r in grid_of(c):
        rows.append(tuple(
            (tuple(o.location), o.gate.name, inner_structure(o.gate._circuit) if isinstance(o.gate, CircuitGate) else None)
            for o in r
        ))
    return (tuple(c.radixes), tuple(rows))


def circuit_desc(c: Circuit, maxops: int = 60) -> dict[str, Any]:
    ops = []
    for cyc, r in enumerate(grid_of(c)):
        for o in r:
            ops.append([cyc, o.gate.name[:60], list(o.location), [round(float(p), 6) for p in o.params][:6]])
            if len(ops) >= maxops:
                break
    return {'radixes': list(c.radixes), 'num_cycles': c.num_cycles, 'num_ops': c.num_operations, 'ops': ops}


# ================================================================== gates
def gate_expect_identity(g: Gate) -> bool:
    """True when utils/cachedclass.py promises one instance per parameter
    set for this object: constructing the class again from the recorded
    arguments returns this very object."""
    if not isinstance(g, CachedClass):
        return False
    key = getattr(g, '__cache_key__', None)
    if key is None:
        return False
    try:
        again = type(g).__new__(type(g), *key[1], **key[2])
    except Exception:  # noqa
        return False
    return again is g


def compare_gates(x: Gate, y: Gate, rng: np.random.Generator) -> list[str]:
    d = []
    if type(x) is not type(y):
        d.append('type')
    try:
        if not (x == y) or (x != y):
            d.append('eq')
        if not (y == x):
            d.append('eq_reflected')
    except Exception as e:  # noqa
        d.append('eq:raised:' + type(e).__name__)
    try:
        if hash(x) != hash(y):
            d.append('hash')
    except Exception as e:  # noqa
        d.append('hash:raised:' + type(e).__name__)
    for f in ('name', 'num_params', 'num_qudits', 'radixes', 'dim', 'qasm_name'):
        try:
            a = getattr(x, f)
        except Exception:  # noqa
            continue
        try:
            b = getattr(y, f)
        except Exception as e:  # noqa
            d.append(f + ':raised:' + type(e).__name__)
            continue
        if a != b:
            d.append(f)
    if repr(x) != repr(y):
        d.append('repr')
    p = [float(v) for v in rng.uniform(-3, 3, x.num_params)]
    try:
        ux = np.asarray(x.get_unitary(p))
    except Exception:  # noqa
        ux = None
    if ux is not None:
        try:
            uy = np.asarray(y.get_unitary(p))
            if ux.shape != uy.shape or not np.allclose(ux, uy, atol=ATOL, rtol=0):
                d.append('unitary')
        except Exception as e:  # noqa
            d.append('unitary:raised:' + type(e).__name__)
    # set / dict behaviour
    try:
        if y not in {x} or x not in {y: 1}:
            d.append('set_membership')
    except Exception as e:  # noqa
        d.append('set_membership:raised:' + type(e).__name__)
    if gate_expect_identity(x) and y is not x:
        d.append('singleton_identity')
    return d


# ======================================================== graphs / models
def graph_view(g: CouplingGraph) -> dict[str, Any]:
    n = g.num_qudits
    edges = sorted(tuple(sorted(e)) for e in g)
    v: dict[str, Any] = {
        'num_qudits': n,
        'edges': edges,
        'len': len(g),
        'remote_edges': sorted(tuple(sorted(e)) for e in g._remote_edges),
        'default_weight': float(g.default_weight),
        'default_remote_weight': float(g.default_remote_weight),
        'weights': [[float(g._mat[a][b]) for b in range(n)] for a in range(n)],
        'neighbors': [sorted(g.get_neighbors_of(q)) for q in range(n)],
        'degrees': list(g.get_qudit_degrees()),
        'contains': [e in g for e in edges],
    }
    for f in ('is_distributed', 'qpu_count', 'get_qudit_to_qpu_map', 'get_qpu_to_qudit_map', 'is_fully_connected'):
        try:
            r = getattr(g, f)()
            v[f] = r
        except Exception as e:  # noqa
            v[f] = 'raised:' + type(e).__name__
    try:
        v['apsp'] = [[float(x) for x in r] for r in g.all_pairs_shortest_path()]
    except Exception as e:  # noqa
        v['apsp'] = 'raised:' + type(e).__name__
    return v


def diff_views(a: dict[str, Any], b: dict[str, Any]) -> list[str]:
    d = []
    for k in a:
        if k not in b:
            d.append(k + ':missing')
        elif not _deep_equal(a[k], b[k]):
            d.append(k)
    for k in b:
        if k not in a:
            d.append(k + ':extra')
    return d


def compare_graphs(x: CouplingGraph, y: CouplingGraph, with_hash: bool = True) -> list[str]:
    """`with_hash=False` where the graph is only a component (model,
    PassData): the graph's own hash is judged once, in the graph cases."""
    d = diff_views(graph_view(x), graph_view(y))
    if type(x) is not type(y):
        d.append('type')
    try:
        if not (x == y):
            d.append('eq')
        if with_hash and hash(x) != hash(y):
            d.append('hash')
    except Exception as e:  # noqa
        d.append('eq_hash:raised:' + type(e).__name__)
    return d


def gateset_view(s: Any) -> dict[str, Any]:
    return {
        'names': sorted(g.name for g in s),
        'len': len(s),
        'radix_set': sorted(s.radix_set),
        'str': sorted(str(s).replace('GateSet({', '').replace('})', '').split(', ')),
    }


def compare_gatesets(x: Any, y: Any) -> list[str]:
    d = diff_views(gateset_view(x), gateset_view(y))
    try:
        if not (x == y) or not (set(x) == set(y)):
            d.append('eq')
        if hash(x) != hash(y):
            d.append('hash')
        for g in x:
            if g not in y:
                d.append('membership')
                break
    except Exception as e:  # noqa
        d.append('eq_hash:raised:' + type(e).__name__)
    return d


def compare_models(x: MachineModel, y: MachineModel) -> list[str]:
    d = []
    if type(x) is not type(y):
        d.append('type')
    for f in ('num_qudits', 'radixes'):
        a, b = getattr(x, f, None), getattr(y, f, None)
        if a != b or type(a) is not type(b):
            d.append(f)
    if not hasattr(y, 'gate_set'):
        d.append('gate_set:missing')
    else:
        d += ['gate_set.' + z for z in compare_gatesets(x.gate_set, y.gate_set)]
    if not hasattr(y, 'coupling_graph'):
        d.append('coupling_graph:missing')
    else:
        d += ['coupling_graph.' + z for z in compare_graphs(x.coupling_graph, y.coupling_graph, with_hash=False)]
    extra = set(vars(x)) ^ set(vars(y))
    if extra:
        d.append('attributes:' + ','.join(sorted(extra)))
    for k in (1, 2):
        if k <= x.num_qudits:
            try:
                a = x.get_locations(k)
            except Exception:  # noqa
                continue
            try:
                if sorted(map(tuple, a)) != sorted(map(tuple, y.get_locations(k))):
                    d.append('get_locations')
            except Exception as e:  # noqa
                d.append('get_locations:raised:' + type(e).__name__)
    return d


# ================================================================ generic
def _deep_equal(a: Any, b: Any) -> bool:
    """Structural equality by value for the kinds of objects stored in
    PassData / task arguments."""
    if isinstance(a, Circuit) or isinstance(b, Circuit):
        return isinstance(a, Circuit) and isinstance(b, Circuit) and not compare_circuits(a, b, unitary=False)
    if isinstance(a, MachineModel) or isinstance(b, MachineModel):
        return isinstance(a, MachineModel) and isinstance(b, MachineModel) and not compare_models(a, b)
    if isinstance(a, CouplingGraph) or isinstance(b, CouplingGraph):
        return isinstance(a, CouplingGraph) and isinstance(b, CouplingGraph) and not compare_graphs(a, b, with_hash=False)
    if isinstance(a, StateSystem) or isinstance(b, StateSystem):
        return isinstance(a, StateSystem) and isinstance(b, StateSystem) and not compare_systems(a, b)
    if isinstance(a, (UnitaryMatrix, StateVector)) or isinstance(b, (UnitaryMatrix, StateVector)):
        return type(a) is type(b) and tuple(a.radixes) == tuple(b.radixes) and np.array_equal(a.numpy, b.numpy)
    if isinstance(a, np.ndarray) or isinstance(b, np.ndarray):
        return (
            isinstance(a, np.ndarray) and isinstance(b, np.ndarray)
            and a.shape == b.shape and a.dtype == b.dtype and bool(np.array_equal(a, b))
        )
    if isinstance(a, Operation) or isinstance(b, Operation):
        return (
            isinstance(a, Operation) and isinstance(b, Operation) and a.gate == b.gate
            and tuple(a.location) == tuple(b.location) and _params_equal(a.params, b.params)
        )
    if isinstance(a, PassData) or isinstance(b, PassData):
        return isinstance(a, PassData) and isinstance(b, PassData) and not compare_passdata(a, b)
    if isinstance(a, dict) or isinstance(b, dict):
        if not (isinstance(a, dict) and isinstance(b, dict)) or type(a) is not type(b):
            return False
        if len(a) != len(b):
            return False
        try:
            if set(a.keys()) != set(b.keys()):
                return False
        except TypeError:
            return False
        return all(_deep_equal(a[k], b[k]) for k in a)
    if isinstance(a, (list, tuple)) or isinstance(b, (list, tuple)):
        if type(a) is not type(b) or len(a) != len(b):
            return False
        return all(_deep_equal(u, v) for u, v in zip(a, b))
    if isinstance(a, (set, frozenset)):
        return type(a) is type(b) and a == b
    if isinstance(a, float) and isinstance(b, float) and np.isnan(a) and np.isnan(b):
        return True
    if callable(a) and callable(b) and inspect.isfunction(a):
        return a is b or (
            getattr(a, '__module__', 0) == getattr(b, '__module__', 1)
            and getattr(a, '__qualname__', 0) == getattr(b, '__qualname__', 1)
        )
    if isinstance(a, BasePass) or isinstance(b, BasePass):
        return workflow_view(a) == workflow_view(b)
    try:
        r = (a == b)
        return bool(r) and type(a) is type(b)
    except Exception:  # noqa
        return False


def compare_systems(x: StateSystem, y: StateSystem) -> list[str]:
    d = []
    if tuple(x.radixes) != tuple(y.radixes) or x.dim != y.dim or x.num_qudits != y.num_qudits:
        d.append('radixes')
    if len(x) != len(y):
        d.append('len')
    else:
        for kx, ky in zip(x, y):
            if not np.array_equal(kx.numpy, ky.numpy):
                d.append('key_order')
                break
            if not np.array_equal(x[kx].numpy, y[ky].numpy):
                d.append('value')
                break
        for kx in x:
            try:
                if kx not in y or not np.array_equal(y[kx].numpy, x[kx].numpy):
                    d.append('lookup')
                    break
            except Exception as e:  # noqa
                d.append('lookup:raised:' + type(e).__name__)
                break
    if not np.array_equal(np.asarray(x.target), np.asarray(y.target)):
        d.append('target')
    return d


# =============================================================== PassData
RESERVED_EXPECTED = (
    'target', 'model', 'placement', 'error', 'seed', 'machine_model',
    'initial_mapping', 'final_mapping',
)
PASSDATA_PROPS = (
    'target', 'error', 'model', 'gate_set', 'placement', 'initial_mapping',
    'final_mapping', 'seed', 'connectivity',
)


def passdata_fields(d: PassData) -> dict[str, Any]:
    """Every public field: reserved keys (via mapping access), the
    properties, and the user keys."""
    out: dict[str, Any] = {}
    for k in list(PassData._reserved_keys):
        out['key:' + k] = d[k]
    for p in PASSDATA_PROPS:
        try:
            out['prop:' + p] = getattr(d, p)
        except Exception as e:  # noqa
            out['prop:' + p] = 'raised:' + type(e).__name__
    for k in d:
        if k not in PassData._reserved_keys:
            out['user:' + k] = d[k]
    out['len'] = len(d)
    out['keys'] = list(d)
    return out


def compare_passdata(x: PassData, y: PassData) -> list[str]:
    fx, fy = passdata_fields(x), passdata_fields(y)
    d = []
    for k in fx:
        if k not in fy:
            d.append(k + ':missing')
        elif k == 'prop:gate_set' or k == 'key:gate_set':
            if compare_gatesets(fx[k], fy[k]):
                d.append(k)
        elif not _deep_equal(fx[k], fy[k]):
            d.append(k)
    for k in fy:
        if k not in fx:
            d.append(k + ':extra')
    return d


def passdata_state(d: PassData) -> Any:
    """Deep value snapshot for aliasing probes."""
    def snap(v: Any, depth: int = 0) -> Any:
        if isinstance(v, Circuit):
            return ('circuit', circuit_state(v))
        if isinstance(v, MachineModel):
            return ('model', model_state(v))
        if isinstance(v, CouplingGraph):
            return ('graph', repr(sorted(graph_view(v).items())))
        if isinstance(v, (UnitaryMatrix, StateVector)):
            return (type(v).__name__, tuple(v.radixes), v.numpy.tobytes())
        if isinstance(v, StateSystem):
            return ('system', tuple((k.numpy.tobytes(), v[k].numpy.tobytes()) for k in v), np.asarray(v.target).tobytes())
        if isinstance(v, np.ndarray):
            return ('nd', v.shape, str(v.dtype), v.tobytes())
        if isinstance(v, dict):
            return ('dict', tuple((repr(k), snap(x, depth + 1)) for k, x in v.items()))
        if isinstance(v, (list, tuple)):
            return (type(v).__name__, tuple(snap(x, depth + 1) for x in v))
        if isinstance(v, (set, frozenset)):
            return (type(v).__name__, tuple(sorted(repr(x) for x in v)))
        if isinstance(v, Operation):
            return ('op', v.gate.name, tuple(v.location), tuple(float(p) for p in v.params))
        if inspect.isfunction(v):
            return ('fn', v.__module__, v.__qualname__)
        return repr(v)
    out = []
    for k in d:
        if k == 'machine_model':
            continue
        out.append((k, snap(d[k])))
    out.append(('gate_set', tuple(sorted(g.name for g in d.gate_set))))
    return tuple(out)


def model_state(m: MachineModel) -> Any:
    return (
        m.num_qudits, tuple(m.radixes), tuple(sorted(g.name for g in m.gate_set)),
        repr(sorted(graph_view(m.coupling_graph).items())),
    )


# =============================================================== workflows
def workflow_view(p: Any, depth: int = 0) -> Any:
    """Recursive structure of a pass: type, name, and every attribute
    (passes, predicates, callables by qualified name, plain values)."""
    if depth > 12:
        return '...'
    if isinstance(p, Workflow):
        return {
            'type': type(p).__name__, 'name': p.name, '_name': p._name, 'len': len(p),
            'passes': [workflow_view(q, depth + 1) for q in p],
        }
    if isinstance(p, BasePass) or type(p).__module__.startswith('bqskit.passes') or type(p).__module__.startswith('vlib.'):
        attrs = {}
        for k, v in sorted(vars(p).items()):
            attrs[k] = workflow_view(v, depth + 1)
        out = {'type': type(p).__module__ + '.' + type(p).__name__, 'attrs': attrs}
        if isinstance(p, BasePass):
            out['name'] = p.name
        return out
    if inspect.isfunction(p) or inspect.isbuiltin(p) or inspect.isclass(p):
        return 'callable:%s.%s' % (getattr(p, '__module__', '?'), getattr(p, '__qualname__', '?'))
    if isinstance(p, Gate):
        return 'gate:' + p.name
    if isinstance(p, Circuit):
        return {'circuit': circuit_desc(p)}
    if isinstance(p, MachineModel):
        return {'model': repr(model_state(p))}
    if isinstance(p, (UnitaryMatrix, StateVector)):
        return {'array': [list(p.radixes), np.round(p.numpy, 12).tolist().__repr__()]}
    if isinstance(p, np.ndarray):
        return {'nd': [list(p.shape), str(p.dtype), p.tolist().__repr__()]}
    if isinstance(p, dict):
        return {'dict': [[repr(k), workflow_view(v, depth + 1)] for k, v in p.items()]}
    if isinstance(p, (list, tuple)):
        return {type(p).__name__: [workflow_view(v, depth + 1) for v in p]}
    if isinstance(p, (set, frozenset)):
        return {type(p).__name__: sorted(repr(workflow_view(v, depth + 1)) for v in p)}
    if p is None or isinstance(p, (bool, int, float, str)):
        return p
    if hasattr(p, '__dict__') and not inspect.ismodule(p):
        return {'obj': type(p).__name__, 'attrs': {k: workflow_view(v, depth + 1) for k, v in sorted(vars(p).items())}}
    import re
    return 'obj:' + type(p).__name__ + ':' + re.sub(r' at 0x[0-9a-f]+', '', repr(p))[:80]


def flatten_types(v: Any, out: list[str] | None = None) -> list[str]:
    out = [] if out is None else out
    if isinstance(v, dict):
        if 'type' in v and isinstance(v['type'], str):
            out.append(v['type'].split('.')[-1])
        for x in v.values():
            flatten_types(x, out)
    elif isinstance(v, list):
        for x in v:
            flatten_types(x, out)
    return out


# ---- module-level callables and passes used in workflows (importable by
# ---- name inside the runtime's workers: /verif is put on their PYTHONPATH)
def pred_fewer_ops(old: Circuit, new: Circuit) -> bool:
    return new.num_operations < old.num_operations


def pred_always(old: Circuit, new: Circuit) -> bool:
    return True


def pred_never(old: Circuit, new: Circuit) -> bool:
    return False


def less_ops(a: Circuit, b: Circuit) -> bool:
    return a.num_operations < b.num_operations


def less_cycles(a: Circuit, b: Circuit) -> bool:
    return (a.num_cycles, a.num_operations) < (b.num_cycles, b.num_operations)


def keep_multi_qudit(op: Operation) -> bool:
    return op.num_qudits >= 2


def replace_if_fewer(new: Circuit, old: Operation) -> bool:
    return new.num_operations <= old.gate._circuit.num_operations  # type: ignore


def user_callable(x: int) -> int:
    return 3 * x + 1


class PopLastPass(BasePass):
    """Deterministic: removes the last operation while more than `keep`."""

    def __init__(self, keep: int = 1, label: str = '') -> None:
        self.keep = keep
        self.label = label

    async def run(self, circuit: Circuit, data: PassData) -> None:
        if circuit.num_operations > self.keep:
            circuit.pop()
        data['poplast_runs'] = data.get('poplast_runs', 0) + 1


class AppendGatePass(BasePass):
    """Deterministic: appends a fixed operation; records into data."""

    def __init__(self, gate: Gate, location: Sequence[int], params: Sequence[float] = ()) -> None:
        self.gate = gate
        self.location = tuple(location)
        self.params = list(params)

    async def run(self, circuit: Circuit, data: PassData) -> None:
        if max(self.location) < circuit.num_qudits and all(
            circuit.radixes[q] == r for q, r in zip(self.location, self.gate.radixes)
        ):
            circuit.append_gate(self.gate, self.location, self.params)
        data.setdefault('trace', []).append(self.gate.name)


class TracePass(BasePass):
    """Records (label, num_operations) into data['trace']."""

    def __init__(self, label: str, payload: Any = None) -> None:
        self.label = label
        self.payload = payload

    async def run(self, circuit: Circuit, data: PassData) -> None:
        data.setdefault('trace', []).append('%s:%d' % (self.label, circuit.num_operations))
        if callable(self.payload):
            data['payload_out'] = self.payload(circuit.num_operations)


from bqskit.passes.control.predicate import PassPredicate  # noqa: E402


class OpsAbovePredicate(PassPredicate):
    """True while the circuit has more than `n` operations."""

    def __init__(self, n: int) -> None:
        self.n = n

    def get_truth_value(self, circuit: Circuit, data: PassData) -> bool:
        return circuit.num_operations > self.n
