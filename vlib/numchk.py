"""Numerical helpers shared by C06 (simulation) and C19 (cost/instantiation).

* a parameter-index model of a Circuit (own slicing, own concatenation);
* reference unitary / gradient through `refsim` (no UnitaryBuilder);
* central finite differences with exactly representable steps;
* the cost / residual definitions of the three target kinds, computed from a
  reference unitary (independent of the native engine);
* `PyGate`: hand-written pure-Python gates (closed forms written here, no
  `_expr`, names the native engine does not know) so that the engine has to
  call back into Python;
* a random structural-edit routine (insert/pop/replace/fold/unfold/freeze/
  renumber) for C06;
* record-and-return wrappers for the per-start `Instantiater.instantiate`.
"""
from __future__ import annotations

import functools
from typing import Any
from typing import Callable
from typing import Sequence

import numpy as np

from bqskit.ir.circuit import Circuit
from bqskit.ir.gate import Gate
from bqskit.ir.gates import CircuitGate
from bqskit.ir.gates import ConstantUnitaryGate
from bqskit.ir.gates import VariableUnitaryGate
from bqskit.qis.unitary.unitarymatrix import UnitaryMatrix

from vlib import gen
from vlib import refsim


def reraise_control(e: BaseException) -> None:
    """Native (pyo3) panics derive from BaseException, so the monitors catch
    BaseException; interpreter control exceptions are passed on."""
    if isinstance(e, (KeyboardInterrupt, SystemExit, GeneratorExit)):
        raise e


# ------------------------------------------------------------ param model
def op_table(circuit: Circuit) -> list[dict[str, Any]]:
    """One row per operation in default iteration order with the offset of
    its parameters in the flat vector (own arithmetic)."""
    rows = []
    off = 0
    for cyc, op in circuit.operations_with_cycles():
        n = len(op.params)
        rows.append({
            'cycle': int(cyc), 'op': op, 'gate': op.gate,
            'loc': tuple(int(q) for q in op.location), 'n': n, 'off': off,
        })
        off += n
    return rows


def concat_params(rows: list[dict[str, Any]]) -> np.ndarray:
    out: list[float] = []
    for r in rows:
        out.extend(float(x) for x in r['op'].params)
    return np.array(out, dtype=float)


def ref_items(
    rows: list[dict[str, Any]], p: Sequence[float] | None = None,
) -> list[tuple[np.ndarray, tuple[int, ...]]]:
    """(matrix, location) per operation; with `p`, each gate is evaluated at
    its own slice of `p` (the gate object is asked directly, not the
    operation and not the circuit)."""
    items = []
    for r in rows:
        if p is None or r['n'] == 0:
            m = np.asarray(r['op'].get_unitary())
        else:
            sl = [float(x) for x in p[r['off']: r['off'] + r['n']]]
            m = np.asarray(r['gate'].get_unitary(sl))
        items.append((m, r['loc']))
    return items


def ref_unitary(
    circuit: Circuit, p: Sequence[float] | None = None,
    rows: list[dict[str, Any]] | None = None,
) -> np.ndarray:
    rows = op_table(circuit) if rows is None else rows
    return refsim.unitary_of_items(ref_items(rows, p), list(circuit.radixes))


def ref_grad(
    circuit: Circuit, p: Sequence[float], rows: list[dict[str, Any]],
    which: Sequence[int],
) -> dict[int, np.ndarray]:
    """dU/dp_i for i in `which`: the ordered product with the owning
    operation's matrix replaced by the gate's own derivative."""
    items = ref_items(rows, p)
    radixes = list(circuit.radixes)
    out: dict[int, np.ndarray] = {}
    owner = {}
    for j, r in enumerate(rows):
        for k in range(r['n']):
            owner[r['off'] + k] = (j, k)
    cache: dict[int, np.ndarray] = {}
    for i in which:
        j, k = owner[i]
        r = rows[j]
        if j not in cache:
            sl = [float(x) for x in p[r['off']: r['off'] + r['n']]]
            cache[j] = np.asarray(r['gate'].get_grad(sl))
        dM = cache[j][k]
        its = list(items)
        its[j] = (dM, r['loc'])
        out[i] = refsim.unitary_of_items(its, radixes)
    return out


def fd_step(x: float, h: float) -> tuple[float, float, float]:
    """(x+h, x-h, exact difference) as floats."""
    hi = float(x) + h
    lo = float(x) - h
    return hi, lo, hi - lo


def central_fd(
    f: Callable[[np.ndarray], Any], p: Sequence[float], i: int,
    h: float = 1e-6,
) -> np.ndarray:
    p = np.array(p, dtype=float)
    hi, lo, d = fd_step(p[i], h * max(1.0, abs(p[i]) * 1e-3))
    a = p.copy()
    a[i] = hi
    b = p.copy()
    b[i] = lo
    return (np.asarray(f(a)) - np.asarray(f(b))) / d


# ------------------------------------------------------------ cost model
def zero_state(dim: int) -> np.ndarray:
    v = np.zeros(dim, dtype=np.complex128)
    v[0] = 1.0
    return v


class Target:
    """A target of one of the three kinds plus its plain-numpy data."""

    def __init__(self, kind: str, radixes: Sequence[int], data: Any) -> None:
        from bqskit.qis.state.state import StateVector
        from bqskit.qis.state.system import StateSystem
        self.kind = kind
        self.radixes = [int(r) for r in radixes]
        self.dim = refsim.dim_of(self.radixes)
        if kind == 'unitary':
            self.T = np.array(data, dtype=np.complex128)
            self.obj: Any = UnitaryMatrix(self.T, self.radixes, False)
        elif kind == 'state':
            self.s = np.array(data, dtype=np.complex128)
            self.obj = StateVector(self.s, self.radixes)
        elif kind == 'system':
            V, W = data
            self.V = np.array(V, dtype=np.complex128)
            self.W = np.array(W, dtype=np.complex128)
            self.k = self.V.shape[1]
            self.obj = StateSystem({
                StateVector(self.V[:, i], self.radixes):
                StateVector(self.W[:, i], self.radixes)
                for i in range(self.k)
            })
            self.M = self.W @ self.V.conj().T
        else:
            raise ValueError(kind)

    def cost(self, U: np.ndarray) -> float:
        """The Hilbert-Schmidt cost of this target kind, from a unitary."""
        if self.kind == 'unitary':
            return 1.0 - abs(np.trace(self.T.conj().T @ U)) / self.dim
        if self.kind == 'state':
            psi = U[:, 0]
            return 1.0 - abs(np.vdot(self.s, psi)) ** 2
        return 1.0 - abs(np.trace(self.M.conj().T @ U)) / self.k

    def residuals(self, U: np.ndarray) -> np.ndarray:
        """The residual vector the native residual functions return, as a
        function of the circuit unitary (layout observed on the unchanged
        code; only the definition *in terms of U* is what the check uses)."""
        if self.kind == 'state':
            return np.abs(U[:, 0] - self.s) ** 2
        A = self.T if self.kind == 'unitary' else self.M
        m = U @ A.conj().T
        eye = np.eye(self.dim)
        return np.concatenate([(m.real - eye).ravel(), m.imag.ravel()])

    def with_phase_of(self, U: np.ndarray, phi: float) -> 'Target':
        """Target that equals U up to the global phase e^{i phi}."""
        ph = np.exp(1j * phi)
        if self.kind == 'unitary':
            return Target('unitary', self.radixes, ph * U)
        if self.kind == 'state':
            return Target('state', self.radixes, ph * U[:, 0])
        return Target('system', self.radixes, (self.V, ph * (U @ self.V)))

    def perturbed_from(self, U: np.ndarray, R: np.ndarray) -> 'Target':
        """Target R.U (R a unitary that is not a phase)."""
        if self.kind == 'unitary':
            return Target('unitary', self.radixes, R @ U)
        if self.kind == 'state':
            return Target('state', self.radixes, (R @ U)[:, 0])
        return Target('system', self.radixes, (self.V, R @ U @ self.V))

    def desc(self) -> dict[str, Any]:
        d: dict[str, Any] = {'kind': self.kind, 'radixes': self.radixes}
        if self.kind == 'system':
            d['k'] = self.k
        return d


def random_target(
    rng: np.random.Generator, kind: str, radixes: Sequence[int],
) -> Target:
    d = refsim.dim_of(radixes)
    if kind == 'unitary':
        return Target(kind, radixes, np.asarray(gen.haar(rng, radixes)))
    if kind == 'state':
        v = rng.normal(size=d) + 1j * rng.normal(size=d)
        return Target(kind, radixes, v / np.linalg.norm(v))
    k = int(rng.integers(1, d + 1))
    A = np.asarray(gen.haar(rng, radixes))[:, :k]
    T = np.asarray(gen.haar(rng, radixes))
    return Target(kind, radixes, (A, T @ A))


def small_rotation(rng: np.random.Generator, d: int, eps: float) -> np.ndarray:
    """exp(i eps H) with H a random traceless Hermitian of unit norm."""
    a = rng.normal(size=(d, d)) + 1j * rng.normal(size=(d, d))
    H = (a + a.conj().T) / 2
    H -= np.trace(H) / d * np.eye(d)
    H /= np.linalg.norm(H, 2)
    w, v = np.linalg.eigh(H)
    return (v * np.exp(1j * eps * w)) @ v.conj().T


# ------------------------------------------------------------ python gates
PY_CALLS = {'unitary': 0, 'grad': 0}

_X = np.array([[0, 1], [1, 0]], dtype=complex)
_Y = np.array([[0, -1j], [1j, 0]], dtype=complex)
_I2 = np.eye(2, dtype=complex)
_XX = np.kron(_X, _X)
_YY = np.kron(_Y, _Y)
_I4 = np.eye(4, dtype=complex)


def _rx(t: float) -> np.ndarray:
    c, s = np.cos(t / 2), np.sin(t / 2)
    return np.array([[c, -1j * s], [-1j * s, c]])


def _drx(t: float) -> np.ndarray:
    c, s = np.cos(t / 2), np.sin(t / 2)
    return np.array([[[-s / 2, -1j * c / 2], [-1j * c / 2, -s / 2]]])


def _ry(t: float) -> np.ndarray:
    c, s = np.cos(t / 2), np.sin(t / 2)
    return np.array([[c, -s], [s, c]], dtype=complex)


def _dry(t: float) -> np.ndarray:
    c, s = np.cos(t / 2), np.sin(t / 2)
    return np.array([[[-s / 2, -c / 2], [c / 2, -s / 2]]], dtype=complex)


def _rz(t: float) -> np.ndarray:
    return np.diag([np.exp(-0.5j * t), np.exp(0.5j * t)])


def _drz(t: float) -> np.ndarray:
    return np.array([np.diag([-0.5j * np.exp(-0.5j * t), 0.5j * np.exp(0.5j * t)])])


def _u1(l: float) -> np.ndarray:
    return np.diag([1.0 + 0j, np.exp(1j * l)])


def _du1(l: float) -> np.ndarray:
    return np.array([np.diag([0j, 1j * np.exp(1j * l)])])


def _u2(f: float, l: float) -> np.ndarray:
    r = 1 / np.sqrt(2)
    return r * np.array([[1, -np.exp(1j * l)], [np.exp(1j * f), np.exp(1j * (f + l))]])


def _du2(f: float, l: float) -> np.ndarray:
    r = 1 / np.sqrt(2)
    return r * np.array([
        [[0, 0], [1j * np.exp(1j * f), 1j * np.exp(1j * (f + l))]],
        [[0, -1j * np.exp(1j * l)], [0, 1j * np.exp(1j * (f + l))]],
    ])


def _u3(t: float, f: float, l: float) -> np.ndarray:
    c, s = np.cos(t / 2), np.sin(t / 2)
    return np.array([
        [c, -np.exp(1j * l) * s],
        [np.exp(1j * f) * s, np.exp(1j * (f + l)) * c],
    ])


def _du3(t: float, f: float, l: float) -> np.ndarray:
    c, s = np.cos(t / 2), np.sin(t / 2)
    el, ef, efl = np.exp(1j * l), np.exp(1j * f), np.exp(1j * (f + l))
    return np.array([
        [[-s / 2, -el * c / 2], [ef * c / 2, -efl * s / 2]],
        [[0, 0], [1j * ef * s, 1j * efl * c]],
        [[0, -1j * el * s], [0, 1j * efl * c]],
    ])


def _rzz(t: float) -> np.ndarray:
    a, b = np.exp(-0.5j * t), np.exp(0.5j * t)
    return np.diag([a, b, b, a])


def _drzz(t: float) -> np.ndarray:
    a, b = -0.5j * np.exp(-0.5j * t), 0.5j * np.exp(0.5j * t)
    return np.array([np.diag([a, b, b, a])])


def _rpp(P: np.ndarray) -> tuple[Callable[..., np.ndarray], Callable[..., np.ndarray]]:
    def u(t: float) -> np.ndarray:
        return np.cos(t / 2) * _I4 - 1j * np.sin(t / 2) * P

    def du(t: float) -> np.ndarray:
        return np.array([-np.sin(t / 2) / 2 * _I4 - 0.5j * np.cos(t / 2) * P])
    return u, du


def _ctrl(u: Callable[..., np.ndarray], du: Callable[..., np.ndarray]) -> tuple[Any, Any]:
    def cu(*a: float) -> np.ndarray:
        m = np.eye(4, dtype=complex)
        m[2:, 2:] = u(*a)
        return m

    def dcu(*a: float) -> np.ndarray:
        g = du(*a)
        out = np.zeros((len(g), 4, 4), dtype=complex)
        out[:, 2:, 2:] = g
        return out
    return cu, dcu


def _cp(t: float) -> np.ndarray:
    return np.diag([1, 1, 1, np.exp(1j * t)])


def _dcp(t: float) -> np.ndarray:
    return np.array([np.diag([0, 0, 0, 1j * np.exp(1j * t)])])


def _qt_rot(t: float, f: float) -> np.ndarray:
    """Qutrit: rotation in the {0,1} subspace about cos f X + sin f Y."""
    c, s = np.cos(t / 2), np.sin(t / 2)
    m = np.eye(3, dtype=complex)
    m[0, 0] = c
    m[1, 1] = c
    m[0, 1] = -1j * np.exp(-1j * f) * s
    m[1, 0] = -1j * np.exp(1j * f) * s
    return m


def _dqt_rot(t: float, f: float) -> np.ndarray:
    c, s = np.cos(t / 2), np.sin(t / 2)
    g = np.zeros((2, 3, 3), dtype=complex)
    g[0, 0, 0] = -s / 2
    g[0, 1, 1] = -s / 2
    g[0, 0, 1] = -0.5j * np.exp(-1j * f) * c
    g[0, 1, 0] = -0.5j * np.exp(1j * f) * c
    g[1, 0, 1] = -np.exp(-1j * f) * s
    g[1, 1, 0] = np.exp(1j * f) * s
    return g


def _qt_ph(a: float, b: float) -> np.ndarray:
    return np.diag([1.0 + 0j, np.exp(1j * a), np.exp(1j * b)])


def _dqt_ph(a: float, b: float) -> np.ndarray:
    return np.array([
        np.diag([0j, 1j * np.exp(1j * a), 0j]),
        np.diag([0j, 0j, 1j * np.exp(1j * b)]),
    ])


def _cph23(a: float) -> np.ndarray:
    """qubit (x) qutrit: phase e^{ia} on |1,2>, e^{-ia} on |1,1>."""
    return np.diag([1, 1, 1, 1, np.exp(-1j * a), np.exp(1j * a)]).astype(complex)


def _dcph23(a: float) -> np.ndarray:
    return np.array([np.diag([0, 0, 0, 0, -1j * np.exp(-1j * a), 1j * np.exp(1j * a)])])


_RXX = _rpp(_XX)
_RYY = _rpp(_YY)
_CRX = _ctrl(_rx, _drx)
_CRY = _ctrl(_ry, _dry)
_CRZ = _ctrl(_rz, _drz)

# kind -> (radixes, num_params, unitary fn, gradient fn, library twin name)
PY_SPECS: dict[str, tuple[tuple[int, ...], int, Any, Any, str | None]] = {
    'rx': ((2,), 1, _rx, _drx, 'RXGate'),
    'ry': ((2,), 1, _ry, _dry, 'RYGate'),
    'rz': ((2,), 1, _rz, _drz, 'RZGate'),
    'u1': ((2,), 1, _u1, _du1, 'U1Gate'),
    'u2': ((2,), 2, _u2, _du2, 'U2Gate'),
    'u3': ((2,), 3, _u3, _du3, 'U3Gate'),
    'rzz': ((2, 2), 1, _rzz, _drzz, 'RZZGate'),
    'rxx': ((2, 2), 1, _RXX[0], _RXX[1], 'RXXGate'),
    'ryy': ((2, 2), 1, _RYY[0], _RYY[1], 'RYYGate'),
    'crx': ((2, 2), 1, _CRX[0], _CRX[1], 'CRXGate'),
    'cry': ((2, 2), 1, _CRY[0], _CRY[1], 'CRYGate'),
    'crz': ((2, 2), 1, _CRZ[0], _CRZ[1], 'CRZGate'),
    'cp': ((2, 2), 1, _cp, _dcp, 'CPGate'),
    'qtrot': ((3,), 2, _qt_rot, _dqt_rot, None),
    'qtph': ((3,), 2, _qt_ph, _dqt_ph, None),
    'cph23': ((2, 3), 1, _cph23, _dcph23, None),
}
TWIN_OF = {v[4]: k for k, v in PY_SPECS.items() if v[4]}


class PyGate(Gate):
    """A gate evaluated only by the hand-written Python closed forms above."""

    def __init__(self, kind: str) -> None:
        rad, n, _, _, _ = PY_SPECS[kind]
        self.kind = kind
        self._radixes = tuple(rad)
        self._num_qudits = len(rad)
        self._num_params = n
        self._name = 'VerifPy_%s' % kind
        self._qasm_name = 'verifpy_%s' % kind

    def get_unitary(self, params: Sequence[float] = []) -> UnitaryMatrix:
        self.check_parameters(params)
        PY_CALLS['unitary'] += 1
        m = PY_SPECS[self.kind][2](*[float(x) for x in params])
        return UnitaryMatrix(m, self._radixes, False)

    def get_grad(self, params: Sequence[float] = []) -> np.ndarray:
        self.check_parameters(params)
        PY_CALLS['grad'] += 1
        return np.asarray(
            PY_SPECS[self.kind][3](*[float(x) for x in params]),
            dtype=np.complex128,
        )

    def get_unitary_and_grad(self, params: Sequence[float] = []) -> tuple[UnitaryMatrix, np.ndarray]:
        return self.get_unitary(params), self.get_grad(params)

    def is_differentiable(self) -> bool:
        return True

    def __eq__(self, other: object) -> bool:
        return isinstance(other, PyGate) and other.kind == self.kind

    def __hash__(self) -> int:
        return hash(('VerifPyGate', self.kind))

    def __reduce__(self) -> tuple[Any, Any]:
        return (PyGate, (self.kind,))


def py_twin(circuit: Circuit) -> tuple[Circuit, int]:
    """Copy of `circuit` in which every library gate that has a hand-written
    twin is replaced by the PyGate (nested CircuitGates are rebuilt).
    Returns (twin, number of replaced operations)."""
    out = Circuit(circuit.num_qudits, circuit.radixes)
    n = 0
    for op in circuit:
        g = op.gate
        nm = type(g).__name__
        if nm in TWIN_OF:
            out.append_gate(PyGate(TWIN_OF[nm]), op.location, op.params)
            n += 1
        elif isinstance(g, CircuitGate):
            sub, k = py_twin(g._circuit)
            n += k
            out.append_gate(CircuitGate(sub), op.location, op.params)
        else:
            out.append_gate(g, op.location, op.params)
    return out, n


# ------------------------------------------------------------ structure
def gate_key(g: Gate) -> str:
    if isinstance(g, ConstantUnitaryGate):
        return 'ConstU%s#%s' % (
            list(g.radixes),
            refsim_hash(np.asarray(g.get_unitary())),
        )
    if isinstance(g, CircuitGate):
        return 'CircuitGate[' + ';'.join(
            '%s@%s' % (gate_key(o.gate), list(o.location)) for o in g._circuit
        ) + ']'
    return repr(g)


def refsim_hash(m: np.ndarray) -> str:
    import hashlib
    return hashlib.sha1(np.round(m, 10).tobytes()).hexdigest()[:10]


def structure(circuit: Circuit) -> list[Any]:
    """Everything but parameter values: radixes, then (cycle, gate,
    location) in iteration order."""
    out: list[Any] = [list(circuit.radixes), circuit.num_cycles]
    for cyc, op in circuit.operations_with_cycles():
        out.append([int(cyc), gate_key(op.gate), [int(q) for q in op.location], len(op.params)])
    return out


def grid_of(circuit: Circuit) -> list[list[Any]]:
    """grid[cycle][qudit] = operation or None, through the public point API."""
    g = []
    for c in range(circuit.num_cycles):
        row = []
        for q in range(circuit.num_qudits):
            if circuit.is_point_idle((c, q)):
                row.append(None)
            else:
                row.append(circuit.get_operation((c, q)))
        g.append(row)
    return g


def grid_ops(grid: list[list[Any]]) -> list[tuple[int, Any]]:
    """Distinct (cycle, op) of a grid in (cycle, first qudit) order."""
    out = []
    for c, row in enumerate(grid):
        seen: set[int] = set()
        for q, op in enumerate(row):
            if op is None or id(op) in seen:
                continue
            seen.add(id(op))
            out.append((c, op))
    return out


# ------------------------------------------------------------ random edits
def _rand_gate_for(
    rng: np.random.Generator, lr: Sequence[int], allow_variable: bool = True,
) -> tuple[Gate, list[float]]:
    k = len(lr)
    r = rng.random()
    if all(x == 2 for x in lr) and k <= 3 and r < 0.6:
        pool = {1: gen.Q1, 2: gen.Q2, 3: gen.Q3}[k]
        g = pool[int(rng.integers(len(pool)))]
        return g, gen.rand_params(rng, g.num_params)
    if allow_variable and r < 0.8 and refsim.dim_of(lr) <= 9:
        g = VariableUnitaryGate(k, list(lr))
        u = np.asarray(gen.haar(rng, lr))
        return g, list(np.real(u).flatten()) + list(np.imag(u).flatten())
    return gen.random_unitary_gate(rng, lr), []


def random_edits(
    rng: np.random.Generator, circuit: Circuit, n_edits: int,
    counts: dict[str, int], allow_variable: bool = True,
) -> tuple[Circuit, list[Any]]:
    """Apply up to `n_edits` structural edits; every edit is tried on a copy
    and kept only if it did not raise (failures of the editing calls
    themselves belong to C04/C05, not here). `renumber_qudits` can only be
    the last edit (pops after it hit a separately known defect)."""
    log: list[Any] = []
    c = circuit
    n = c.num_qudits
    radixes = list(c.radixes)

    def bump(k: str) -> None:
        counts[k] = counts.get(k, 0) + 1

    for e in range(n_edits):
        kinds = ['insert', 'pop', 'replace', 'fold', 'unfold', 'freeze', 'append']
        if e == n_edits - 1:
            kinds.append('renumber')
        kind = str(rng.choice(kinds))
        c2 = c.copy()
        try:
            pts = [(cy, op.location[0]) for cy, op in c2.operations_with_cycles()]
            if kind in ('pop', 'replace', 'fold', 'unfold') and not pts:
                continue
            if kind == 'insert' or kind == 'append':
                k = int(rng.integers(1, min(3, n) + 1))
                loc = gen.rand_location(rng, n, k)
                g, ps = _rand_gate_for(rng, [radixes[q] for q in loc], allow_variable)
                if kind == 'append' or c2.num_cycles == 0:
                    c2.append_gate(g, loc, ps)
                    log.append(['append', repr(g)[:40], list(loc)])
                else:
                    cy = int(rng.integers(0, c2.num_cycles))
                    c2.insert_gate(cy, g, loc, ps)
                    log.append(['insert', cy, repr(g)[:40], list(loc)])
            elif kind == 'pop':
                pt = pts[int(rng.integers(len(pts)))]
                c2.pop(pt)
                log.append(['pop', list(pt)])
            elif kind == 'replace':
                pt = pts[int(rng.integers(len(pts)))]
                op = c2[pt]
                g, ps = _rand_gate_for(rng, [radixes[q] for q in op.location], allow_variable)
                c2.replace_gate(pt, g, op.location, ps)
                log.append(['replace', list(pt), repr(g)[:40]])
            elif kind == 'fold':
                pt = pts[int(rng.integers(len(pts)))]
                width = int(rng.integers(len(c2[pt].location), min(n, 3) + 1)) \
                    if len(c2[pt].location) <= min(n, 3) else len(c2[pt].location)
                region = c2.surround(pt, width)
                c2.fold(region)
                log.append(['fold', list(pt), {int(q): list(iv) for q, iv in region.items()}])
            elif kind == 'unfold':
                cg = [
                    (cy, op.location[0]) for cy, op in c2.operations_with_cycles()
                    if isinstance(op.gate, CircuitGate)
                ]
                if not cg:
                    continue
                pt = cg[int(rng.integers(len(cg)))]
                c2.unfold(pt)
                log.append(['unfold', list(pt)])
            elif kind == 'freeze':
                if c2.num_params == 0:
                    continue
                i = int(rng.integers(c2.num_params))
                c2.freeze_param(i)
                log.append(['freeze', i])
            elif kind == 'renumber':
                # only permutations that keep every qudit's radix
                perm = list(range(n))
                for _ in range(6):
                    cand = [int(x) for x in rng.permutation(n)]
                    if all(radixes[cand[q]] == radixes[q] for q in range(n)):
                        perm = cand
                        break
                c2.renumber_qudits(perm)
                log.append(['renumber', perm])
            c = c2
            bump('edit:' + kind)
        except Exception as ex:  # noqa: the edit itself failed (C04/C05)
            bump('edit_raised:' + kind)
            log.append(['raised', kind, type(ex).__name__])
    return c, log


# ------------------------------------------------------------ wrappers
import contextlib
import os as _os


@contextlib.contextmanager
def quiet_stderr() -> Any:
    """Silence fd 2 for the duration (a native panic prints a long Rust
    backtrace there); the exception itself still propagates."""
    try:
        saved = _os.dup(2)
        devnull = _os.open(_os.devnull, _os.O_WRONLY)
    except OSError:
        yield
        return
    try:
        _os.dup2(devnull, 2)
        yield
    finally:
        _os.dup2(saved, 2)
        _os.close(saved)
        _os.close(devnull)

class StartRecorder:
    """Record-and-return wrapper on the per-start `instantiate` of the
    instantiater classes. Never raises into the code under observation."""

    def __init__(self) -> None:
        self.records: list[dict[str, Any]] = []
        self.evaluations = 0
        self._undo: list[tuple[Any, str, Any]] = []

    def install(self, classes: Sequence[type]) -> None:
        for cls in classes:
            orig = cls.__dict__.get('instantiate')
            if orig is None:
                continue
            rec = self

            def make(orig: Any, cls: type) -> Any:
                @functools.wraps(orig)
                def wrapper(self_: Any, circuit: Any, target: Any, x0: Any) -> Any:
                    result = orig(self_, circuit, target, x0)
                    try:
                        rec.evaluations += 1
                        rec.records.append({
                            'cls': cls.__name__,
                            'circuit_id': id(circuit),
                            'x0': np.array(x0, dtype=float, copy=True),
                            'result': np.array(result, dtype=float, copy=True),
                        })
                    except Exception:  # noqa: never disturb the callee
                        pass
                    return result
                return wrapper
            setattr(cls, 'instantiate', make(orig, cls))
            self._undo.append((cls, 'instantiate', orig))

    def uninstall(self) -> None:
        for cls, name, orig in self._undo:
            setattr(cls, name, orig)
        self._undo = []

    def take(self) -> list[dict[str, Any]]:
        r = self.records
        self.records = []
        return r
