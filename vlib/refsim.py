"""Independent reference simulator and equivalence oracles.

Shares no code with bqskit's UnitaryBuilder / StateVector / native engines:
plain numpy tensor contractions with qudit 0 as the most significant factor.
A second (slow) implementation via explicit Kronecker products and an
index-arithmetic permutation cross-checks the first on every Nth call.
"""
from __future__ import annotations

import itertools
from typing import Any
from typing import Iterable
from typing import Sequence

import numpy as np

_calls = 0
SELF_CHECK_EVERY = 50
self_checks = 0


def dim_of(radixes: Sequence[int]) -> int:
    d = 1
    for r in radixes:
        d *= int(r)
    return d


def perm_matrix(radixes: Sequence[int], order: Sequence[int]) -> np.ndarray:
    """
    Matrix P with P|x_0..x_{n-1}> = |x_{order[0]} .. x_{order[n-1]}>, the
    output register having radixes[order[i]] at position i. Index arithmetic.
    """
    n = len(radixes)
    d = dim_of(radixes)
    out_rad = [radixes[o] for o in order]
    P = np.zeros((d, d))
    for digits in itertools.product(*[range(r) for r in radixes]):
        src = 0
        for r, x in zip(radixes, digits):
            src = src * r + x
        dst = 0
        for i in range(n):
            dst = dst * out_rad[i] + digits[order[i]]
        P[dst, src] = 1.0
    return P


def embed_slow(
    op: np.ndarray, location: Sequence[int], radixes: Sequence[int],
) -> np.ndarray:
    """Full-space matrix of `op` acting on `location` (Kronecker + perms)."""
    n = len(radixes)
    loc = list(location)
    rest = [q for q in range(n) if q not in loc]
    order = loc + rest
    P = perm_matrix(radixes, order)  # brings loc to the front
    d_rest = dim_of([radixes[q] for q in rest])
    big = np.kron(op, np.eye(d_rest))
    return P.T @ big @ P


def apply(
    op: np.ndarray, location: Sequence[int], radixes: Sequence[int],
    tensor: np.ndarray,
) -> np.ndarray:
    """
    Left-multiply `tensor` (shape (D, k)) by `op` acting on `location`.
    """
    global _calls, self_checks
    n = len(radixes)
    D = dim_of(radixes)
    k = tensor.shape[1]
    loc = [int(q) for q in location]
    m = len(loc)
    lr = [radixes[q] for q in loc]
    t = tensor.reshape(list(radixes) + [k])
    o = np.asarray(op).reshape(lr + lr)
    # contract op's input axes (m..2m-1) with t's axes loc
    r = np.tensordot(o, t, axes=(list(range(m, 2 * m)), loc))
    # result axes: op outputs (in loc order) then remaining t axes in order
    rest = [q for q in range(n) if q not in loc]
    cur = loc + rest + [n]
    # move to natural order
    perm = [cur.index(a) for a in range(n + 1)]
    r = np.transpose(r, perm).reshape(D, k)
    _calls += 1
    if _calls % SELF_CHECK_EVERY == 0 and D <= 256:
        slow = embed_slow(np.asarray(op), loc, radixes) @ tensor
        if not np.allclose(slow, r, atol=1e-9):
            raise AssertionError('refsim self-check failed')
        self_checks += 1
    return r


def op_items(circuit: Any) -> list[tuple[np.ndarray, tuple[int, ...]]]:
    """(matrix, location) of every operation of a bqskit Circuit, in
    iteration order, each from the operation's own get_unitary()."""
    out = []
    for op in circuit:
        out.append((np.asarray(op.get_unitary()), tuple(op.location)))
    return out


def unitary_of_items(
    items: Iterable[tuple[np.ndarray, Sequence[int]]], radixes: Sequence[int],
) -> np.ndarray:
    D = dim_of(radixes)
    U = np.eye(D, dtype=np.complex128)
    for m, loc in items:
        U = apply(m, loc, radixes, U)
    return U


def unitary(circuit: Any) -> np.ndarray:
    return unitary_of_items(op_items(circuit), list(circuit.radixes))


def state_of_items(
    items: Iterable[tuple[np.ndarray, Sequence[int]]], radixes: Sequence[int],
    psi: np.ndarray,
) -> np.ndarray:
    v = np.asarray(psi, dtype=np.complex128).reshape(-1, 1)
    for m, loc in items:
        v = apply(m, loc, radixes, v)
    return v.reshape(-1)


def cost1(A: np.ndarray, B: np.ndarray) -> float:
    """1 - |tr(A^dagger B)|/d : the degree-1 Hilbert-Schmidt cost BQSKit's
    success thresholds use."""
    A = np.asarray(A)
    B = np.asarray(B)
    d = A.shape[0]
    return float(max(0.0, 1.0 - abs(np.trace(A.conj().T @ B)) / d))


def dist2(A: np.ndarray, B: np.ndarray) -> float:
    """sqrt(1 - |tr|^2/d^2): bqskit's get_distance_from (degree 2)."""
    A = np.asarray(A)
    B = np.asarray(B)
    d = A.shape[0]
    x = abs(np.trace(A.conj().T @ B)) / d
    return float(np.sqrt(max(0.0, 1.0 - x * x)))


def phase_aligned_diff(A: np.ndarray, B: np.ndarray) -> float:
    """max |A - e^{i phi} B| with the best global phase."""
    A = np.asarray(A)
    B = np.asarray(B)
    t = np.vdot(B.reshape(-1), A.reshape(-1))
    ph = t / abs(t) if abs(t) > 1e-14 else 1.0
    return float(np.max(np.abs(A - ph * B)))


def embedding(
    pmap: Sequence[int], log_radixes: Sequence[int], phys_radixes: Sequence[int],
) -> np.ndarray:
    """
    Isometry E: logical space -> physical space placing logical qudit i on
    physical qudit pmap[i]; every other physical qudit in |0>.
    """
    dl = dim_of(log_radixes)
    dp = dim_of(phys_radixes)
    E = np.zeros((dp, dl))
    npq = len(phys_radixes)
    for digits in itertools.product(*[range(r) for r in log_radixes]):
        src = 0
        for r, x in zip(log_radixes, digits):
            src = src * r + x
        pd = [0] * npq
        for i, x in enumerate(digits):
            pd[pmap[i]] = x
        dst = 0
        for r, x in zip(phys_radixes, pd):
            dst = dst * r + x
        E[dst, src] = 1.0
    return E


def mapped_cost(
    U_in: np.ndarray, U_out: np.ndarray, pi: Sequence[int], pf: Sequence[int],
    log_radixes: Sequence[int], phys_radixes: Sequence[int],
) -> tuple[float, float]:
    """
    C01/C09 statement: V = U_out E(pi) vs W = E(pf) U_in.
    Returns (1 - |tr(V^dagger W)|/d_in, leakage = ||(1-Pi_pf) V||_F/sqrt(d)).
    """
    Ei = embedding(pi, log_radixes, phys_radixes)
    Ef = embedding(pf, log_radixes, phys_radixes)
    V = U_out @ Ei
    W = Ef @ U_in
    d = U_in.shape[0]
    c = 1.0 - abs(np.trace(V.conj().T @ W)) / d
    proj = Ef @ Ef.conj().T
    leak = np.linalg.norm(V - proj @ V) / np.sqrt(d)
    return float(max(0.0, c)), float(leak)


def is_unitary(U: np.ndarray, tol: float = 1e-9) -> bool:
    U = np.asarray(U)
    if U.ndim != 2 or U.shape[0] != U.shape[1]:
        return False
    return bool(np.allclose(U.conj().T @ U, np.eye(U.shape[0]), atol=tol))
