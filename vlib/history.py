"""Circuit editing-history engine (C04, C05; circuits for C06/C08/C16).

One engine, two oracles:

* C04 (step-wise transition check): before every call the real circuit's
  grid is read through the public read API; a plain list-of-cycles model
  computes, from the call's *documented* meaning, the per-qudit operation
  sequences expected after the call; after the call the real grid (and,
  separately, iteration) must show exactly these, return values must match,
  and refsim confirms the unitary relations.  The model is then
  re-synchronised to the real grid, so layout freedom never accumulates.
* C05 (view invariants): after every call -- raising or not -- grid,
  next/prev/front/rear/first_on/last_on, counters, coupling graph, depth,
  iteration orders and copy/== must describe the same set of operations,
  and a call whose arguments the model deems valid must not fail with an
  internal error.  At the end of a history every operation is popped.

Histories are lists of JSON-able calls (gates as recipes), so a failing
history can be shrunk (delta debugging on the call list, same `kind` must
still fire) and replayed.
"""
from __future__ import annotations

import itertools
import json
import operator
import signal
import traceback
from collections import Counter
from typing import Any
from typing import Callable
from typing import Iterable
from typing import Sequence

import numpy as np

import bqskit.ir.gates as G
from bqskit.ir.circuit import Circuit
from bqskit.ir.gates import CircuitGate
from bqskit.ir.gates import ConstantUnitaryGate
from bqskit.ir.gates import DaggerGate
from bqskit.ir.gates import FrozenParameterGate
from bqskit.ir.gates import VariableUnitaryGate
from bqskit.ir.operation import Operation

from vlib import core
from vlib import gen as vgen
from vlib import refsim

# --------------------------------------------------------------------------
# gate / circuit recipes (JSON-able, rebuildable)
# --------------------------------------------------------------------------
LIB1 = [
    'HGate', 'XGate', 'TGate', 'SXGate', 'ZGate', 'SGate', 'U3Gate',
    'RZGate', 'RXGate', 'RYGate', 'U1Gate',
]
LIB2 = ['CNOTGate', 'CZGate', 'CPGate', 'RZZGate', 'SwapGate', 'ISwapGate']
LIB3 = ['CCXGate']
_gate_cache: dict[str, Any] = {}


def build_gate(r: Sequence[Any]) -> Any:
    key = json.dumps(r, sort_keys=True)
    g = _gate_cache.get(key)
    if g is not None:
        return g
    kind = r[0]
    if kind == 'lib':
        g = getattr(G, r[1])(*r[2])
    elif kind == 'cu':
        rad = [int(x) for x in r[1]]
        g = ConstantUnitaryGate(
            vgen.haar(np.random.default_rng([int(r[2])] + rad), rad), rad,
        )
    elif kind == 'vu':
        rad = [int(x) for x in r[1]]
        g = VariableUnitaryGate(len(rad), rad)
    elif kind == 'id':
        rad = [int(x) for x in r[1]]
        g = G.IdentityGate(len(rad), rad)
    elif kind == 'frozen':
        g = FrozenParameterGate(
            build_gate(r[1]), {int(i): float(v) for i, v in r[2]},
        )
    elif kind == 'block':
        g = CircuitGate(build_circuit(r[1]))
    else:
        raise ValueError('unknown gate recipe %r' % (r,))
    if len(_gate_cache) > 4000:
        _gate_cache.clear()
    _gate_cache[key] = g
    return g


def build_circuit(spec: dict[str, Any]) -> Circuit:
    """{'radixes': [...], 'ops': [[recipe, loc, params, cycle|None], ...]}"""
    rad = [int(x) for x in spec['radixes']]
    c = Circuit(len(rad), rad)
    for item in spec['ops']:
        g, loc, p = item[0], item[1], item[2]
        cyc = item[3] if len(item) > 3 else None
        gate = build_gate(g)
        if cyc is None:
            c.append_gate(gate, [int(q) for q in loc], [float(x) for x in p])
        else:
            c.insert_gate(
                int(cyc), gate, [int(q) for q in loc], [float(x) for x in p],
            )
    return c


def rand_gate_recipe(rng: np.random.Generator, lr: Sequence[int]) -> list[Any]:
    """A gate recipe whose radixes are exactly `lr`."""
    k = len(lr)
    lr = [int(x) for x in lr]
    r = rng.random()
    if k > 3:
        return ['cu', lr, int(rng.integers(1, 40))] if int(np.prod(lr)) <= 32 else ['id', lr]
    if all(x == 2 for x in lr) and r < 0.8:
        pool = {1: LIB1, 2: LIB2, 3: LIB3}[k]
        return ['lib', str(pool[int(rng.integers(len(pool)))]), []]
    if k == 1 and r < 0.9:
        nm = ['HGate', 'ShiftGate', 'ClockGate'][int(rng.integers(3))]
        # (HGate() and HGate(2) are distinct cached instances that do not
        # compare equal; one canonical spelling per gate keeps the harness's
        # notion of "same gate" aligned with the repository's)
        return ['lib', nm, [] if (nm == 'HGate' and lr[0] == 2) else [lr[0]]]
    if k == 2 and lr[0] == lr[1] and r < 0.9:
        nm = ['CSUMGate', 'SwapGate'][int(rng.integers(2))]
        return ['lib', nm, [] if (nm == 'SwapGate' and lr[0] == 2) else [lr[0]]]
    d = int(np.prod(lr))
    x = rng.random()
    if x < 0.2 and d <= 6:
        return ['vu', lr]
    if x < 0.3:
        return ['id', lr]
    return ['cu', lr, int(rng.integers(1, 40))]


def rand_params(rng: np.random.Generator, n: int) -> list[float]:
    if n == 0:
        return []
    if rng.random() < 0.15:
        return [float(rng.choice([0.0, np.pi, np.pi / 2])) for _ in range(n)]
    return [round(float(x), 6) for x in rng.uniform(-3.1, 3.1, n)]


def rand_loc(
    rng: np.random.Generator, n: int, kmax: int = 3,
) -> list[int]:
    kmax = min(kmax, n)
    w = np.array([0.5, 0.4, 0.1][:kmax])
    k = int(rng.choice(np.arange(1, kmax + 1), p=w / w.sum()))
    return [int(x) for x in rng.choice(n, size=k, replace=False)]


def rand_op_spec(
    rng: np.random.Generator, radixes: Sequence[int], kmax: int = 3,
) -> dict[str, Any]:
    loc = rand_loc(rng, len(radixes), kmax)
    g = rand_gate_recipe(rng, [radixes[q] for q in loc])
    return {'g': g, 'loc': loc, 'p': rand_params(rng, build_gate(g).num_params)}


def rand_circ_spec(
    rng: np.random.Generator, radixes: Sequence[int], nops: int,
    inserts: bool = True,
) -> dict[str, Any]:
    ops = []
    for _ in range(nops):
        s = rand_op_spec(rng, radixes)
        cyc = None
        if inserts and rng.random() < 0.2:
            cyc = int(rng.integers(0, 3))
        ops.append([s['g'], s['loc'], s['p'], cyc])
    return {'radixes': [int(x) for x in radixes], 'ops': ops}


# --------------------------------------------------------------------------
# structural descriptors of gates and operations (harness-side identity)
# --------------------------------------------------------------------------
_key_cache: dict[int, tuple[Any, Any]] = {}


def gate_key(g: Any) -> Any:
    hit = _key_cache.get(id(g))
    if hit is not None and hit[0] is g:
        return hit[1]
    if isinstance(g, CircuitGate):
        k: Any = (
            'CGS', tuple(g.radixes), tuple(
                (gate_key(op.gate), tuple(op.location), op.num_params)
                for op in g._circuit
            ),
        )
    elif isinstance(g, FrozenParameterGate):
        k = (
            'F', gate_key(g.gate), tuple(
                sorted((int(i), float(v)) for i, v in g.frozen_params.items())
            ),
        )
    elif isinstance(g, DaggerGate):
        k = ('D', gate_key(g.gate))
    elif isinstance(g, ConstantUnitaryGate):
        m = np.round(np.asarray(g.get_unitary()), 9)
        k = ('CU', tuple(g.radixes), core.sig_of([m.real.tolist(), m.imag.tolist()]))
    else:
        k = ('G', type(g).__name__, tuple(g.radixes), g.num_params, g.name)
    if len(_key_cache) > 20000:
        _key_cache.clear()
    _key_cache[id(g)] = (g, k)
    return k


def block_key(g: Any, params: Sequence[float]) -> Any:
    """('B', radixes, per-qudit sequences of inner descriptors) with the outer
    operation's parameters distributed over the inner operations in the inner
    circuit's iteration order (that is what CircuitGate's params mean)."""
    inner = g._circuit
    off: dict[tuple[int, int], tuple[int, int]] = {}
    k = 0
    for cyc, iop in inner.operations_with_cycles():
        off[(cyc, iop.location[0])] = (k, k + iop.num_params)
        k += iop.num_params
    params = list(params)
    bad = len(params) != k
    n = inner.num_qudits
    seqs: list[list[Any]] = [[] for _ in range(n)]
    for c in range(inner.num_cycles):
        done: set[int] = set()
        for q in range(n):
            if inner.is_point_idle((c, q)):
                continue
            iop = inner[c, q]
            if id(iop) in done:
                continue
            done.add(id(iop))
            a, b = off.get((c, iop.location[0]), (0, 0))
            p = params[a:b] if not bad else list(iop.params)
            d = desc_of(iop.gate, iop.location, p)
            for qq in d[1]:
                if 0 <= qq < n:
                    seqs[qq].append(d)
    tag = 'B' if not bad else 'B!'
    return (tag, tuple(g.radixes), tuple(tuple(s) for s in seqs))


def desc_of(gate: Any, loc: Iterable[int], params: Sequence[float]) -> Any:
    loc = tuple(int(q) for q in loc)
    if isinstance(gate, CircuitGate):
        return (block_key(gate, params), loc, ())
    return (gate_key(gate), loc, tuple(float(p) for p in params))


def op_desc(op: Any) -> Any:
    return desc_of(op.gate, op.location, op.params)


def is_block(d: Any) -> bool:
    return isinstance(d[0], tuple) and d[0][0] in ('B', 'B!')


def relabel(d: Any, mapping: Any) -> Any:
    return (d[0], tuple(mapping[q] for q in d[1]), d[2])


def flat_on(d: Any, q: int) -> Iterable[Any]:
    """Fully unfolded descriptors that `d` contributes to outer qudit q."""
    if not is_block(d):
        yield d
        return
    loc = d[1]
    j = loc.index(q)
    for idesc in d[0][2][j]:
        yield from flat_on(relabel(idesc, loc), q)


def flatten(seqs: Sequence[Sequence[Any]]) -> list[list[Any]]:
    return [
        [f for d in s for f in flat_on(d, q)] for q, s in enumerate(seqs)
    ]


def desc_close(a: Any, b: Any, tol: float = 1e-9) -> bool:
    if isinstance(a, float) or isinstance(b, float):
        try:
            return abs(float(a) - float(b)) <= tol * (1 + abs(float(a)))
        except (TypeError, ValueError):
            return False
    if isinstance(a, (tuple, list)) and isinstance(b, (tuple, list)):
        return len(a) == len(b) and all(
            desc_close(x, y, tol) for x, y in zip(a, b)
        )
    return bool(a == b)


def short(d: Any, depth: int = 0) -> Any:
    """JSON-able rendering of a descriptor / sequence for witnesses."""
    if isinstance(d, tuple) and len(d) == 3 and isinstance(d[1], tuple) \
            and isinstance(d[2], tuple) and isinstance(d[0], tuple):
        gk = d[0]
        if gk[0] in ('B', 'B!'):
            nm: Any = {
                'block': [
                    [short(x, depth + 1) for x in s] for s in gk[2]
                ],
            } if depth < 2 else 'block'
        elif gk[0] == 'G':
            nm = gk[1] if all(r == 2 for r in gk[2]) else \
                '%s%s' % (gk[1], list(gk[2]))
        else:
            nm = '%s:%s' % (gk[0], core.sig_of(repr(gk))[:6])
        ps = [round(float(p), 6) for p in d[2]]
        if len(ps) > 6:
            ps = ps[:6] + ['...%d more' % (len(ps) - 6)]
        return [nm, list(d[1]), ps]
    if isinstance(d, (list, tuple)):
        return [short(x, depth) for x in d]
    return d


# --------------------------------------------------------------------------
# snapshot of a circuit through the public read API
# --------------------------------------------------------------------------
class OpRec:
    __slots__ = ('cycle', 'loc', 'desc', 'obj')

    def __init__(self, cycle: int, loc: tuple[int, ...], desc: Any, obj: Any):
        self.cycle = cycle
        self.loc = loc
        self.desc = desc
        self.obj = obj


class Snap:
    """Grid of a circuit read with num_cycles / is_point_idle / circuit[c, q]
    only. cells[c][q] = index into ops or -1."""

    def __init__(self, circ: Any) -> None:
        self.n = int(circ.num_qudits)
        self.radixes = tuple(int(r) for r in circ.radixes)
        self.ncyc = int(circ.num_cycles)
        self.cells: list[list[int]] = []
        self.ops: list[OpRec] = []
        self.problems: list[tuple[str, Any]] = []
        n = self.n
        for c in range(self.ncyc):
            row = [-1] * n
            seen: dict[int, int] = {}
            for q in range(n):
                try:
                    if circ.is_point_idle((c, q)):
                        continue
                    op = circ[c, q]
                except Exception as e:  # noqa
                    self.problems.append((
                        'grid_read', {
                            'point': [c, q], 'exc': type(e).__name__,
                            'msg': str(e)[:120],
                        },
                    ))
                    continue
                i = seen.get(id(op))
                if i is None:
                    i = len(self.ops)
                    seen[id(op)] = i
                    self.ops.append(OpRec(
                        c, tuple(int(x) for x in op.location), op_desc(op), op,
                    ))
                row[q] = i
            self.cells.append(row)
        for i, r in enumerate(self.ops):
            cellset = {q for q in range(n) if self.cells[r.cycle][q] == i}
            if cellset != set(r.loc) or len(set(r.loc)) != len(r.loc):
                self.problems.append((
                    'grid_location', {
                        'cycle': r.cycle, 'cells': sorted(cellset),
                        'location': list(r.loc), 'op': short(r.desc),
                    },
                ))
            else:
                gr = tuple(r.obj.gate.radixes)
                if any(
                    gr[j] != self.radixes[q] for j, q in enumerate(r.loc)
                ):
                    self.problems.append((
                        'radix_mismatch', {
                            'cycle': r.cycle, 'location': list(r.loc),
                            'op': short(r.desc),
                        },
                    ))

    # ------------------------------------------------------------------
    def cols(self) -> list[list[int]]:
        out: list[list[int]] = [[] for _ in range(self.n)]
        for c in range(self.ncyc):
            row = self.cells[c]
            for q in range(self.n):
                if row[q] >= 0:
                    out[q].append(row[q])
        return out

    def seqs(self) -> list[list[Any]]:
        return [[self.ops[i].desc for i in col] for col in self.cols()]

    def cycle_ops(self, c: int) -> list[int]:
        out: list[int] = []
        for i in self.cells[c]:
            if i >= 0 and i not in out:
                out.append(i)
        return out

    def at(self, c: int, q: int) -> int:
        if 0 <= c < self.ncyc and 0 <= q < self.n:
            return self.cells[c][q]
        return -1

    def lm(self) -> list[list[tuple[Any, Any]]]:
        """list-of-cycles model: cycles of (descriptor, matrix source)."""
        return [
            [(self.ops[i].desc, self.ops[i].obj) for i in self.cycle_ops(c)]
            for c in range(self.ncyc)
        ]

    def render(self) -> Any:
        return {
            'radixes': list(self.radixes),
            'cycles': [
                [short(self.ops[i].desc) for i in self.cycle_ops(c)]
                for c in range(self.ncyc)
            ],
        }


def lm_seqs(lm: Sequence[Sequence[tuple[Any, Any]]], n: int) -> list[list[Any]]:
    seqs: list[list[Any]] = [[] for _ in range(n)]
    for cyc in lm:
        for d, _ in cyc:
            for q in d[1]:
                seqs[q].append(d)
    return seqs


def seqs_equal(a: Sequence[Sequence[Any]], b: Sequence[Sequence[Any]]) -> bool:
    if len(a) != len(b):
        return False
    for x, y in zip(a, b):
        if len(x) != len(y):
            return False
        if x != y and not desc_close(tuple(x), tuple(y)):
            return False
    return True


# --------------------------------------------------------------------------
# C05: view invariants, computed from the grid, public read API only
# --------------------------------------------------------------------------
def _pt(p: Any) -> tuple[int, int]:
    return (int(p[0]), int(p[1]))


def check_views(
    circ: Any, S: Snap, full: bool = True, with_copy: bool = False,
    heavy: bool = True,
) -> list[tuple[str, Any]]:
    """Returns a list of (view name, detail) inconsistencies."""
    bad: list[tuple[str, Any]] = list(S.problems)
    n, ncyc = S.n, S.ncyc
    for c in range(ncyc):
        if all(i < 0 for i in S.cells[c]):
            bad.append(('idle_cycle', {'cycle': c, 'num_cycles': ncyc}))
    if not full or S.problems:
        return bad
    cols = S.cols()
    ops = S.ops
    point_of = [(r.cycle, r.loc[0]) for r in ops]
    pos = [{i: k for k, i in enumerate(col)} for col in cols]

    # (c) dependency view
    for i, r in enumerate(ops):
        want_n, want_p = set(), set()
        for q in r.loc:
            if i not in pos[q]:
                continue
            k = pos[q][i]
            if k + 1 < len(cols[q]):
                want_n.add(point_of[cols[q][k + 1]])
            if k > 0:
                want_p.add(point_of[cols[q][k - 1]])
        for name, want, fn in (
            ('next', want_n, circ.next), ('prev', want_p, circ.prev),
        ):
            try:
                got = {_pt(p) for p in fn(point_of[i])}
            except Exception as e:  # noqa
                bad.append((name, {
                    'point': list(point_of[i]), 'exc': type(e).__name__,
                    'msg': str(e)[:100],
                }))
                continue
            if got != want:
                bad.append((name, {
                    'point': list(point_of[i]), 'got': sorted(got),
                    'want': sorted(want),
                }))
    for q in range(n):
        wf = point_of[cols[q][0]] if cols[q] else None
        wl = point_of[cols[q][-1]] if cols[q] else None
        for name, want, fn in (
            ('first_on', wf, circ.first_on), ('last_on', wl, circ.last_on),
        ):
            try:
                g = fn(q)
                g = None if g is None else _pt(g)
            except Exception as e:  # noqa
                bad.append((name, {'qudit': q, 'exc': type(e).__name__}))
                continue
            if g != want:
                bad.append((name, {'qudit': q, 'got': g, 'want': want}))
        try:
            if bool(circ.is_qudit_idle(q)) != (not cols[q]):
                bad.append(('is_qudit_idle', {'qudit': q}))
        except Exception as e:  # noqa
            bad.append(('is_qudit_idle', {'qudit': q, 'exc': type(e).__name__}))
    wfront = {
        point_of[i] for i, r in enumerate(ops)
        if all(pos[q].get(i, 0) == 0 for q in r.loc)
    }
    wrear = {
        point_of[i] for i, r in enumerate(ops)
        if all(pos[q].get(i, -1) == len(cols[q]) - 1 for q in r.loc)
    }
    for name, want in (('front', wfront), ('rear', wrear)):
        try:
            got = {_pt(p) for p in getattr(circ, name)}
        except Exception as e:  # noqa
            bad.append((name, {'exc': type(e).__name__, 'msg': str(e)[:100]}))
            continue
        if got != want:
            bad.append((name, {'got': sorted(got), 'want': sorted(want)}))

    # (d) counters
    def chk(name: str, fn: Callable[[], Any], want: Any) -> None:
        try:
            got = fn()
        except Exception as e:  # noqa
            bad.append((name, {'exc': type(e).__name__, 'msg': str(e)[:100]}))
            return
        if got != want:
            bad.append((name, {'got': core.jsonable(got), 'want': core.jsonable(want)}))

    nops = len(ops)
    chk('num_operations', lambda: int(circ.num_operations), nops)
    chk('len', lambda: len(circ), nops)
    chk('is_empty', lambda: bool(circ.is_empty), nops == 0)
    wcounts = Counter(gate_key(r.obj.gate) for r in ops)

    def got_counts() -> Any:
        out: Counter[Any] = Counter()
        for g, k in circ.gate_counts.items():
            out[gate_key(g)] += int(k)
        return {repr(k): v for k, v in out.items()}
    chk('gate_counts', got_counts, {repr(k): v for k, v in wcounts.items()})
    chk(
        'gate_set', lambda: sorted({repr(gate_key(g)) for g in circ.gate_set}),
        sorted({repr(k) for k in wcounts}),
    )
    chk(
        'num_params', lambda: int(circ.num_params),
        sum(len(r.obj.params) for r in ops),
    )
    chk('params_len', lambda: len(circ.params), sum(len(r.obj.params) for r in ops))
    chk(
        'active_qudits', lambda: [int(q) for q in circ.active_qudits],
        [q for q in range(n) if cols[q]],
    )
    wedges = set()
    for r in ops:
        for a, b in itertools.combinations(sorted(r.loc), 2):
            wedges.add((a, b))

    def got_edges() -> Any:
        cg = circ.coupling_graph
        e = sorted(tuple(sorted((int(a), int(b)))) for a, b in cg)
        if len(e) != len(set(e)) or int(cg.num_qudits) != n:
            return ['malformed', e, int(cg.num_qudits)]
        return e
    chk('coupling_graph', got_edges, sorted(wedges))
    d1 = [0] * n
    d2 = [0] * n
    for r in ops:  # ops are listed in cycle order
        v = max(d1[q] for q in r.loc) + 1
        for q in r.loc:
            d1[q] = v
        if len(r.loc) > 1:
            v = max(d2[q] for q in r.loc) + 1
            for q in r.loc:
                d2[q] = v
    if heavy:
        chk('depth', lambda: int(circ.depth), max(d1) if n else 0)
        chk('multi_qudit_depth', lambda: int(circ.multi_qudit_depth), max(d2) if n else 0)
    for r in (ops[:2] + ops[-1:] if heavy else []):
        want = sum(1 for x in ops if x.desc == r.desc)
        # CircuitGate.__eq__ has its own mechanism (prefix equality): keep
        # it apart from counter bookkeeping errors
        nm = 'count_op' if not isinstance(r.obj.gate, CircuitGate) else 'count_op_circuitgate'
        chk(nm, lambda r=r: int(circ.count(r.obj)), want)
        chk('contains_op', lambda r=r: bool(r.obj in circ), True)

    # (e) iteration
    def walk(name: str, mk: Callable[[], Any], reverse: bool) -> list[int] | None:
        seen: set[int] = set()
        order: list[int] = []
        last = [ncyc if reverse else -1] * n
        try:
            it = iter(mk())
            for _ in range(nops + 3):
                try:
                    cyc, op = next(it)
                except StopIteration:
                    break
                cyc = int(cyc)
                i = S.at(cyc, int(op.location[0]))
                if i < 0 or ops[i].obj is not op:
                    bad.append((name, {'problem': 'yields op not at the grid cell it reports', 'cycle': cyc, 'op': short(op_desc(op))}))
                    return None
                if i in seen:
                    bad.append((name, {'problem': 'operation yielded twice', 'point': [cyc, int(op.location[0])]}))
                    return None
                seen.add(i)
                order.append(i)
                for q in ops[i].loc:
                    if (cyc <= last[q]) if not reverse else (cyc >= last[q]):
                        bad.append((name, {'problem': 'order incompatible with qudit timeline', 'qudit': q, 'cycle': cyc, 'previous_cycle': last[q]}))
                        return None
                    last[q] = cyc
        except Exception as e:  # noqa
            bad.append((name, {'exc': type(e).__name__, 'msg': str(e)[:100], 'site': core.raising_site(e)}))
            return None
        if len(seen) != nops:
            bad.append((name, {'problem': 'not every operation yielded', 'yielded': len(seen), 'operations': nops}))
            return None
        return order

    o1 = walk('operations_with_cycles', lambda: circ.operations_with_cycles(), False)
    if ncyc > 0 and heavy:
        walk(
            'grid_iteration', lambda: circ.operations_with_cycles(
                start=(0, 0), end=(ncyc - 1, n - 1),
            ), False,
        )
        walk('reverse_iteration', lambda: circ.operations_with_cycles(reverse=True), True)
    try:
        lst = list(itertools.islice(iter(circ), nops + 3))
        if o1 is not None and [id(x) for x in lst] != [id(ops[i].obj) for i in o1]:
            bad.append(('iteration', {'problem': 'iter(circuit) differs from operations_with_cycles()'}))
        rl = list(itertools.islice(reversed(circ), nops + 3)) if heavy else None
        if rl is not None and (len(rl) != nops or {id(x) for x in rl} != {id(r.obj) for r in ops}):
            bad.append(('reversed', {'problem': 'reversed(circuit) is not a permutation of the operations', 'yielded': len(rl), 'operations': nops}))
    except Exception as e:  # noqa
        bad.append(('iteration', {'exc': type(e).__name__, 'msg': str(e)[:100]}))

    # (f) copy / == / hash
    if with_copy:
        try:
            cp = circ.copy()
            if not (cp == circ) or (cp != circ) or not (circ == cp):
                bad.append(('copy_eq', {'problem': 'copy() is not == original'}))
            S2 = Snap(cp)
            if S2.radixes != S.radixes or not seqs_equal(S2.seqs(), S.seqs()) or S2.problems:
                bad.append(('copy_grid', {'problem': 'copy() grid differs'}))
            if any(a.obj is b.obj for a, b in zip(S.ops, S2.ops)):
                bad.append(('copy_alias', {'problem': 'copy() shares Operation objects'}))
            try:
                h1, h2 = hash(circ), hash(cp)
                if h1 != h2:
                    bad.append(('hash', {'problem': 'equal circuits hash differently'}))
            except TypeError:
                pass
        except Exception as e:  # noqa
            bad.append(('copy', {'exc': type(e).__name__, 'msg': str(e)[:100], 'site': core.raising_site(e)}))
    return bad


# --------------------------------------------------------------------------
# C04: the list-of-cycles reference model (documented meaning of each call)
# --------------------------------------------------------------------------
class Invalid(Exception):
    """The model deems the arguments invalid (documented precondition)."""


class Unspecified(Exception):
    """The documentation leaves the meaning of these arguments open."""


class Unmat(Exception):
    """The call cannot be materialised in the current state (replay/shrink)."""


class Exp:
    """Expectation for one call."""

    def __init__(self, radixes: Sequence[int], lm: Any = None, options: Any = None):
        self.radixes = tuple(radixes)
        n = len(self.radixes)
        self.lm = lm
        self.options = options if options is not None else [lm_seqs(lm, n)]
        self.flat = False          # compare fully unfolded sequences only
        self.flat_too = False      # additionally require flat equality with before
        self.ret: Callable[..., Any] | None = None
        self.post: Callable[..., Any] | None = None
        self.unitary: Any = 'model'  # 'model' | 'same' | ('perm', p) | 'inverse' | None
        self.context = ''
        self.rev_options: Any = None
        self.new_circuit = False
        self.must_be_self = False


def _new_ent(gate: Any, loc: Sequence[int], params: Sequence[float]) -> tuple[Any, Any]:
    p = list(params)
    if len(p) == 0 and gate.num_params:
        p = [0.0] * gate.num_params
    return (desc_of(gate, loc, p), _MatSrc(gate, p))


class _MatSrc:
    """Matrix provider for an operation the model adds."""

    def __init__(self, gate: Any, params: Sequence[float]):
        self.gate = gate
        self.params = list(params)

    def get_unitary(self) -> Any:
        return self.gate.get_unitary(self.params)


def _is_int(x: Any) -> bool:
    return isinstance(x, (int, np.integer)) and not isinstance(x, bool)


def chk_triple(S: Snap, gate: Any, loc: Any, params: Any) -> None:
    if _is_int(loc):
        loc = [loc]
    if not isinstance(loc, (list, tuple)) or not all(_is_int(q) for q in loc):
        raise Invalid('location type')
    if any(q < 0 for q in loc) or len(set(loc)) != len(loc):
        raise Invalid('location negative/duplicate')
    if len(loc) != gate.num_qudits:
        raise Invalid('location size')
    if len(params) not in (0, gate.num_params) or (len(params) == 0 and False):
        raise Invalid('param count')
    if len(params) != gate.num_params and len(params) != 0:
        raise Invalid('param count')
    if any(q >= S.n for q in loc):
        raise Invalid('qudit out of range')
    if any(gate.radixes[j] != S.radixes[q] for j, q in enumerate(loc)):
        raise Invalid('radix mismatch')


def chk_op(S: Snap, op: Any) -> None:
    chk_triple(S, op.gate, list(op.location), list(op.params))


def norm_point(S: Snap, pt: Any, allow_negative: bool) -> tuple[int, int]:
    c, q = int(pt[0]), int(pt[1])
    if not (-S.ncyc <= c < S.ncyc and -S.n <= q < S.n):
        raise Invalid('point out of range')
    if (c < 0 or q < 0) and not allow_negative:
        raise Unspecified('negative point index')
    return (c % S.ncyc if c < 0 else c, q % S.n if q < 0 else q)


def op_at(S: Snap, pt: Any, allow_negative: bool = False) -> int:
    c, q = norm_point(S, pt, allow_negative)
    i = S.cells[c][q]
    if i < 0:
        raise Invalid('idle point')
    return i


def lm_without(S: Snap, drop: set[int]) -> list[list[tuple[Any, Any]]]:
    """Model cycles without the operations in `drop` (empty cycles kept as
    [] so that cycle indices stay meaningful; seqs ignore them)."""
    return [
        [(S.ops[i].desc, S.ops[i].obj) for i in S.cycle_ops(c) if i not in drop]
        for c in range(S.ncyc)
    ]


def clamp_insert(ncyc: int, c: int) -> int:
    """insert()'s documented clamping: position in [0, ncyc]."""
    if ncyc == 0 or c >= ncyc:
        return ncyc
    if c < -ncyc:
        return 0
    return c + ncyc if c < 0 else c


def sub_ents(sub: Any, loc: Sequence[int], flat: bool = True) -> list[tuple[Any, Any]]:
    """Operations of a sub-circuit in a linear order compatible with its
    grid, relabelled through `loc`."""
    s = Snap(sub)
    if s.problems:
        raise Unmat('sub-circuit grid inconsistent')
    return [
        (relabel(r.desc, loc), r.obj) for r in s.ops
    ]


def block_ent(sub: Any, loc: Sequence[int]) -> tuple[Any, Any]:
    s = Snap(sub)
    if s.problems:
        raise Unmat('sub-circuit grid inconsistent')
    d = (('B', tuple(s.radixes), tuple(tuple(x) for x in s.seqs())), tuple(loc), ())
    return (d, _BlockSrc(s))


class _BlockSrc:
    def __init__(self, s: Snap):
        self.items = [
            (np.asarray(r.obj.get_unitary()), r.loc) for r in s.ops
        ]
        self.radixes = list(s.radixes)

    def get_unitary(self) -> Any:
        return refsim.unitary_of_items(self.items, self.radixes)


def chk_sub(S: Snap, sub: Any, loc: Any) -> list[int]:
    if not isinstance(loc, (list, tuple)) or not all(_is_int(q) for q in loc):
        raise Invalid('location type')
    loc = [int(q) for q in loc]
    if any(q < 0 for q in loc) or len(set(loc)) != len(loc):
        raise Invalid('location negative/duplicate')
    if sub.num_qudits != len(loc):
        raise Invalid('circuit/location size')
    if any(q >= S.n for q in loc):
        raise Invalid('qudit out of range')
    if any(sub.radixes[j] != S.radixes[q] for j, q in enumerate(loc)):
        raise Invalid('radix mismatch')
    return loc


def region_info(S: Snap, region: dict[int, tuple[int, int]]) -> dict[str, Any]:
    """Model-side analysis of a region: members, validity class."""
    if len(region) == 0:
        return {'cls': 'empty'}
    for q, (lo, hi) in region.items():
        if not (0 <= q < S.n) or lo < 0 or lo > hi or hi >= S.ncyc:
            return {'cls': 'out_of_bounds'}
    members: list[int] = []
    for q, (lo, hi) in region.items():
        for c in range(lo, hi + 1):
            i = S.cells[c][q]
            if i >= 0 and i not in members:
                members.append(i)
    if not members:
        return {'cls': 'no_operations'}
    partial = False
    for i in members:
        r = S.ops[i]
        for q in r.loc:
            if q not in region or not (region[q][0] <= r.cycle <= region[q][1]):
                partial = True
    cols = S.cols()
    succ: dict[int, set[int]] = {i: set() for i in range(len(S.ops))}
    for col in cols:
        for a, b in zip(col, col[1:]):
            succ[a].add(b)
    mem = set(members)

    def reach(starts: Iterable[int], fwd: dict[int, set[int]]) -> set[int]:
        seen: set[int] = set()
        st = list(starts)
        while st:
            x = st.pop()
            for y in fwd[x]:
                if y not in seen:
                    seen.add(y)
                    st.append(y)
        return seen
    pred: dict[int, set[int]] = {i: set() for i in succ}
    for a, bs in succ.items():
        for b in bs:
            pred[b].add(a)
    after = reach(mem, succ) - mem
    before = reach(mem, pred) - mem
    convex = not (after & before)
    # operations on region qudits strictly between members must be members
    # (otherwise the region's run on a qudit is not contiguous)
    contiguous = True
    for q in {q for i in members for q in S.ops[i].loc}:
        idx = [k for k, i in enumerate(cols[q]) if i in mem]
        if idx and idx[-1] - idx[0] + 1 != len(idx):
            contiguous = False
    cls = 'valid'
    if partial:
        cls = 'partial'
    elif not convex or not contiguous:
        cls = 'not_convex'
    members.sort(key=lambda i: (S.ops[i].cycle, S.ops[i].loc))
    return {
        'cls': cls, 'members': members,
        'qudits': sorted({q for i in members for q in S.ops[i].loc}),
    }


def fold_expect(S: Snap, info: dict[str, Any]) -> tuple[Any, Any]:
    """Expected model after folding `members` into one block (valid region)."""
    members = info['members']
    qs = info['qudits']
    ren = {q: j for j, q in enumerate(qs)}
    mem = set(members)
    inner: list[list[Any]] = [[] for _ in qs]
    items = []
    for i in members:
        r = S.ops[i]
        d = relabel(r.desc, ren)
        for q in d[1]:
            inner[q].append(d)
        items.append(r)
    B = (
        ('B', tuple(S.radixes[q] for q in qs), tuple(tuple(s) for s in inner)),
        tuple(qs), (),
    )

    class Src:
        def get_unitary(self_inner) -> Any:
            return refsim.unitary_of_items(
                [(np.asarray(r.obj.get_unitary()), tuple(ren[q] for q in r.loc)) for r in items],
                [S.radixes[q] for q in qs],
            )
    # place the block at the position of the first member (any position
    # inside the run gives the same per-qudit sequences for a valid region;
    # a linear order needs: all 'before' ops, block, rest)
    first = min(S.ops[i].cycle for i in members)
    lm = lm_without(S, mem)
    # linear order for the unitary: ops that precede members transitively
    # may sit in later cycles than `first`; use a topological placement:
    # everything that is an ancestor of a member goes before the block.
    cols = S.cols()
    pred: dict[int, set[int]] = {i: set() for i in range(len(S.ops))}
    for col in cols:
        for a, b in zip(col, col[1:]):
            pred[b].add(a)
    anc: set[int] = set()
    st = list(mem)
    while st:
        x = st.pop()
        for y in pred[x]:
            if y not in anc and y not in mem:
                anc.add(y)
                st.append(y)
    pre = [
        [(S.ops[i].desc, S.ops[i].obj) for i in S.cycle_ops(c) if i in anc]
        for c in range(S.ncyc)
    ]
    post = [
        [(S.ops[i].desc, S.ops[i].obj) for i in S.cycle_ops(c) if i not in anc and i not in mem]
        for c in range(S.ncyc)
    ]
    del lm, first
    return pre + [[(B, Src())]] + post, B


# ------------------------------------------------------------ expectations
def _ret_cycle_has(d: Any) -> Callable[..., Any]:
    def f(ret: Any, A: Snap, circ: Any) -> Any:
        if not _is_int(ret):
            return {'got': repr(ret), 'want': 'cycle index (int)'}
        c = int(ret)
        if not (0 <= c < A.ncyc):
            return {'got': c, 'want': 'cycle index in range', 'num_cycles': A.ncyc}
        for q in d[1]:
            i = A.cells[c][q]
            if i < 0 or not desc_close(A.ops[i].desc, d):
                return {'got': c, 'want': 'cycle holding the appended operation', 'op': short(d)}
        return None
    return f


def _ret_none(ret: Any, A: Snap, circ: Any) -> Any:
    return None if ret is None else {'got': repr(ret)[:80], 'want': None}


def ex_append(H: Any, S: Snap, a: dict[str, Any]) -> Exp:
    if 'op' in a:
        chk_op(S, a['op'])
        ent = _new_ent(a['op'].gate, a['op'].location, a['op'].params)
    else:
        chk_triple(S, a['gate'], a['loc'], a['params'])
        loc = [a['loc']] if _is_int(a['loc']) else a['loc']
        ent = _new_ent(a['gate'], loc, a['params'])
    e = Exp(S.radixes, S.lm() + [[ent]])
    e.ret = _ret_cycle_has(ent[0])
    return e


def ex_extend(H: Any, S: Snap, a: dict[str, Any]) -> Exp:
    lm = S.lm()
    for op in a['ops']:
        chk_op(S, op)
        lm.append([_new_ent(op.gate, op.location, op.params)])
    e = Exp(S.radixes, lm)
    e.ret = _ret_none
    return e


def ex_append_circuit(H: Any, S: Snap, a: dict[str, Any]) -> Exp:
    loc = chk_sub(S, a['sub'], a['loc'])
    if a['acg']:
        ent = block_ent(a['sub'], loc)
        e = Exp(S.radixes, S.lm() + [[ent]])
        e.ret = _ret_cycle_has(ent[0])
        return e
    ents = sub_ents(a['sub'], loc)
    e = Exp(S.radixes, S.lm() + [[x] for x in ents])

    def ret(r: Any, A: Snap, circ: Any) -> Any:
        if not ents:
            return None if r == -1 else {'got': repr(r), 'want': -1, 'note': 'empty circuit appended'}
        if not _is_int(r) or not (0 <= int(r) < A.ncyc):
            return {
                'got': repr(r), 'detail': 'not_a_cycle_index',
                'want': 'starting cycle index of the appended circuit (documented); -1 only for an empty circuit',
            }
        here = [A.ops[i].desc for i in A.cycle_ops(int(r))]
        if not any(desc_close(h, x[0]) for h in here for x in ents):
            return {'got': int(r), 'want': 'a cycle holding an appended operation'}
        return None
    e.ret = ret
    return e


def ex_insert(H: Any, S: Snap, a: dict[str, Any]) -> Exp:
    if 'op' in a:
        chk_op(S, a['op'])
        ent = _new_ent(a['op'].gate, a['op'].location, a['op'].params)
    else:
        chk_triple(S, a['gate'], a['loc'], a['params'])
        loc = [a['loc']] if _is_int(a['loc']) else a['loc']
        ent = _new_ent(a['gate'], loc, a['params'])
    c = int(a['c'])
    pos = clamp_insert(S.ncyc, c)
    lm = S.lm()
    lm.insert(pos, [ent])
    e = Exp(S.radixes, lm)
    e.ret = _ret_none
    in_range = S.ncyc > 0 and -S.ncyc <= c < S.ncyc
    d = ent[0]

    def post(A: Snap, circ: Any) -> Any:
        if not in_range:
            return []
        out = []
        for q in d[1]:
            i = A.at(pos, q)
            if i < 0 or not desc_close(A.ops[i].desc, d):
                out.append(('circuit[cycle_index, q] != op', {'cycle': pos, 'qudit': q, 'op': short(d)}))
                break
        return out
    e.post = post
    return e


def ex_insert_circuit(H: Any, S: Snap, a: dict[str, Any]) -> Exp:
    loc = chk_sub(S, a['sub'], a['loc'])
    c = int(a['c'])
    pos = clamp_insert(S.ncyc, c)
    lm = S.lm()
    if a['acg']:
        ent = block_ent(a['sub'], loc)
        lm.insert(pos, [ent])
        e = Exp(S.radixes, lm)
        e.ret = _ret_none
        return e
    ents = sub_ents(a['sub'], loc)
    e = Exp(S.radixes, lm[:pos] + [[x] for x in ents] + lm[pos:])
    e.rev_options = [lm_seqs(lm[:pos] + [[x] for x in reversed(ents)] + lm[pos:], S.n)]
    e.ret = _ret_none
    if c > 0 and c >= S.ncyc:
        e.context = 'cycle_index_past_end'
    elif c < 0:
        e.context = 'negative_cycle_index'
    return e


def ex_pop(H: Any, S: Snap, a: dict[str, Any]) -> Exp:
    if a['pt'] is None:
        if S.ncyc == 0:
            raise Invalid('pop from empty circuit')
        cands = S.cycle_ops(S.ncyc - 1)
        e = Exp(S.radixes, None, [lm_seqs(lm_without(S, {i}), S.n) for i in cands])
        e.lm = None
        e.unitary = None

        def ret(r: Any, A: Snap, circ: Any) -> Any:
            if not isinstance(r, Operation):
                return {'got': repr(r)[:60], 'want': 'Operation'}
            if not any(desc_close(op_desc(r), S.ops[i].desc) for i in cands):
                return {'got': short(op_desc(r)), 'want': 'an operation of the last cycle'}
            return None
        e.ret = ret
        return e
    i = op_at(S, a['pt'], True)
    e = Exp(S.radixes, lm_without(S, {i}))
    want = S.ops[i].desc

    def ret2(r: Any, A: Snap, circ: Any) -> Any:
        if not isinstance(r, Operation) or not desc_close(op_desc(r), want):
            return {'got': short(op_desc(r)) if isinstance(r, Operation) else repr(r)[:60], 'want': short(want)}
        return None
    e.ret = ret2
    return e


def ex_pop_cycle(H: Any, S: Snap, a: dict[str, Any]) -> Exp:
    c = int(a['c'])
    if not (-S.ncyc <= c < S.ncyc):
        raise Invalid('cycle out of range')
    c %= S.ncyc
    e = Exp(S.radixes, lm_without(S, set(S.cycle_ops(c))))
    e.ret = _ret_none
    return e


def ex_batch_pop(H: Any, S: Snap, a: dict[str, Any]) -> Exp:
    drop: set[int] = set()
    for pt in a['pts']:
        c, q = norm_point(S, pt, True)
        if S.cells[c][q] >= 0:
            drop.add(S.cells[c][q])
    if not drop:
        raise Invalid('no operation at any point')
    e = Exp(S.radixes, lm_without(S, drop))
    qs = sorted({q for i in drop for q in S.ops[i].loc})
    ren = {q: j for j, q in enumerate(qs)}
    want: list[list[Any]] = [[] for _ in qs]
    for i in sorted(drop, key=lambda i: S.ops[i].cycle):
        d = relabel(S.ops[i].desc, ren)
        for q in d[1]:
            want[q].append(d)

    def ret(r: Any, A: Snap, circ: Any) -> Any:
        if not isinstance(r, Circuit):
            return {'got': repr(r)[:60], 'want': 'Circuit'}
        R = Snap(r)
        if R.radixes != tuple(S.radixes[q] for q in qs) or not seqs_equal(R.seqs(), want) or R.problems:
            return {'got': R.render(), 'want': short(want)}
        return None
    e.ret = ret
    return e


def _matches(S: Snap, x: Any) -> list[int]:
    if isinstance(x, Operation):
        chk_op(S, x)
        d = op_desc(x)
        return [i for i, r in enumerate(S.ops) if desc_close(r.desc, d)]
    k = gate_key(x)
    return [i for i, r in enumerate(S.ops) if gate_key(r.obj.gate) == k]


def ex_remove(H: Any, S: Snap, a: dict[str, Any]) -> Exp:
    m = _matches(S, a['x'])
    if not m:
        raise Invalid('no such operation')
    if isinstance(a['x'], Operation):
        cands = [m[0]]      # identical operations: earliest on the timeline
    else:
        c0 = min(S.ops[i].cycle for i in m)
        cands = [i for i in m if S.ops[i].cycle == c0]
    e = Exp(S.radixes, lm_without(S, {cands[0]}), [lm_seqs(lm_without(S, {i}), S.n) for i in cands])
    e.context = _cg_ctx(a['x'])
    if len(cands) > 1:
        e.unitary = None
    e.ret = _ret_none
    return e


def ex_remove_all(H: Any, S: Snap, a: dict[str, Any]) -> Exp:
    m = _matches(S, a['x'])
    if not m:
        raise Invalid('no such operation')
    e = Exp(S.radixes, lm_without(S, set(m)))
    e.context = _cg_ctx(a['x'])
    e.ret = _ret_none
    return e


def _cg_ctx(x: Any) -> str:
    g = x.gate if isinstance(x, Operation) else x
    return 'circuitgate_argument' if isinstance(g, CircuitGate) else ''


def ex_replace(H: Any, S: Snap, a: dict[str, Any]) -> Exp:
    i = op_at(S, a['pt'], False)
    if 'op' in a:
        chk_op(S, a['op'])
        ent = _new_ent(a['op'].gate, a['op'].location, a['op'].params)
    else:
        chk_triple(S, a['gate'], a['loc'], a['params'])
        loc = [a['loc']] if _is_int(a['loc']) else a['loc']
        ent = _new_ent(a['gate'], loc, a['params'])
    old = S.ops[i]
    if int(a['pt'][1]) not in ent[0][1]:
        raise Invalid("point's qudit not in the operation's location")
    c = old.cycle
    extra = [q for q in ent[0][1] if q not in old.loc]
    conc = []
    for q in extra:
        j = S.cells[c][q]
        if j >= 0 and j not in conc:
            conc.append(j)
    base = lm_without(S, {i})
    options = []
    lms = []
    for mask in itertools.product([0, 1], repeat=len(conc)):
        first = {conc[k] for k in range(len(conc)) if mask[k]}
        cyc_a = [x for x, j in zip(base[c], [j for j in S.cycle_ops(c) if j != i]) if j in first]
        cyc_b = [x for x, j in zip(base[c], [j for j in S.cycle_ops(c) if j != i]) if j not in first]
        lm = base[:c] + [cyc_a, [ent], cyc_b] + base[c + 1:]
        lms.append(lm)
        options.append(lm_seqs(lm, S.n))
    e = Exp(S.radixes, lms[0], options)
    if len(options) > 1:
        e.unitary = None
    e.ret = _ret_none
    return e


def ex_batch_replace(H: Any, S: Snap, a: dict[str, Any]) -> Exp:
    pts, ops = a['pts'], a['ops']
    if len(pts) != len(ops):
        raise Invalid('length mismatch')
    if not pts:
        return Exp(S.radixes, S.lm())
    idx = []
    for pt in pts:
        idx.append(op_at(S, pt, False))
    if len(set(idx)) != len(idx):
        raise Invalid('two points address the same operation')
    sub: dict[int, tuple[Any, Any]] = {}
    extended = False
    for i, pt, op in zip(idx, pts, ops):
        chk_op(S, op)
        if int(pt[1]) not in op.location:
            raise Invalid("point's qudit not in the operation's location")
        for q in op.location:
            # qudits outside the old location: in place only if nothing is
            # concurrent there (otherwise the relative order is left open)
            if q not in S.ops[i].loc and S.cells[S.ops[i].cycle][q] >= 0:
                raise Unspecified('replacement touches an occupied qudit outside the old location')
            if q not in S.ops[i].loc:
                extended = True
        sub[i] = _new_ent(op.gate, op.location, op.params)
    for c in {S.ops[i].cycle for i in idx}:
        used: list[int] = []
        for i in S.cycle_ops(c):
            used += list(sub[i][0][1]) if i in sub else list(S.ops[i].loc)
        if len(used) != len(set(used)):
            raise Unspecified('replacements collide inside one cycle')
    lm = [
        [sub[i] if i in sub else (S.ops[i].desc, S.ops[i].obj) for i in S.cycle_ops(c)]
        for c in range(S.ncyc)
    ]
    e = Exp(S.radixes, lm)
    # a replacement reaching onto a qudit that is idle in its cycle has its
    # own failure mechanism (an earlier replacement of the batch may have
    # been merged into that cycle): keep it apart from index compensation
    e.context = 'location_extended' if extended else ''
    e.ret = _ret_none
    return e


def _replace_seq(S: Snap, i: int, ents: list[tuple[Any, Any]]) -> Exp:
    c = S.ops[i].cycle
    base = lm_without(S, {i})
    lm = base[:c] + [[x] for x in ents] + base[c:]
    e = Exp(S.radixes, lm)
    e.rev_options = [lm_seqs(base[:c] + [[x] for x in reversed(ents)] + base[c:], S.n)]
    if len(S.cycle_ops(c)) == 1:
        e.context = 'alone_in_last_cycle' if c == S.ncyc - 1 else 'alone_in_cycle'
    e.ret = _ret_none
    return e


def ex_replace_with_circuit(H: Any, S: Snap, a: dict[str, Any]) -> Exp:
    i = op_at(S, a['pt'], False)
    old = S.ops[i]
    sub = a['sub']
    if sub.num_qudits != len(old.loc) or tuple(sub.radixes) != tuple(S.radixes[q] for q in old.loc):
        raise Invalid('circuit does not fit the operation')
    if a['acg']:
        return _replace_seq(S, i, [block_ent(sub, old.loc)])
    return _replace_seq(S, i, sub_ents(sub, old.loc))


def _inner_ents(r: OpRec) -> list[tuple[Any, Any]]:
    """Operations of a block in an order compatible with its inner grid,
    with the outer operation's parameters, relabelled to the outer location."""
    d = r.desc
    n = len(d[1])
    seqs = d[0][2]
    ptr = [0] * n
    out: list[tuple[Any, Any]] = []
    inner = r.obj.gate._circuit
    mats = _inner_mats(inner, list(r.obj.params))
    total = sum(len(s) for s in seqs)
    guard = 0
    while sum(ptr) < total and guard < 10000:
        guard += 1
        for q in range(n):
            if ptr[q] >= len(seqs[q]):
                continue
            x = seqs[q][ptr[q]]
            if all(ptr[qq] < len(seqs[qq]) and seqs[qq][ptr[qq]] == x for qq in x[1]):
                for qq in x[1]:
                    ptr[qq] += 1
                out.append((relabel(x, d[1]), mats.pop(_mk(x), None)))
                break
        else:
            raise Unmat('inconsistent block')
    return out


def _mk(x: Any) -> Any:
    return repr(x)


class _Const:
    def __init__(self, m: Any):
        self.m = m

    def get_unitary(self) -> Any:
        return self.m


class _MatBag(dict):  # type: ignore
    def pop(self, k: Any, default: Any = None) -> Any:  # type: ignore
        lst = self.get(k)
        if not lst:
            return default
        return lst.pop(0)


def _inner_mats(inner: Any, params: list[float]) -> _MatBag:
    bag = _MatBag()
    k = 0
    for iop in inner:
        p = params[k:k + iop.num_params]
        k += iop.num_params
        d = desc_of(iop.gate, iop.location, p)
        bag.setdefault(_mk(d), []).append(_Const(np.asarray(iop.gate.get_unitary(p))))
    return bag


def _block_at(S: Snap, pt: Any) -> int:
    i = op_at(S, pt, False)
    if not isinstance(S.ops[i].obj.gate, CircuitGate):
        raise Invalid('not a CircuitGate')
    if S.ops[i].desc[0][0] != 'B':
        raise Unmat('block with inconsistent parameters')
    return i


def ex_unfold(H: Any, S: Snap, a: dict[str, Any]) -> Exp:
    i = _block_at(S, a['pt'])
    e = _replace_seq(S, i, _inner_ents(S.ops[i]))
    e.flat_too = True
    return e


def ex_batch_unfold(H: Any, S: Snap, a: dict[str, Any]) -> Exp:
    idx = []
    for pt in a['pts']:
        i = _block_at(S, pt)
        if i not in idx:
            idx.append(i)
    lm: list[list[tuple[Any, Any]]] = []
    ctx = ''
    for c in range(S.ncyc):
        here = S.cycle_ops(c)
        blocks = [i for i in here if i in idx]
        lm.append([(S.ops[i].desc, S.ops[i].obj) for i in here if i not in idx])
        for i in blocks:
            lm.extend([[x] for x in _inner_ents(S.ops[i])])
        if len(blocks) > 1:
            ctx = 'two_blocks_in_one_cycle'
        elif blocks and len(here) == 1 and c == S.ncyc - 1 and not ctx:
            ctx = 'alone_in_last_cycle'
    e = Exp(S.radixes, lm)
    e.flat_too = True
    e.context = ctx
    e.ret = _ret_none
    return e


def ex_unfold_all(H: Any, S: Snap, a: dict[str, Any]) -> Exp:
    flat = flatten(S.seqs())
    e = Exp(S.radixes, None, [flat])
    e.flat = True
    e.unitary = 'same'
    e.ret = _ret_none

    def post(A: Snap, circ: Any) -> Any:
        if any(isinstance(r.obj.gate, CircuitGate) for r in A.ops):
            return [('a CircuitGate remains after unfold_all', {})]
        return []
    e.post = post
    return e


def ex_same(H: Any, S: Snap, a: dict[str, Any]) -> Exp:
    e = Exp(S.radixes, S.lm())
    e.unitary = 'same'
    e.ret = _ret_none
    return e


def _region_arg(a: dict[str, Any]) -> dict[int, tuple[int, int]]:
    return {int(q): (int(v[0]), int(v[1])) for q, v in a['region'].items()}


def ex_fold(H: Any, S: Snap, a: dict[str, Any]) -> Exp:
    region = _region_arg(a)
    info = region_info(S, region)
    if info['cls'] in ('empty', 'out_of_bounds', 'no_operations', 'not_convex'):
        raise Invalid('region: ' + info['cls'])
    if info['cls'] == 'partial':
        raise Unspecified('region cuts through an operation')
    lm, B = fold_expect(S, info)
    e = Exp(S.radixes, lm)
    e.flat_too = True
    e.unitary = 'same'
    qmin = min(info['qudits'])

    def ret(r: Any, A: Snap, circ: Any) -> Any:
        try:
            c, q = int(r[0]), int(r[1])
        except Exception:  # noqa
            return {'got': repr(r)[:60], 'want': 'CircuitPoint'}
        i = A.at(c, q)
        if i < 0 or not desc_close(A.ops[i].desc, B) or q != qmin:
            return {'got': [c, q], 'detail': 'point_is_not_the_block', 'want': 'point of the new CircuitGate on its lowest qudit %d' % qmin}
        return None
    e.ret = ret
    return e


def ex_straighten(H: Any, S: Snap, a: dict[str, Any]) -> Exp:
    region = _region_arg(a)
    info = region_info(S, region)
    if info['cls'] == 'empty':
        e = ex_same(H, S, a)
        e.ret = None
        return e
    if info['cls'] in ('out_of_bounds', 'no_operations', 'not_convex'):
        raise Invalid('region: ' + info['cls'])
    if info['cls'] == 'partial':
        raise Unspecified('region cuts through an operation')
    e = ex_same(H, S, a)
    want = sorted(repr(S.ops[i].desc) for i in info['members'])
    ncyc0 = S.ncyc

    def ret(r: Any, A: Snap, circ: Any) -> Any:
        try:
            reg, net, shadow = r
            reg = {int(q): (int(v[0]), int(v[1])) for q, v in reg.items()}
            net = int(net)
        except Exception:  # noqa
            return {'got': repr(r)[:80], 'want': '(region, int, region)'}
        if len({v[0] for v in reg.values()}) != 1:
            return {'got': core.jsonable(reg), 'want': 'single starting cycle'}
        got = []
        seen = set()
        for q, (lo, hi) in reg.items():
            for c in range(lo, hi + 1):
                i = A.at(c, q)
                if i >= 0 and i not in seen:
                    seen.add(i)
                    got.append(repr(A.ops[i].desc))
        if sorted(got) != want:
            return {'got': core.jsonable(reg), 'want': 'returned region holds exactly the operations of the input region', 'n_got': len(got), 'n_want': len(want)}
        if net != A.ncyc - ncyc0:
            return {'detail': 'net_new_cycles', 'got': net, 'want': A.ncyc - ncyc0}
        return None
    e.ret = ret
    return e


def ex_copy(H: Any, S: Snap, a: dict[str, Any]) -> Exp:
    e = ex_same(H, S, a)
    e.new_circuit = True
    e.ret = None
    return e


def ex_become(H: Any, S: Snap, a: dict[str, Any]) -> Exp:
    T = Snap(a['sub'])
    e = Exp(T.radixes, T.lm())
    e.ret = _ret_none
    return e


def ex_clear(H: Any, S: Snap, a: dict[str, Any]) -> Exp:
    e = Exp(S.radixes, [])
    e.ret = _ret_none
    return e


def ex_add(H: Any, S: Snap, a: dict[str, Any]) -> Exp:
    T = Snap(a['sub'])
    if T.radixes != S.radixes:
        raise Invalid('size/radix mismatch')
    e = Exp(S.radixes, S.lm() + T.lm())
    e.new_circuit = True
    return e


def ex_iadd(H: Any, S: Snap, a: dict[str, Any]) -> Exp:
    e = ex_add(H, S, a)
    e.new_circuit = False
    e.must_be_self = True
    return e


def ex_mul(H: Any, S: Snap, a: dict[str, Any]) -> Exp:
    k = a['k']
    if not _is_int(k):
        raise Invalid('non-integer factor')
    if k < 0:
        raise Unspecified('negative factor')
    lm: list[Any] = []
    for _ in range(int(k)):
        lm += S.lm()
    e = Exp(S.radixes, lm)
    e.new_circuit = True
    e.context = 'times_zero' if k == 0 else ''
    return e


def ex_imul(H: Any, S: Snap, a: dict[str, Any]) -> Exp:
    e = ex_mul(H, S, a)
    e.new_circuit = False
    e.must_be_self = True
    return e


def ex_inverse(H: Any, S: Snap, a: dict[str, Any]) -> Exp:
    lm = []
    for cyc in reversed(S.lm()):
        row = []
        for d, obj in cyc:
            iop = obj.get_inverse()
            row.append((relabel(op_desc(iop), {q: q for q in range(S.n)}), iop))
        lm.append(row)
    e = Exp(S.radixes, lm)
    e.new_circuit = True
    e.unitary = 'inverse'
    return e


def _iter_points(circ: Any, S: Snap) -> list[int]:
    out = []
    for cyc, op in circ.operations_with_cycles():
        i = S.at(int(cyc), int(op.location[0]))
        if i < 0 or S.ops[i].obj is not op:
            raise Unmat('iteration disagrees with grid')
        out.append(i)
    if len(out) != len(S.ops) or len(set(out)) != len(out):
        raise Unmat('iteration disagrees with grid')
    return out


def ex_set_params(H: Any, S: Snap, a: dict[str, Any]) -> Exp:
    params = [float(x) for x in a['params']]
    total = sum(len(r.obj.params) for r in S.ops)
    if len(params) != total:
        raise Invalid('wrong number of parameters')
    order = _iter_points(H.circ, S)
    new: dict[int, tuple[Any, Any]] = {}
    k = 0
    for i in order:
        r = S.ops[i]
        m = len(r.obj.params)
        new[i] = _new_ent(r.obj.gate, r.loc, params[k:k + m]) if m else (r.desc, r.obj)
        k += m
    lm = [[new[i] for i in S.cycle_ops(c)] for c in range(S.ncyc)]
    e = Exp(S.radixes, lm)
    e.ret = _ret_none
    return e


def ex_freeze_param(H: Any, S: Snap, a: dict[str, Any]) -> Exp:
    k = a['i']
    total = sum(len(r.obj.params) for r in S.ops)
    if not _is_int(k) or not (0 <= k < total):
        raise Invalid('parameter index out of range')
    order = _iter_points(H.circ, S)
    acc = 0
    for i in order:
        r = S.ops[i]
        m = len(r.obj.params)
        if acc + m > k:
            j = k - acc
            p = [float(x) for x in r.obj.params]
            g = FrozenParameterGate(r.obj.gate, {j: p[j]})
            ent = _new_ent(g, r.loc, p[:j] + p[j + 1:])
            # a gate with no parameter left has params [] -> _new_ent is fine
            lm = [
                [ent if x == i else (S.ops[x].desc, S.ops[x].obj) for x in S.cycle_ops(c)]
                for c in range(S.ncyc)
            ]
            e = Exp(S.radixes, lm)
            e.unitary = 'same'
            e.ret = _ret_none
            return e
        acc += m
    raise Unmat('parameter not found')


def ex_append_qudit(H: Any, S: Snap, a: dict[str, Any]) -> Exp:
    rs = a['radixes']
    if not all(_is_int(r) and r >= 2 for r in rs):
        raise Invalid('radix < 2')
    e = Exp(tuple(S.radixes) + tuple(int(r) for r in rs), S.lm())
    e.unitary = None
    e.ret = _ret_none
    return e


def ex_insert_qudit(H: Any, S: Snap, a: dict[str, Any]) -> Exp:
    i, r = a['i'], a['radix']
    if not _is_int(i) or not _is_int(r) or r < 2:
        raise Invalid('bad index/radix')
    rad = list(S.radixes)
    rad.insert(int(i), int(r))       # list.insert semantics (clamping)
    ids = list(range(S.n))
    ids.insert(int(i), -1)
    mp = {q: k for k, q in enumerate(ids) if q >= 0}
    lm = [[(relabel(d, mp), o) for d, o in cyc] for cyc in S.lm()]
    e = Exp(rad, lm)
    e.unitary = None
    e.ret = _ret_none
    return e


def ex_pop_qudit(H: Any, S: Snap, a: dict[str, Any]) -> Exp:
    i = a['i']
    if not _is_int(i) or not (-S.n <= i < S.n) or S.n == 1:
        raise Invalid('qudit index out of range / only qudit')
    i = int(i) % S.n
    drop = {k for k, r in enumerate(S.ops) if i in r.loc}
    mp = {q: (q if q < i else q - 1) for q in range(S.n) if q != i}
    lm = [[(relabel(d, mp), o) for d, o in cyc] for cyc in lm_without(S, drop)]
    rad = list(S.radixes)
    rad.pop(i)
    e = Exp(rad, lm)
    e.unitary = None
    e.ret = _ret_none
    return e


def ex_renumber(H: Any, S: Snap, a: dict[str, Any]) -> Exp:
    p = a['perm']
    if not isinstance(p, (list, tuple)) or not all(_is_int(x) for x in p):
        raise Invalid('not a sequence of ints')
    if len(p) != S.n or sorted(int(x) for x in p) != list(range(S.n)):
        raise Invalid('not a permutation')
    p = [int(x) for x in p]
    if any(S.radixes[p[q]] != S.radixes[q] for q in range(S.n)):
        raise Unspecified('permutation does not preserve radixes')
    lm = [[(relabel(d, p), o) for d, o in cyc] for cyc in S.lm()]
    e = Exp(S.radixes, lm)
    e.unitary = ('perm', p)
    e.ret = _ret_none
    return e


EXPECT: dict[str, Callable[..., Exp]] = {
    'append': ex_append, 'append_gate': ex_append, 'extend': ex_extend,
    'append_circuit': ex_append_circuit, 'insert': ex_insert,
    'insert_gate': ex_insert, 'insert_circuit': ex_insert_circuit,
    'pop': ex_pop, 'pop_cycle': ex_pop_cycle, 'batch_pop': ex_batch_pop,
    'remove': ex_remove, 'remove_all': ex_remove_all,
    'replace': ex_replace, 'replace_gate': ex_replace,
    'batch_replace': ex_batch_replace,
    'replace_with_circuit': ex_replace_with_circuit,
    'unfold': ex_unfold, 'batch_unfold': ex_batch_unfold,
    'unfold_all': ex_unfold_all, 'fold': ex_fold,
    'straighten': ex_straighten, 'compress': ex_same, 'copy': ex_copy,
    'become': ex_become, 'clear': ex_clear, 'add': ex_add, 'iadd': ex_iadd,
    'mul': ex_mul, 'imul': ex_imul, 'inverse': ex_inverse,
    'set_params': ex_set_params, 'freeze_param': ex_freeze_param,
    'append_qudit': ex_append_qudit, 'extend_qudits': ex_append_qudit,
    'insert_qudit': ex_insert_qudit, 'pop_qudit': ex_pop_qudit,
    'renumber_qudits': ex_renumber,
}
STRUCTURAL = {
    'fold', 'unfold', 'batch_unfold', 'unfold_all', 'straighten', 'compress',
    'append_qudit', 'extend_qudits', 'insert_qudit', 'pop_qudit',
    'renumber_qudits', 'batch_pop', 'batch_replace', 'replace_with_circuit',
    'insert_circuit',
}


# --------------------------------------------------------------------------
# materialising JSON calls and applying them to the real circuit
# --------------------------------------------------------------------------
def _pt_arg(p: Any) -> Any:
    return None if p is None else (int(p[0]), int(p[1]))


class History:
    """Runs one history on a real Circuit with both oracles attached."""

    def __init__(
        self, init: dict[str, Any], order: bool = True, views: bool = True,
        unitary: bool = True, drain: bool = True, max_dim: int = 64,
        every_step: bool = False,
    ) -> None:
        # every_step: run the checks that are normally scheduled on every
        # 2nd/4th step on every step (used when shrinking and replaying, so
        # that dropping a call cannot hide a finding behind the schedule)
        self.every_step = every_step
        self.init = {'radixes': [int(r) for r in init['radixes']]}
        self.f_order, self.f_views, self.f_unitary = order, views, unitary
        self.f_drain = drain
        self.max_dim = max_dim
        self.circ = Circuit(len(self.init['radixes']), self.init['radixes'])
        self.snap = Snap(self.circ)
        self.cnt: Counter[str] = Counter()
        self.calls: list[dict[str, Any]] = []
        self.names: list[str] = []
        self.wit: list[dict[str, Any]] = []
        self.effective = 0
        self.structural = 0
        self.refs: dict[int, Any] = {}
        self.alias_used = 0
        self.renumbered = 0
        self.step_no = 0
        self.probe: tuple[Any, Any, str] | None = None
        self.fatal = False
        self.last_after: Snap | None = None

    # ---------------------------------------------------------- materialise
    def m_op(self, spec: dict[str, Any], triple: bool) -> Any:
        if 'like' in spec:
            i = self.snap.at(int(spec['like'][0]), int(spec['like'][1]))
            if i < 0:
                raise Unmat('no operation at like-point')
            o = self.snap.ops[i].obj
            gate = o.gate
            loc = spec.get('loc', [int(q) for q in o.location])
            params = spec.get('p', [float(x) for x in o.params])
        else:
            gate = build_gate(spec['g'])
            loc, params = spec['loc'], spec['p']
        if triple:
            return gate, loc, [float(x) for x in params]
        ref = spec.get('ref')
        if ref is not None and ref in self.refs:
            self.alias_used += 1
            self.cnt['aliased_operation_reused'] += 1
            return self.refs[ref]
        try:
            op = Operation(gate, loc, [float(x) for x in params])
        except Exception as e:  # noqa
            raise Unmat('Operation ctor: %s' % e)
        if ref is not None:
            self.refs[ref] = op
        return op

    def materialise(self, call: dict[str, Any]) -> dict[str, Any]:
        m, a = call['m'], call.get('a', {})
        out: dict[str, Any] = {}
        try:
            if m in ('append', 'insert', 'replace'):
                out['op'] = self.m_op(a['op'], False)
            if m in ('append_gate', 'insert_gate', 'replace_gate'):
                out['gate'], out['loc'], out['params'] = self.m_op(a['op'], True)
            if m in ('extend', 'batch_replace'):
                out['ops'] = [self.m_op(s, False) for s in a['ops']]
            if 'sub' in a:
                out['sub'] = build_circuit(a['sub'])
            if 'x' in a:
                x = a['x']
                if 'gate' in x:
                    out['x'] = build_gate(x['gate'])
                elif 'like_gate' in x:
                    i = self.snap.at(int(x['like_gate'][0]), int(x['like_gate'][1]))
                    if i < 0:
                        raise Unmat('no operation at like-point')
                    out['x'] = self.snap.ops[i].obj.gate
                else:
                    out['x'] = self.m_op(x['op'], False)
            for k in ('c', 'i', 'k', 'radix'):
                if k in a:
                    out[k] = a[k]
            for k in ('acg', 'move', 'deep'):
                out[k] = bool(a.get(k, k == 'deep'))
            if 'loc' in a:
                out['loc'] = a['loc']
            if 'pt' in a:
                out['pt'] = _pt_arg(a['pt'])
            if 'pts' in a:
                out['pts'] = [_pt_arg(p) for p in a['pts']]
            if 'region' in a:
                out['region'] = {int(q): (int(v[0]), int(v[1])) for q, v in a['region'].items()}
            if 'perm' in a:
                out['perm'] = list(a['perm'])
            if 'params' in a:
                out['params'] = [float(x) for x in a['params']]
            if 'radixes' in a:
                out['radixes'] = list(a['radixes'])
            if m == 'append_qudit':
                out['radixes'] = [a['radix']]
            if 'via' in a:
                out['via'] = a['via']
        except Unmat:
            raise
        except Exception as e:  # noqa
            raise Unmat('%s: %s' % (type(e).__name__, e))
        return out


def apply_call(circ: Any, m: str, a: dict[str, Any]) -> tuple[Any, Any]:
    """Execute one public call. Returns (return value, new working circuit
    or None when the call works in place)."""
    if m == 'append':
        return circ.append(a['op']), None
    if m == 'append_gate':
        return circ.append_gate(a['gate'], a['loc'], a['params']), None
    if m == 'append_circuit':
        return circ.append_circuit(a['sub'], a['loc'], a['acg'], a['move']), None
    if m == 'extend':
        return circ.extend(a['ops']), None
    if m == 'insert':
        return circ.insert(a['c'], a['op']), None
    if m == 'insert_gate':
        return circ.insert_gate(a['c'], a['gate'], a['loc'], a['params']), None
    if m == 'insert_circuit':
        return circ.insert_circuit(a['c'], a['sub'], a['loc'], a['acg']), None
    if m == 'pop':
        return (circ.pop() if a['pt'] is None else circ.pop(a['pt'])), None
    if m == 'pop_cycle':
        return circ.pop_cycle(a['c']), None
    if m == 'batch_pop':
        return circ.batch_pop(a['pts']), None
    if m == 'remove':
        return circ.remove(a['x']), None
    if m == 'remove_all':
        return circ.remove_all(a['x']), None
    if m == 'replace':
        return circ.replace(a['pt'], a['op']), None
    if m == 'replace_gate':
        return circ.replace_gate(a['pt'], a['gate'], a['loc'], a['params']), None
    if m == 'batch_replace':
        return circ.batch_replace(a['pts'], a['ops']), None
    if m == 'replace_with_circuit':
        return circ.replace_with_circuit(a['pt'], a['sub'], a['acg']), None
    if m == 'unfold':
        return circ.unfold(a['pt']), None
    if m == 'batch_unfold':
        return circ.batch_unfold(a['pts']), None
    if m == 'unfold_all':
        return circ.unfold_all(), None
    if m == 'fold':
        return circ.fold(a['region']), None
    if m == 'straighten':
        return circ.straighten(a['region']), None
    if m == 'compress':
        return circ.compress(), None
    if m == 'copy':
        c2 = circ.copy()
        return c2, c2
    if m == 'become':
        return circ.become(a['sub'], a['deep']), None
    if m == 'clear':
        return circ.clear(), None
    if m == 'add':
        c2 = circ + a['sub']
        return c2, c2
    if m == 'mul':
        c2 = circ * a['k']
        return c2, c2
    if m == 'iadd':
        return operator.iadd(circ, a['sub']), None
    if m == 'imul':
        return operator.imul(circ, a['k']), None
    if m == 'inverse':
        c2 = circ.get_inverse() if a.get('via') != 'op' else ~circ
        return c2, c2
    if m == 'set_params':
        return circ.set_params(a['params']), None
    if m == 'freeze_param':
        return circ.freeze_param(a['i']), None
    if m == 'append_qudit':
        return circ.append_qudit(a['radixes'][0]), None
    if m == 'extend_qudits':
        return circ.extend_qudits(a['radixes']), None
    if m == 'insert_qudit':
        return circ.insert_qudit(a['i'], a['radix']), None
    if m == 'pop_qudit':
        return circ.pop_qudit(a['i']), None
    if m == 'renumber_qudits':
        return circ.renumber_qudits(a['perm']), None
    raise ValueError('unknown method ' + m)


PUBLIC_NAME = {
    'add': '__add__', 'mul': '__mul__', 'iadd': '__iadd__', 'imul': '__imul__',
    'inverse': 'get_inverse',
}
VALIDATION_FUNCS = {
    'check_valid_operation', '__init__', '__new__', 'check_parameters',
    'get_operation', 'normalize_point', 'check_region', 'get_region',
    'is_cycle_unoccupied', 'get_param_location', 'point',
    'find_available_cycle',
}


def exc_fields(e: BaseException) -> dict[str, Any]:
    tb = traceback.extract_tb(e.__traceback__)
    rf = [fr for fr in tb if '/bqskit/' in fr.filename]
    last = rf[-1] if rf else (tb[-1] if tb else None)
    return {
        'exc': type(e).__name__, 'msg': str(e)[:200],
        'site': core.raising_site(e), 'frames': core.repo_frames(e),
        'line': (last.line or '').strip() if last is not None else '',
        'func': last.name if last is not None else '',
        'depth': len(rf),
    }


# --------------------------------------------------------------------------
# one step: expectation, call, views, comparison, classification
# --------------------------------------------------------------------------
UTOL = 1e-7


def _witness(H: History, prop: str, kind: str, name: str, S: Snap, **kw: Any) -> None:
    w = {
        'prop': prop, 'kind': kind, 'method': name, 'step': H.step_no,
        'init': H.init, 'history': list(H.calls),
        'state_before_call': S.render() if len(S.ops) <= 40 else {'num_ops': len(S.ops)},
        'aliased_operation_reuses': H.alias_used,
        'shared_operation_objects': _shared(S) or _shared(H.last_after),
    }
    w.update(kw)
    fatal = (prop == 'C05' and not kind.startswith('view:count_op:circuitgate')) \
        or kind.startswith(('shape:', 'operand_modified'))
    if fatal:
        H.fatal = True
    if any(x['kind'] == kind for x in H.wit):
        return
    H.wit.append(w)


def _shared(S: Snap | None) -> bool:
    """Is one Operation object held at two places of the grid?"""
    if S is None:
        return False
    ids = [id(r.obj) for r in S.ops]
    return len(set(ids)) != len(ids)


def _unitary(circ: Any) -> Any:
    return refsim.unitary(circ)


def _model_unitary(lm: Any, radixes: Sequence[int]) -> Any:
    items = []
    for cyc in lm:
        for d, obj in cyc:
            if obj is None:
                return None
            items.append((np.asarray(obj.get_unitary()), d[1]))
    return refsim.unitary_of_items(items, list(radixes))


def _classify_exc(H: History, name: str, f: dict[str, Any], circ: Any, ctx: str = '') -> tuple[str, str]:
    """(property, kind) for an exception raised on model-valid arguments."""
    exc = f['exc']
    if exc == 'KeyError' and f['func'] == 'pop' and '_graph_info' in f['line'] \
            and H.renumbered > 0:
        unsorted_key = False
        try:
            unsorted_key = any(k[0] > k[1] for k in circ._graph_info)
        except Exception:  # noqa
            pass
        if unsorted_key:
            return 'C05', 'internal_error:KeyError:_graph_info_after_renumber'
    if exc in ('IndexError', 'ValueError', 'TypeError'):
        top = f['frames'][0].split(':')[-1] if f['frames'] else ''
        own = f['depth'] == 1 and top == PUBLIC_NAME.get(name, name)
        if own or (f['func'] in VALIDATION_FUNCS and f['depth'] <= 3):
            return 'C04', 'valid_call_rejected:%s:%s' % (name, exc)
    return 'C05', 'internal_error:%s:%s:%s%s' % (exc, name, f['site'], ':' + ctx if ctx else '')


def _step(H: History, call: dict[str, Any]) -> bool:
    """Execute one call. Returns False when the history must stop."""
    name = call['m']
    H.step_no += 1
    H.cnt['call:' + name] += 1
    S = H.snap
    circ = H.circ
    try:
        a = H.materialise(call)
    except Unmat:
        H.cnt['unmaterialisable:' + name] += 1
        return True
    H.calls.append(call)
    H.names.append(name)
    exp: Exp | None = None
    status = 'valid'
    try:
        exp = EXPECT[name](H, S, a)
    except Invalid:
        status = 'invalid'
    except Unspecified:
        status = 'unspecified'
    except Unmat:
        status = 'unspecified'
    except Exception as e:  # noqa
        # the model reads the circuit through the public API; if that read
        # itself fails inside bqskit the state is already torn (C05 reports
        # it from the view checks) -- anything else is a harness bug
        if not core.repo_frames(e):
            raise
        H.cnt['model_read_failed:%s:%s' % (name, type(e).__name__)] += 1
        status = 'unspecified'
    H.cnt['model_' + status] += 1

    # unitary bookkeeping before the call
    dim = refsim.dim_of(S.radixes)
    U0 = Um = None
    want_u = H.f_unitary and dim <= H.max_dim and len(S.ops) <= 60
    struct_only = name in ('fold', 'straighten', 'compress', 'unfold', 'batch_unfold', 'unfold_all', 'copy')
    if want_u and (struct_only or (exp is not None and exp.unitary in ('same', 'inverse') or (exp is not None and isinstance(exp.unitary, tuple)))):
        try:
            U0 = _unitary(circ)
        except Exception:  # noqa
            U0 = None
    if want_u and exp is not None and exp.unitary == 'model' and exp.lm is not None \
            and refsim.dim_of(exp.radixes) <= H.max_dim \
            and (name in STRUCTURAL or H.step_no % 4 == 0 or H.every_step):
        try:
            Um = _model_unitary(exp.lm, exp.radixes)
        except Exception:  # noqa
            Um = None
    flat0 = flatten(S.seqs()) if (struct_only or (exp is not None and exp.flat_too)) else None

    # the call
    err: dict[str, Any] | None = None
    ret = None
    new = None
    try:
        ret, new = apply_call(circ, name, a)
    except Exception as e:  # noqa
        err = exc_fields(e)
    work = new if new is not None else circ
    A = Snap(work)
    H.last_after = A
    H.cnt['grid_reads'] += 1
    if name == 'renumber_qudits' and err is None and status == 'valid' \
            and list(a['perm']) != list(range(S.n)):
        H.renumbered += 1

    # C05: views after every call, raising or not
    tag = name
    if err is not None and status != 'valid':
        tag = name + ':after_rejected_call'
    stop = False
    vbad = []
    if err is not None and status != 'valid':
        # e.g. replace_with_circuit pops for real before it validates: the
        # edge-counter KeyError after a renumbering is that same mechanism
        prop0, kind0 = _classify_exc(H, name, err, work)
        if kind0.endswith(':_graph_info_after_renumber'):
            _witness(H, prop0, kind0, name, S, expected='no internal error', observed='exception', status=status, **err)
            H.snap, H.circ = A, work
            return not H.fatal
    if not (err is not None and status == 'valid'):
        # (a valid call that raised half-way is reported as such below; the
        # torn state it leaves behind is a consequence, not a second finding)
        vbad = check_views(
            work, A,
            # (a call outside the documented domain, accepted or refused, may
            # leave anything behind: look at all views even when they are not
            # this run's subject, so that later calls are not blamed for it)
            full=H.f_views or status != 'valid',
            with_copy=H.f_views and (H.step_no % 4 == 0 or H.every_step),
            heavy=H.step_no % 2 == 0 or name in STRUCTURAL or H.every_step,
        )
        H.cnt['invariant_evals'] += 1
    for which, detail in [v for v in vbad if v[0] == 'count_op_circuitgate'][:1]:
        _witness(H, 'C05', 'view:count_op:circuitgate_prefix_equality', name, S, view=which, detail=detail, state_after_call=A.render(), status=status)
    vbad = [v for v in vbad if v[0] != 'count_op_circuitgate']
    if vbad and err is not None:
        # one finding: a rejected call left the views torn
        _witness(H, 'C05', 'views_broken_after_rejected_call:%s' % name, name, S, views=sorted({v for v, _ in vbad}), detail=vbad[0][1], state_after_call=A.render(), status=status, error=err)
        stop = True
        vbad = []
    if vbad and status == 'invalid' and err is None:
        # one finding: arguments outside the documented domain were accepted
        # and left the views torn
        _witness(H, 'C05', 'views_broken_after_invalid_call_accepted:%s' % name, name, S, views=sorted({v for v, _ in vbad}), detail=vbad[0][1], state_after_call=A.render(), status=status)
        stop = True
        vbad = []
    for which, detail in vbad[:3]:
        kind = 'view:%s:%s' % (which, tag)
        if which == 'count_op_circuitgate':
            kind = 'view:count_op:circuitgate_prefix_equality'
        _witness(H, 'C05', kind, name, S, view=which, detail=detail, state_after_call=A.render(), status=status, error=err)
        stop = True

    if err is not None:
        if status == 'valid':
            if name in ('fold', 'straighten') and err['exc'] == 'ValueError' \
                    and err['func'] in ('check_region', 'get_region'):
                H.cnt['rejected_valid_region:' + name] += 1
            else:
                prop, kind = _classify_exc(H, name, err, work, exp.context if exp is not None else '')
                _witness(H, prop, kind, name, S, expected='call succeeds (arguments satisfy the documented preconditions)', observed='exception', **err)
                stop = True
        else:
            H.cnt['rejected:' + name] += 1
            H.cnt['rejected_input'] += 1
            if err['exc'] not in ('IndexError', 'ValueError', 'TypeError'):
                H.cnt['rejected_with_undocumented_exception:%s:%s' % (name, err['exc'])] += 1
        H.snap, H.circ = A, work
        return not H.fatal

    # the call returned. C04's comparisons run whatever the view checks said
    # (an idle cycle must not mask an order change), unless the grid itself
    # cannot be read consistently.
    hit = bool(A.problems)
    if status == 'invalid':
        H.cnt['invalid_accepted:' + name] += 1
    if status == 'unspecified':
        H.cnt['unspecified:' + name] += 1
    changed = (A.radixes != S.radixes) or not seqs_equal(A.seqs(), S.seqs())
    if changed or new is not None:
        H.effective += 1
        H.cnt['effective:' + name] += 1
        if name in STRUCTURAL:
            H.structural += 1
    else:
        H.cnt['noop:' + name] += 1

    got = A.seqs()
    # structure-only calls may never change the unfolded program, whatever
    # the model thinks of the arguments
    if H.f_order and struct_only and flat0 is not None and not hit:
        if A.radixes != S.radixes or not seqs_equal(flatten(got), flat0):
            ctx = exp.context if exp is not None else ''
            rev = exp is not None and exp.rev_options is not None and any(
                seqs_equal(got, o) for o in exp.rev_options
            )
            kind = '%s:order_changed%s' % (name, ':' + ctx if ctx else '')
            _witness(H, 'C04', kind, name, S, expected='unfolded per-qudit sequences unchanged by a structure-only call', observed=A.render(), status=status, context=ctx, inserted_in_reverse_order=bool(rev))
            hit = True
    if H.f_unitary and struct_only and U0 is not None and not hit and A.radixes == S.radixes:
        try:
            U1 = _unitary(work)
            H.cnt['refsim_unitary_cmp'] += 1
            if np.max(np.abs(U1 - U0)) > UTOL:
                _witness(H, 'C04', 'unitary:%s:changed' % name, name, S, expected='same unitary', observed={'max_abs_diff': float(np.max(np.abs(U1 - U0)))}, state_after_call=A.render(), status=status)
                hit = True
        except Exception:  # noqa
            pass

    if exp is not None and not hit and H.f_order:
        ok_shape = A.radixes == exp.radixes
        if not ok_shape:
            _witness(H, 'C04', 'shape:%s' % name, name, S, expected={'radixes': list(exp.radixes)}, observed={'radixes': list(A.radixes)})
            hit = True
        else:
            cmp_got = flatten(got) if exp.flat else got
            if not any(seqs_equal(cmp_got, o) for o in exp.options):
                rev = exp.rev_options is not None and any(seqs_equal(got, o) for o in exp.rev_options)
                kind = '%s:order_changed%s' % (name, ':' + exp.context if exp.context else '')
                if name in ('imul',) and exp.context == 'times_zero':
                    kind = 'imul:times_zero_keeps_operations'
                _witness(H, 'C04', kind, name, S, expected={'per_qudit': short(exp.options[0])}, observed={'per_qudit': short(cmp_got)}, state_after_call=A.render(), context=exp.context, inserted_in_reverse_order=bool(rev))
                hit = True
        if not hit and exp.must_be_self and ret is not circ:
            _witness(H, 'C04', 'return_value:%s:not_self' % PUBLIC_NAME.get(name, name), name, S, expected='the in-place operator returns the circuit itself (Python rebinds the name to the return value)', observed=repr(ret)[:60])
            hit = True
        if not hit and exp.ret is not None:
            try:
                r = exp.ret(ret, A, work)
            except Exception as e:  # noqa
                r = {'problem': 'return value unusable', 'exc': type(e).__name__, 'msg': str(e)[:100]}
            if r is not None:
                k = 'return_value:%s' % name
                if isinstance(r, dict) and r.get('detail'):
                    k += ':' + str(r['detail'])
                _witness(H, 'C04', k, name, S, expected=r.get('want') if isinstance(r, dict) else None, observed=r, state_after_call=A.render())
                hit = True
        if not hit and exp.post is not None:
            for what, detail in exp.post(A, work):
                _witness(H, 'C04', 'postcondition:%s' % name, name, S, expected=what, observed=detail, state_after_call=A.render())
                hit = True
        if not hit and exp.new_circuit:
            B = Snap(circ)
            if B.radixes != S.radixes or not seqs_equal(B.seqs(), S.seqs()):
                _witness(H, 'C04', 'operand_modified:%s' % name, name, S, expected='left operand unchanged', observed=B.render())
                hit = True
        # unitary relations
        if not hit and H.f_unitary and refsim.dim_of(A.radixes) <= H.max_dim:
            try:
                if exp.unitary == 'same' and U0 is not None and not struct_only:
                    U1 = _unitary(work)
                    H.cnt['refsim_unitary_cmp'] += 1
                    if np.max(np.abs(U1 - U0)) > UTOL:
                        _witness(H, 'C04', 'unitary:%s:changed' % name, name, S, expected='same unitary', observed={'max_abs_diff': float(np.max(np.abs(U1 - U0)))})
                        hit = True
                elif isinstance(exp.unitary, tuple) and U0 is not None:
                    p = exp.unitary[1]
                    inv = [p.index(i) for i in range(len(p))]
                    P = refsim.perm_matrix(list(S.radixes), inv)
                    U1 = _unitary(work)
                    H.cnt['refsim_unitary_cmp'] += 1
                    H.cnt['refsim_conjugation_cmp'] += 1
                    if np.max(np.abs(U1 - P @ U0 @ P.T)) > UTOL:
                        _witness(H, 'C04', 'unitary:renumber_qudits:not_conjugated', name, S, expected='P U P^T', observed={'max_abs_diff': float(np.max(np.abs(U1 - P @ U0 @ P.T)))})
                        hit = True
                elif exp.unitary == 'inverse' and U0 is not None:
                    U1 = _unitary(work)
                    H.cnt['refsim_unitary_cmp'] += 1
                    H.cnt['refsim_inverse_cmp'] += 1
                    d = np.max(np.abs(U1 @ U0 - np.eye(U0.shape[0])))
                    if d > UTOL:
                        _witness(H, 'C04', 'unitary:inverse:not_identity', name, S, expected='C^-1 C = 1', observed={'max_abs_diff': float(d)})
                        hit = True
                if not hit and Um is not None:
                    U1 = _unitary(work)
                    H.cnt['refsim_unitary_cmp'] += 1
                    H.cnt['refsim_model_cmp'] += 1
                    if np.max(np.abs(U1 - Um)) > UTOL:
                        _witness(H, 'C04', 'unitary:%s:differs_from_model' % name, name, S, expected='unitary of the list-of-cycles model', observed={'max_abs_diff': float(np.max(np.abs(U1 - Um)))}, state_after_call=A.render())
                        hit = True
            except Exception as e:  # noqa  (iteration broken: C05 reports it)
                H.cnt['refsim_failed:' + type(e).__name__] += 1

    # aliasing probe for copy(): the original must not move with the copy
    if H.probe is not None and changed and not stop and not hit:
        old, seqs0, nm = H.probe
        H.probe = None
        B = Snap(old)
        H.cnt['copy_alias_probe'] += 1
        if not seqs_equal(B.seqs(), seqs0):
            _witness(H, 'C05', 'copy_alias:%s' % nm, name, S, expected='original unchanged by edits of its copy', observed=B.render())
            stop = True
    if name == 'copy' and err is None:
        H.probe = (circ, S.seqs(), name)
    H.snap, H.circ = A, work
    return not H.fatal


def _drain(H: History) -> None:
    """Pop every operation one by one: must succeed and end empty."""
    circ, S = H.circ, H.snap
    pairs: Counter[tuple[int, int]] = Counter()
    for r in S.ops:
        for e in itertools.combinations(sorted(r.loc), 2):
            pairs[e] += 1
    n = len(S.ops)
    H.calls.append({'m': 'drain'})
    for k in range(n):
        try:
            if k % 2 == 0:
                op = circ.pop()
            else:
                pt = None
                for q in range(circ.num_qudits):
                    if not circ.is_point_idle((0, q)):
                        pt = (0, q)
                        break
                op = circ.pop(pt)
            H.cnt['drain_pops'] += 1
        except Exception as e:  # noqa
            f = exc_fields(e)
            prop, kind = _classify_exc(H, 'drain_pop', f, circ)
            if kind.startswith('valid_call_rejected'):
                prop, kind = 'C05', 'internal_error:%s:drain_pop:%s' % (f['exc'], f['site'])
            _witness(H, prop, kind, 'drain_pop', S, expected='every operation can be popped', observed='exception at pop %d of %d' % (k, n), **f)
            return
        for e in itertools.combinations(sorted(int(q) for q in op.location), 2):
            pairs[e] -= 1
        want = sorted(e for e, v in pairs.items() if v > 0)
        try:
            got = sorted(tuple(sorted((int(a), int(b)))) for a, b in circ.coupling_graph)
            nops = int(circ.num_operations)
        except Exception as e:  # noqa
            _witness(H, 'C05', 'view:coupling_graph:drain_pop', 'drain_pop', S, detail=exc_fields(e))
            return
        if got != want or nops != n - k - 1:
            _witness(H, 'C05', 'view:%s:drain_pop' % ('coupling_graph' if got != want else 'num_operations'), 'drain_pop', S, detail={'got': got, 'want': want, 'num_operations': nops, 'expected_operations': n - k - 1, 'pop': k})
            return
    A = Snap(circ)
    left = {
        'num_cycles': A.ncyc, 'num_operations': int(circ.num_operations),
        'edges': len(list(circ.coupling_graph)), 'gates': len(circ.gate_set),
        'front': len(circ.front), 'rear': len(circ.rear),
        'active': len(circ.active_qudits),
    }
    if any(left.values()):
        _witness(H, 'C05', 'drain:not_empty', 'drain_pop', S, detail=left)
    H.cnt['drained_histories'] += 1


History.step = _step  # type: ignore
History.drain = _drain  # type: ignore


class _Timeout(BaseException):
    """BaseException: must not be swallowed by the per-check `except Exception`."""


def _alarm(signum: int, frame: Any) -> None:
    raise _Timeout()


def run_calls(
    init: dict[str, Any], source: Any, flags: dict[str, Any] | None = None,
    limit_s: int = 20,
) -> History:
    """Run a history. `source` is a list of calls or a callable
    (history) -> call | None that draws the next call from the state."""
    H = History(init, **{k: v for k, v in (flags or {}).items() if not k.startswith('_')})
    H.status = 'ok'  # type: ignore
    old = None
    try:
        # CPU-time watchdog (ITIMER_VIRTUAL): independent of machine load
        old = signal.signal(signal.SIGVTALRM, _alarm)
        signal.setitimer(signal.ITIMER_VIRTUAL, float(limit_s))
    except ValueError:
        old = None
    try:
        if callable(source):
            while True:
                call = source(H)
                if call is None or not H.step(call):  # type: ignore
                    break
        else:
            for call in source:
                if call.get('m') == 'drain':
                    continue
                if not H.step(call):  # type: ignore
                    break
        if not H.fatal and H.f_drain:
            H.drain()  # type: ignore
    except _Timeout:
        H.status = 'timeout'  # type: ignore
    except Exception as e:  # noqa  harness failure: never a verdict
        H.status = 'harness_error: %s: %s @ %s' % (  # type: ignore
            type(e).__name__, str(e)[:200], core.short_tb(e, 4),
        )
    finally:
        if old is not None:
            signal.setitimer(signal.ITIMER_VIRTUAL, 0.0)
            signal.signal(signal.SIGVTALRM, old)
    if H.alias_used and H.wit and not (flags or {}).get('_noalias'):
        # does the finding need the re-used Operation objects? Re-run the
        # same calls with fresh objects; only what disappears is tagged.
        H2 = run_calls(init, _strip_refs(H.calls), dict(flags or {}, _noalias=True), limit_s)
        still = {w['kind'] for w in H2.wit}
        for w in H.wit:
            if w['kind'] not in still and w.get('shared_operation_objects'):
                w['kind_without_alias'] = w['kind']
                w['kind'] = w['kind'] + '+aliased_operation'
    return H


def _strip_refs(calls: list[dict[str, Any]]) -> list[dict[str, Any]]:
    def strip(x: Any) -> Any:
        if isinstance(x, dict):
            return {k: strip(v) for k, v in x.items() if k != 'ref'}
        if isinstance(x, list):
            return [strip(v) for v in x]
        return x
    return [strip(c) for c in calls if c.get('m') != 'drain']


# --------------------------------------------------------------------------
# history generator: arguments are drawn from the current state
# --------------------------------------------------------------------------
WEIGHTS = {
    'append': 5, 'append_gate': 8, 'append_circuit': 3, 'extend': 2,
    'insert': 5, 'insert_gate': 6, 'insert_circuit': 4,
    'pop': 6, 'pop_cycle': 2, 'batch_pop': 2, 'remove': 2, 'remove_all': 1,
    'replace': 3, 'replace_gate': 3, 'batch_replace': 2,
    'replace_with_circuit': 3,
    'append_qudit': 0.6, 'extend_qudits': 0.3, 'insert_qudit': 1,
    'pop_qudit': 1, 'renumber_qudits': 2,
    'fold': 6, 'unfold': 4, 'batch_unfold': 1.5, 'unfold_all': 0.6,
    'straighten': 3, 'compress': 1.5,
    'copy': 1, 'become': 0.4, 'clear': 0.15, 'add': 1, 'mul': 0.5,
    'iadd': 0.8, 'imul': 0.4, 'inverse': 0.6, 'set_params': 1.5,
    'freeze_param': 1,
}
GROW = {'append', 'append_gate', 'append_circuit', 'extend', 'insert', 'insert_gate', 'insert_circuit', 'add', 'mul', 'iadd', 'imul'}
SHRINK = {'pop', 'pop_cycle', 'batch_pop', 'remove', 'remove_all', 'pop_qudit'}
QUDIT_EDITS = {'append_qudit', 'extend_qudits', 'insert_qudit', 'pop_qudit', 'renumber_qudits'}
NEEDS_OPS = {'pop', 'pop_cycle', 'batch_pop', 'remove', 'remove_all', 'replace', 'replace_gate', 'batch_replace', 'replace_with_circuit', 'fold', 'unfold', 'batch_unfold', 'straighten', 'freeze_param'}


class Gen:
    def __init__(
        self, rng: np.random.Generator, n_calls: int, p_invalid: float = 0.1,
        renumber: bool = True, qudit_edits: bool = True, alias: bool = False,
        max_ops: int = 36, max_qudits: int = 7, only: Iterable[str] | None = None,
        exclude: Iterable[str] = (), operators: bool = True,
    ) -> None:
        self.rng = rng
        self.n_calls = n_calls
        self.p_invalid = p_invalid
        self.alias = alias
        self.max_ops = max_ops
        self.max_qudits = max_qudits
        self.w = dict(WEIGHTS)
        if not renumber:
            self.w.pop('renumber_qudits')
        if not qudit_edits:
            for m in QUDIT_EDITS:
                self.w.pop(m, None)
        if not operators:
            for m in ('copy', 'become', 'clear', 'add', 'mul', 'iadd', 'imul', 'inverse'):
                self.w.pop(m, None)
        if only is not None:
            self.w = {m: v for m, v in self.w.items() if m in set(only)}
        for m in exclude:
            self.w.pop(m, None)
        self.nref = 0

    # -------------------------------------------------------------- helpers
    def pick_method(self, S: Snap) -> str:
        names = list(self.w)
        w = np.array([self.w[m] for m in names], dtype=float)
        nops = len(S.ops)
        nblocks = sum(1 for r in S.ops if is_block(r.desc))
        for k, m in enumerate(names):
            if nops == 0 and m in NEEDS_OPS:
                w[k] *= 0.05
            if nops == 0 and m in GROW:
                w[k] *= 3
            if nops > self.max_ops and m in GROW:
                w[k] *= 0.1
            if nops > self.max_ops and m in SHRINK:
                w[k] *= 4
            if nops > self.max_ops // 2 and m in ('mul', 'imul', 'add', 'iadd'):
                w[k] *= 0.2
            if m in ('unfold', 'batch_unfold', 'unfold_all') and nblocks == 0:
                w[k] *= 0.1
            if m in ('append_qudit', 'extend_qudits', 'insert_qudit') and S.n >= self.max_qudits:
                w[k] = 0
        return str(names[int(self.rng.choice(len(names), p=w / w.sum()))])

    def op_spec(self, S: Snap, bad: bool, gate_form: bool) -> dict[str, Any]:
        rng = self.rng
        s = rand_op_spec(rng, S.radixes)
        if self.alias and not gate_form and rng.random() < 0.35:
            if self.nref and rng.random() < 0.6:
                # re-use the Operation object first created under this ref
                # (the recipe next to it is only the fallback used when a
                # shrunk history no longer contains the creating call)
                s['ref'] = int(rng.integers(self.nref))
                s['reuse'] = True
            else:
                s['ref'] = self.nref
                self.nref += 1
        if not bad:
            return s
        kind = int(rng.integers(5 if gate_form else 2))
        if kind == 0:        # qudit out of range
            s['loc'] = list(s['loc'])
            s['loc'][int(rng.integers(len(s['loc'])))] = S.n + int(rng.integers(0, 2))
        elif kind == 1:      # radix mismatch
            q = s['loc'][0]
            other = 3 if S.radixes[q] != 3 else 2
            s = {'g': ['lib', 'HGate', [] if other == 2 else [other]], 'loc': [q], 'p': []}
        elif kind == 2:      # wrong location size
            s['loc'] = list(s['loc']) + [int((s['loc'][-1] + 1) % max(S.n, 1))] if rng.random() < 0.5 and S.n > len(s['loc']) else list(s['loc'])[:-1]
        elif kind == 3:      # duplicate qudit
            s = {'g': ['lib', 'CNOTGate', []], 'loc': [s['loc'][0], s['loc'][0]], 'p': []}
        else:                # wrong parameter count
            s = {'g': ['lib', 'U3Gate', []], 'loc': [s['loc'][0]], 'p': [0.5]}
        return s

    def cyc(self, S: Snap, wild: bool) -> int:
        rng = self.rng
        if S.ncyc == 0 or wild or rng.random() < 0.12:
            return int(rng.integers(-S.ncyc - 3, S.ncyc + 4))
        if rng.random() < 0.15:
            return -int(rng.integers(1, S.ncyc + 1))
        return int(rng.integers(0, S.ncyc))

    def op_point(self, S: Snap, blocks: bool = False, neg: bool = False) -> list[int] | None:
        rng = self.rng
        cand = [r for r in S.ops if (not blocks or isinstance(r.obj.gate, CircuitGate))]
        if not cand:
            return None
        r = cand[int(rng.integers(len(cand)))]
        c, q = r.cycle, int(r.loc[int(rng.integers(len(r.loc)))])
        if neg and rng.random() < 0.2:
            if rng.random() < 0.5:
                c -= S.ncyc
            else:
                q -= S.n
        return [c, q]

    def bad_point(self, S: Snap) -> list[int]:
        rng = self.rng
        idle = [(c, q) for c in range(S.ncyc) for q in range(S.n) if S.cells[c][q] < 0]
        if idle and rng.random() < 0.5:
            c, q = idle[int(rng.integers(len(idle)))]
            return [c, q]
        if rng.random() < 0.5:
            return [S.ncyc + int(rng.integers(0, 3)), int(rng.integers(S.n))]
        return [int(rng.integers(max(S.ncyc, 1))), S.n + int(rng.integers(0, 2))]

    def sub(self, radixes: Sequence[int], lo: int = 0, hi: int = 4) -> dict[str, Any]:
        return rand_circ_spec(self.rng, radixes, int(self.rng.integers(lo, hi + 1)))

    def region(self, S: Snap, bad: bool) -> dict[str, list[int]]:
        rng = self.rng
        if bad and len(S.ops) >= 3 and rng.random() < 0.45:
            # "bridge": two operations joined by a dependency path through
            # operations outside the region (not convex; must be refused)
            cols = S.cols()
            succ: dict[int, list[int]] = {}
            for col in cols:
                for x, y in zip(col, col[1:]):
                    succ.setdefault(x, []).append(y)
            a0 = int(rng.integers(len(S.ops)))
            cur = a0
            for _ in range(int(rng.integers(2, 5))):
                nx = succ.get(cur)
                if not nx:
                    break
                cur = nx[int(rng.integers(len(nx)))]
            if cur != a0:
                reg0: dict[int, list[int]] = {}
                for i in (a0, cur):
                    r = S.ops[i]
                    for q in r.loc:
                        if q in reg0:
                            reg0[q] = [min(reg0[q][0], r.cycle), max(reg0[q][1], r.cycle)]
                        else:
                            reg0[q] = [r.cycle, r.cycle]
                return {str(q): v for q, v in reg0.items()}
        if bad or not S.ops:
            k = int(rng.integers(4))
            if k == 0:
                return {}
            if k == 1 and S.ncyc:
                q = int(rng.integers(S.n))
                return {str(q): [S.ncyc - 1, S.ncyc + 1]}
            # random rectangle-ish region (often not convex / partial)
            qs = [int(x) for x in rng.choice(S.n, size=int(rng.integers(1, min(3, S.n) + 1)), replace=False)]
            out = {}
            for q in qs:
                lo = int(rng.integers(0, max(S.ncyc, 1)))
                out[str(q)] = [lo, lo + int(rng.integers(0, 3))]
            return out
        seed = S.ops[int(rng.integers(len(S.ops)))]
        reg: dict[int, list[int]] = {q: [seed.cycle, seed.cycle] for q in seed.loc}
        cols = S.cols()
        target = int(rng.integers(1, 7))
        maxq = int(rng.integers(1, 4))
        for _ in range(target * 3):
            members = {S.cells[c][q] for q, (lo, hi) in reg.items() for c in range(lo, hi + 1) if S.cells[c][q] >= 0}
            if len(members) >= target:
                break
            # candidate neighbours: next/prev op on a region qudit
            cand = []
            for q, (lo, hi) in reg.items():
                col = cols[q]
                inside = [k for k, i in enumerate(col) if lo <= S.ops[i].cycle <= hi]
                if inside:
                    if inside[-1] + 1 < len(col):
                        cand.append(col[inside[-1] + 1])
                    if inside[0] > 0:
                        cand.append(col[inside[0] - 1])
            cand = [i for i in cand if i not in members]
            if not cand:
                break
            r = S.ops[cand[int(rng.integers(len(cand)))]]
            if len(set(reg) | set(r.loc)) > maxq:
                continue
            for q in r.loc:
                if q in reg:
                    reg[q] = [min(reg[q][0], r.cycle), max(reg[q][1], r.cycle)]
                else:
                    reg[q] = [r.cycle, r.cycle]
        # closure: operations touching the region are taken in entirely
        for _ in range(4):
            grew = False
            for q, (lo, hi) in list(reg.items()):
                for c in range(lo, hi + 1):
                    i = S.cells[c][q]
                    if i < 0:
                        continue
                    for qq in S.ops[i].loc:
                        if qq not in reg:
                            reg[qq] = [c, c]
                            grew = True
                        elif not (reg[qq][0] <= c <= reg[qq][1]):
                            reg[qq] = [min(reg[qq][0], c), max(reg[qq][1], c)]
                            grew = True
            if not grew:
                break
        if rng.random() < 0.25:      # stretch into neighbouring idle cells
            q = list(reg)[int(rng.integers(len(reg)))]
            lo, hi = reg[q]
            if rng.random() < 0.5 and lo > 0 and S.cells[lo - 1][q] < 0:
                reg[q] = [lo - 1, hi]
            elif hi + 1 < S.ncyc and S.cells[hi + 1][q] < 0:
                reg[q] = [lo, hi + 1]
        return {str(q): [int(v[0]), int(v[1])] for q, v in reg.items()}

    # ----------------------------------------------------------------- call
    def __call__(self, H: History) -> dict[str, Any] | None:
        if H.step_no >= self.n_calls:
            return None
        S = H.snap
        rng = self.rng
        m = self.pick_method(S)
        bad = bool(rng.random() < self.p_invalid)
        a: dict[str, Any] = {}
        n = S.n
        if m in ('append', 'append_gate'):
            a['op'] = self.op_spec(S, bad, m == 'append_gate')
        elif m == 'extend':
            a['ops'] = [self.op_spec(S, bad and k == 1, False) for k in range(int(rng.integers(0, 4)))]
        elif m in ('insert', 'insert_gate'):
            a['c'] = self.cyc(S, False)
            a['op'] = self.op_spec(S, bad, m == 'insert_gate')
        elif m in ('append_circuit', 'insert_circuit'):
            loc = rand_loc(rng, n, 3)
            rad = [S.radixes[q] for q in loc]
            if bad:
                if rng.random() < 0.5 and n > len(loc):
                    rad = rad + [2]
                else:
                    loc[0] = n
            a.update(sub=self.sub(rad), loc=loc, acg=bool(rng.random() < 0.35), move=bool(rng.random() < 0.3))
            if m == 'insert_circuit':
                a['c'] = self.cyc(S, False)
        elif m == 'pop':
            if rng.random() < 0.3 and not bad:
                a['pt'] = None
            else:
                a['pt'] = self.bad_point(S) if bad or not S.ops else self.op_point(S, neg=True)
        elif m == 'pop_cycle':
            a['c'] = self.cyc(S, bad)
        elif m == 'batch_pop':
            pts = [self.op_point(S, neg=True) for _ in range(int(rng.integers(1, 5)))] if S.ops else []
            pts = [p for p in pts if p is not None]
            if S.ops and rng.random() < 0.3:
                idle = [[c, q] for c in range(S.ncyc) for q in range(n) if S.cells[c][q] < 0]
                if idle:
                    pts.append(idle[int(rng.integers(len(idle)))])
            if bad or not pts:
                pts = pts[:1] + [self.bad_point(S)] if rng.random() < 0.7 else []
            a['pts'] = pts
        elif m in ('remove', 'remove_all'):
            p = None if bad else self.op_point(S)
            if p is None:
                a['x'] = {'op': rand_op_spec(rng, S.radixes)} if rng.random() < 0.5 else {'gate': ['lib', 'SqrtISwapGate', []]}
            elif rng.random() < 0.5:
                a['x'] = {'op': {'like': p}}
            else:
                a['x'] = {'like_gate': p}
        elif m in ('replace', 'replace_gate'):
            p = self.bad_point(S) if (bad and rng.random() < 0.5) or not S.ops else self.op_point(S, neg=rng.random() < 0.1)
            a['pt'] = p
            i = S.at(p[0], p[1]) if p[0] >= 0 and p[1] >= 0 else -1
            r = rng.random()
            if i >= 0 and r < 0.4:
                # same location set, possibly permuted, other gate
                old = S.ops[i]
                loc = [int(q) for q in rng.permutation(list(old.loc))]
                g = rand_gate_recipe(rng, [S.radixes[q] for q in loc])
                a['op'] = {'g': g, 'loc': loc, 'p': rand_params(rng, build_gate(g).num_params)}
            elif i >= 0 and r < 0.55:
                a['op'] = {'like': [int(p[0]), int(p[1])], 'p': rand_params(rng, len(S.ops[i].obj.params))}
            else:
                s = self.op_spec(S, False, m == 'replace_gate')
                if i >= 0 and p[1] not in s['loc'] and not bad and 'ref' not in s:
                    s['loc'][0] = int(p[1]) if int(p[1]) not in s['loc'] else s['loc'][0]
                    g = rand_gate_recipe(rng, [S.radixes[q] for q in s['loc']])
                    s = {'g': g, 'loc': s['loc'], 'p': rand_params(rng, build_gate(g).num_params)}
                a['op'] = s
        elif m == 'batch_replace':
            k = int(rng.integers(1, 4))
            idx = list(rng.permutation(len(S.ops)))[:k] if S.ops else []
            alone = [i for i in range(len(S.ops)) if len(S.cycle_ops(S.ops[i].cycle)) == 1]
            if alone and rng.random() < 0.6:
                # an operation alone in its cycle: replacing it with another
                # location set makes the cycle vanish / reappear mid-batch
                first = alone[int(rng.integers(len(alone)))]
                idx = [first] + [i for i in idx if int(i) != first][:k - 1]
            pts, ops = [], []
            for i in idx:
                r = S.ops[int(i)]
                sub = list(r.loc)
                x = rng.random()
                if len(sub) > 1 and x < 0.35:
                    sub = sub[:-1]
                elif x < 0.6 and len(sub) < 3:
                    free = [q for q in range(n) if S.cells[r.cycle][q] < 0]
                    if free:
                        sub = sub + [free[int(rng.integers(len(free)))]]
                loc = [int(q) for q in rng.permutation(sub)]
                inter = [q for q in loc if q in r.loc]
                pts.append([r.cycle, inter[int(rng.integers(len(inter)))]])
                g = rand_gate_recipe(rng, [S.radixes[q] for q in loc])
                ops.append({'g': g, 'loc': loc, 'p': rand_params(rng, build_gate(g).num_params)})
            if bad and pts:
                if rng.random() < 0.5:
                    ops = ops[:-1]
                else:
                    pts[0] = self.bad_point(S)
            a.update(pts=pts, ops=ops)
        elif m == 'replace_with_circuit':
            p = self.bad_point(S) if (bad and rng.random() < 0.5) or not S.ops else self.op_point(S)
            a['pt'] = p
            i = S.at(p[0], p[1])
            rad = [S.radixes[q] for q in S.ops[i].loc] if i >= 0 else [2]
            if bad and rng.random() < 0.5:
                rad = rad + [2]
            a.update(sub=self.sub(rad), acg=bool(rng.random() < 0.3))
        elif m == 'unfold':
            p = self.op_point(S, blocks=True)
            if p is None or bad:
                p = self.op_point(S) if S.ops and rng.random() < 0.6 else self.bad_point(S)
            a['pt'] = p
        elif m == 'batch_unfold':
            pts = [self.op_point(S, blocks=True) for _ in range(int(rng.integers(1, 4)))]
            pts = [p for p in pts if p is not None]
            if bad or not pts:
                pts = pts + [self.op_point(S) if S.ops and rng.random() < 0.6 else self.bad_point(S)]
            a['pts'] = pts
        elif m in ('fold', 'straighten'):
            a['region'] = self.region(S, bad)
        elif m in ('append_qudit',):
            a['radix'] = int(rng.choice([2, 2, 3, 4])) if not bad else int(rng.choice([1, 0, -2]))
        elif m == 'extend_qudits':
            a['radixes'] = [int(rng.choice([2, 3])) for _ in range(int(rng.integers(0, 3)))]
            if bad:
                a['radixes'].append(1)
        elif m == 'insert_qudit':
            a['i'] = int(rng.integers(-n - 2, n + 3))
            a['radix'] = int(rng.choice([2, 2, 3, 4])) if not bad else 1
        elif m == 'pop_qudit':
            a['i'] = int(rng.integers(-n, n)) if not bad else int(rng.choice([n, n + 1, -n - 1]))
        elif m == 'renumber_qudits':
            if bad:
                k = int(rng.integers(3))
                perm = [int(x) for x in rng.permutation(n)]
                a['perm'] = perm[:-1] if k == 0 else ([perm[0]] * n if k == 1 and n > 1 else perm[:-1] + [n + 1])
            else:
                groups: dict[int, list[int]] = {}
                for q, r in enumerate(S.radixes):
                    groups.setdefault(r, []).append(q)
                perm = list(range(n))
                for qs in groups.values():
                    sh = [int(x) for x in rng.permutation(qs)]
                    for q, t in zip(qs, sh):
                        perm[q] = t
                a['perm'] = perm
        elif m in ('become', 'add', 'iadd'):
            rad = list(S.radixes)
            if m == 'become' and rng.random() < 0.5:
                rad = [int(rng.choice([2, 2, 3])) for _ in range(int(rng.integers(1, 5)))]
            if bad and m != 'become':
                rad = rad + [2]
            a['sub'] = self.sub(rad, 0, 5)
            if m == 'become':
                a['deep'] = bool(rng.random() < 0.7)
        elif m in ('mul', 'imul'):
            a['k'] = int(rng.choice([0, 1, 2, 2, 3])) if len(S.ops) < 12 else int(rng.choice([0, 1, 2]))
        elif m == 'inverse':
            a['via'] = 'op' if rng.random() < 0.5 else 'method'
        elif m == 'set_params':
            k = sum(len(r.obj.params) for r in S.ops)
            a['params'] = rand_params(rng, k + (1 if bad else 0))
        elif m == 'freeze_param':
            k = sum(len(r.obj.params) for r in S.ops)
            a['i'] = int(rng.integers(k)) if k and not bad else int(k + rng.integers(0, 3))
        return {'m': m, 'a': a}


# --------------------------------------------------------------------------
# shrinking (delta debugging on the call list) and replay
# --------------------------------------------------------------------------
def base_kind(k: str) -> str:
    return k.split('+')[0]


def fires(init: dict[str, Any], calls: list[dict[str, Any]], kind: str, flags: dict[str, Any]) -> dict[str, Any] | None:
    H = run_calls(init, calls, dict(flags, every_step=True), limit_s=5)
    if H.status == 'timeout':  # type: ignore
        raise _Timeout()
    for w in H.wit:
        if base_kind(w['kind']) == base_kind(kind):
            return w
    return None


def shrink(
    init: dict[str, Any], calls: list[dict[str, Any]], kind: str,
    flags: dict[str, Any], max_runs: int = 120,
) -> tuple[list[dict[str, Any]], dict[str, Any] | None, int]:
    """ddmin over the call list: drop calls while the same kind still fires.
    Returns (calls, witness of the shrunk history, number of re-executions)."""
    calls = [c for c in calls if c.get('m') != 'drain']
    runs = 0
    timeouts = 0
    best = None
    n = 2
    while len(calls) >= 2 and runs < max_runs:
        chunk = max(1, len(calls) // n)
        reduced = False
        for start in range(0, len(calls), chunk):
            cand = calls[:start] + calls[start + chunk:]
            if not cand:
                continue
            runs += 1
            try:
                w = fires(init, cand, kind, flags)
            except _Timeout:
                timeouts += 1
                if timeouts >= 2:
                    return calls, best, runs
                w = None
            if w is not None:
                calls, best = cand, w
                n = max(n - 1, 2)
                reduced = True
                break
            if runs >= max_runs:
                break
        if not reduced:
            if chunk == 1:
                break
            n = min(len(calls), n * 2)
    # try a narrower starting circuit is not attempted: qudit indices are
    # baked into the calls
    return calls, best, runs


def _shrink_job(arg: tuple[dict[str, Any], dict[str, Any], bool]) -> dict[str, Any]:
    w, flags, do = arg
    if not do:
        return w
    fl = dict(flags)
    if w.get('method') != 'drain_pop' and not any(c.get('m') == 'drain' for c in w['history']):
        fl['drain'] = False
    calls, best, runs = shrink(w['init'], w['history'], w['kind'], fl, max_runs=80)
    if best is None:
        w['shrunk'] = False
        w['shrink_runs'] = runs
        return w
    best = core.jsonable(best)
    best['shrunk'] = True
    best['shrunk_from_calls'] = len(w['history'])
    best['shrink_runs'] = runs
    if w.get('aliased_operation_reuses') and not best.get('aliased_operation_reuses'):
        best['note'] = 'found in a history that re-used Operation objects, but reproduces without'
    return best


def replay_witness(w: dict[str, Any], flags: dict[str, Any] | None = None) -> History:
    return run_calls(w['init'], [c for c in w['history'] if c.get('m') != 'drain'], dict(flags or {}, every_step=True))


# --------------------------------------------------------------------------
# workers (random tier, exhaustive tier) -- results are JSON-able
# --------------------------------------------------------------------------
def _result(H: History, idx: Any, flags: dict[str, Any], props: Sequence[str], do_shrink: dict[str, int]) -> dict[str, Any]:
    out: dict[str, Any] = {
        'idx': idx, 'status': H.status, 'cnt': dict(H.cnt),  # type: ignore
        'effective': H.effective, 'structural': H.structural,
        'names': list(H.names), 'init': H.init, 'steps': H.step_no, 'wit': [],
        'other': [],
    }
    for w in H.wit:
        if w['prop'] not in props:
            out['other'].append([w['prop'], w['kind']])
            continue
        k = w['kind']
        w['shrunk'] = False
        if do_shrink.get(k, 0) < 2:
            do_shrink[k] = do_shrink.get(k, 0) + 1
            out['wit'].append(core.jsonable(w))
        else:
            out['wit'].append({'kind': k, 'prop': w['prop'], 'n_calls': len(w['history']), 'dropped': True})
    return out


def random_case(seed: int, pid: str, idx: int) -> tuple[dict[str, Any], Gen]:
    """History #idx of the random tier: (init, generator)."""
    rng = core.rng_for(seed, pid, 1, idx)
    n = int(rng.choice([2, 3, 3, 4, 4, 5, 5, 6, 7]))
    if rng.random() < 0.3:
        rad = [int(rng.choice([2, 2, 3, 4])) for _ in range(n)]
        while refsim.dim_of(rad) > 512:
            rad[int(np.argmax(rad))] = 2
    else:
        rad = [2] * n
    g = Gen(
        rng, int(rng.integers(10, 81)), p_invalid=0.1,
        renumber=bool(rng.random() < 0.35), alias=bool(rng.random() < 0.04),
    )
    return {'radixes': rad}, g


def random_worker(arg: tuple[int, str, list[int], dict[str, Any], list[str]]) -> list[dict[str, Any]]:
    seed, pid, idxs, flags, props = arg
    out = []
    shr: dict[str, int] = {}
    for idx in idxs:
        init, g = random_case(seed, pid, idx)
        H = run_calls(init, g, flags)
        out.append(_result(H, idx, flags, props, shr))
    return out


# --------------------------------------------------------------------------
# exhaustive tier: all words of length <= L over reduced alphabets
# --------------------------------------------------------------------------
def _g(name: str, loc: list[int], p: list[float] | None = None) -> dict[str, Any]:
    return {'g': ['lib', name, []], 'loc': loc, 'p': p or []}


def _ag(name: str, loc: list[int], p: list[float] | None = None) -> dict[str, Any]:
    return {'m': 'append_gate', 'a': {'op': _g(name, loc, p)}}


def _ig(c: int, name: str, loc: list[int], p: list[float] | None = None) -> dict[str, Any]:
    return {'m': 'insert_gate', 'a': {'c': c, 'op': _g(name, loc, p)}}


_SUB2 = {'radixes': [2, 2], 'ops': [[['lib', 'HGate', []], [0], [], None], [['lib', 'CNOTGate', []], [0, 1], [], None], [['lib', 'TGate', []], [1], [], None]]}
_SUB1 = {'radixes': [2], 'ops': [[['lib', 'XGate', []], [0], [], None], [['lib', 'SGate', []], [0], [], None]]}

FAMILIES: dict[str, dict[str, Any]] = {
    'insert_pop': {
        'radixes': [2, 2],
        'prefixes': [[], [_ag('HGate', [0]), _ag('CNOTGate', [0, 1]), _ag('TGate', [1])]],
        'letters': [
            _ag('XGate', [0]), _ag('CNOTGate', [1, 0]),
            _ig(0, 'SGate', [1]), _ig(1, 'CZGate', [0, 1]), _ig(-1, 'ZGate', [0]), _ig(7, 'HGate', [1]),
            {'m': 'pop', 'a': {'pt': None}}, {'m': 'pop', 'a': {'pt': [0, 0]}},
            {'m': 'pop', 'a': {'pt': [1, 1]}}, {'m': 'pop', 'a': {'pt': [-1, 0]}},
            {'m': 'pop_cycle', 'a': {'c': 0}}, {'m': 'pop_cycle', 'a': {'c': -1}},
            {'m': 'remove', 'a': {'x': {'gate': ['lib', 'CNOTGate', []]}}},
            {'m': 'replace_gate', 'a': {'pt': [1, 0], 'op': _g('U3Gate', [0], [0.1, 0.2, 0.3])}},
        ],
    },
    'fold_unfold': {
        'radixes': [2, 2, 2],
        'prefixes': [
            [_ag('HGate', [0]), _ag('CNOTGate', [0, 1]), _ag('TGate', [1]), _ag('CNOTGate', [1, 2])],
            [_ag('XGate', [2]), _ag('CNOTGate', [2, 0]), _ag('SGate', [1]), _ag('CZGate', [0, 1]), _ag('HGate', [2])],
        ],
        'letters': [
            {'m': 'fold', 'a': {'region': {'0': [0, 0]}}},
            {'m': 'fold', 'a': {'region': {'0': [0, 1], '1': [0, 1]}}},
            {'m': 'fold', 'a': {'region': {'1': [1, 2], '0': [1, 1]}}},
            {'m': 'fold', 'a': {'region': {'1': [2, 3], '2': [3, 3]}}},
            {'m': 'fold', 'a': {'region': {'0': [0, 2], '2': [0, 2]}}},
            {'m': 'fold', 'a': {'region': {'0': [0, 0], '1': [3, 3], '2': [3, 3]}}},
            {'m': 'unfold', 'a': {'pt': [0, 0]}}, {'m': 'unfold', 'a': {'pt': [1, 1]}},
            {'m': 'unfold', 'a': {'pt': [2, 1]}}, {'m': 'unfold_all', 'a': {}},
            {'m': 'straighten', 'a': {'region': {'0': [0, 1], '1': [1, 2]}}},
            {'m': 'straighten', 'a': {'region': {'1': [0, 2], '2': [2, 3]}}},
            {'m': 'compress', 'a': {}}, {'m': 'pop', 'a': {'pt': None}},
            _ig(1, 'YGate', [2]),
        ],
    },
    'qudits': {
        'radixes': [2, 2],
        'prefixes': [[_ag('HGate', [0]), _ag('CNOTGate', [0, 1])], [_ag('CNOTGate', [1, 0]), _ag('TGate', [1]), _ag('CZGate', [0, 1])]],
        'letters': [
            {'m': 'insert_qudit', 'a': {'i': 0, 'radix': 2}}, {'m': 'insert_qudit', 'a': {'i': 1, 'radix': 2}},
            {'m': 'insert_qudit', 'a': {'i': -1, 'radix': 2}}, {'m': 'append_qudit', 'a': {'radix': 2}},
            {'m': 'pop_qudit', 'a': {'i': 0}}, {'m': 'pop_qudit', 'a': {'i': -1}},
            {'m': 'renumber_qudits', 'a': {'perm': [1, 0]}}, {'m': 'renumber_qudits', 'a': {'perm': [1, 2, 0]}},
            {'m': 'renumber_qudits', 'a': {'perm': [0, 2, 1]}},
            _ag('CNOTGate', [0, 1]), _ag('CNOTGate', [2, 0]), _ig(0, 'XGate', [1]),
            {'m': 'pop', 'a': {'pt': None}}, {'m': 'pop', 'a': {'pt': [0, 1]}},
        ],
    },
    'batch': {
        'radixes': [2, 2, 2],
        'prefixes': [
            [_ag('HGate', [0]), _ag('XGate', [1]), _ag('CNOTGate', [0, 1]), _ag('TGate', [2]), _ag('CZGate', [1, 2])],
            [{'m': 'append_circuit', 'a': {'sub': _SUB2, 'loc': [0, 1], 'acg': True, 'move': False}},
             {'m': 'append_circuit', 'a': {'sub': _SUB1, 'loc': [2], 'acg': True, 'move': False}},
             _ag('CNOTGate', [1, 2])],
        ],
        'letters': [
            {'m': 'batch_pop', 'a': {'pts': [[0, 0], [0, 1]]}}, {'m': 'batch_pop', 'a': {'pts': [[1, 0], [0, 2]]}},
            {'m': 'batch_pop', 'a': {'pts': [[0, 0], [1, 1], [2, 2]]}},
            {'m': 'batch_replace', 'a': {'pts': [[0, 0], [0, 1]], 'ops': [_g('SGate', [0]), _g('ZGate', [1])]}},
            {'m': 'batch_replace', 'a': {'pts': [[1, 1], [0, 2]], 'ops': [_g('YGate', [1]), _g('SXGate', [2])]}},
            {'m': 'batch_replace', 'a': {'pts': [[1, 0], [2, 1]], 'ops': [_g('SGate', [0]), _g('ZGate', [1])]}},
            {'m': 'batch_unfold', 'a': {'pts': [[0, 0], [0, 2]]}}, {'m': 'batch_unfold', 'a': {'pts': [[0, 1]]}},
            {'m': 'replace_with_circuit', 'a': {'pt': [0, 0], 'sub': _SUB1, 'acg': False}},
            {'m': 'replace_with_circuit', 'a': {'pt': [1, 1], 'sub': _SUB2, 'acg': False}},
            {'m': 'replace_with_circuit', 'a': {'pt': [-1, 2], 'sub': _SUB1, 'acg': False}},
            {'m': 'insert_circuit', 'a': {'c': 1, 'sub': _SUB2, 'loc': [2, 0], 'acg': False}},
            {'m': 'insert_circuit', 'a': {'c': 0, 'sub': _SUB1, 'loc': [1], 'acg': True}},
            {'m': 'fold', 'a': {'region': {'0': [0, 1], '1': [0, 1]}}},
            {'m': 'pop', 'a': {'pt': None}},
        ],
    },
}


def exhaustive_items(maxlen: int) -> list[tuple[str, int, tuple[int, ...]]]:
    items = []
    for fam, d in FAMILIES.items():
        k = len(d['letters'])
        for pi in range(len(d['prefixes'])):
            for L in range(1, maxlen + 1):
                for word in itertools.product(range(k), repeat=L):
                    items.append((fam, pi, word))
    return items


def exhaustive_worker(arg: tuple[list[tuple[str, int, tuple[int, ...]]], dict[str, Any], list[str]]) -> list[dict[str, Any]]:
    items, flags, props = arg
    out = []
    shr: dict[str, int] = {}
    for fam, pi, word in items:
        d = FAMILIES[fam]
        calls = list(d['prefixes'][pi]) + [d['letters'][k] for k in word]
        H = run_calls({'radixes': d['radixes']}, calls, flags)
        r = _result(H, [fam, pi, list(word)], flags, props, shr)
        r['family'] = fam
        r['effective_letters'] = H.effective - len(d['prefixes'][pi])
        out.append(r)
    return out


# --------------------------------------------------------------------------
# circuits reachable by editing histories, for other checks
# --------------------------------------------------------------------------
def random_edited_circuit(
    rng: np.random.Generator, num_qudits: int,
    radixes: Sequence[int] | None = None, n_calls: int = 30,
    renumber: bool = False, qudit_edits: bool = False, blocks: bool = True,
    max_ops: int = 30,
) -> Circuit:
    """A Circuit reached through a random *valid* editing history starting
    from the empty circuit. Calls known to corrupt the circuit's private
    bookkeeping (renumber_qudits) are left out unless asked for; a call that
    raises or leaves an idle cycle behind (known straighten/fold defect) is
    rolled back, so the result always satisfies the documented invariants.
    num_qudits and radixes are preserved unless qudit_edits is set."""
    rad = [int(r) for r in (radixes if radixes is not None else [2] * num_qudits)]
    exclude = ['copy', 'become', 'clear', 'inverse', 'mul', 'imul']
    if not blocks:
        exclude += ['fold', 'unfold', 'batch_unfold', 'unfold_all']
    g = Gen(
        rng, 10 ** 9, p_invalid=0.0, renumber=renumber,
        qudit_edits=qudit_edits, max_ops=max_ops, exclude=exclude,
    )
    H = History({'radixes': rad}, order=False, views=False, unitary=False, drain=False)
    done = 0
    for _ in range(n_calls * 4):
        if done >= n_calls:
            break
        call = g(H)
        if call is None:
            break
        try:
            a = H.materialise(call)
        except Unmat:
            continue
        try:
            EXPECT[call['m']](H, H.snap, a)
        except (Invalid, Unspecified, Unmat):
            continue
        H.step_no += 1
        backup = H.circ.copy()
        try:
            ret, new = apply_call(H.circ, call['m'], a)
            work = new if new is not None else H.circ
            S = Snap(work)
            ok = not S.problems and all(
                any(i >= 0 for i in row) for row in S.cells
            )
            if not qudit_edits and S.radixes != tuple(rad):
                ok = False
        except Exception:  # noqa
            ok = False
        if not ok:
            H.circ = backup
            H.snap = Snap(backup)
            continue
        H.circ, H.snap = work, S
        H.calls.append(call)
        done += 1
    if not blocks and any(isinstance(r.obj.gate, CircuitGate) for r in H.snap.ops):
        H.circ.unfold_all()
    return H.circ


# --------------------------------------------------------------------------
# property driver shared by props/c04.py and props/c05.py
# --------------------------------------------------------------------------
ALL_METHODS = sorted(WEIGHTS)


def run_property(
    pid: str, tier: str, seed: int, replay: str | None,
    table: dict[str, dict[str, int]], flags: dict[str, Any],
    rule: str, assumptions: list[str], require: list[tuple[str, int]],
) -> int:
    import os
    run = core.Run(pid, tier, seed)
    if replay:
        return _do_replay(run, replay, flags)
    cfg = table[tier if tier in table else 'quick']
    workers = int(os.environ.get('VERIF_WORKERS', '0')) or min(16, os.cpu_count() or 4)
    per_kind: dict[str, list[dict[str, Any]]] = {}

    def absorb(r: dict[str, Any], sig: Any, nontrivial: bool, sample: Any = None) -> None:
        run.case(sig, nontrivial=nontrivial, sample=sample)
        for k, v in r['cnt'].items():
            run.count(k, v)
        run.count('steps', r['steps'])
        if r['status'] != 'ok':
            run.inconclusive_because('history %r: %s' % (r['idx'], r['status']))
        for prop, kind in r['other']:
            run.count('witness_of_other_property:%s' % prop)
        for w in r['wit']:
            run.count('witness:' + w['kind'])
            if not w.get('dropped'):
                per_kind.setdefault(w['kind'], []).append(w)

    # random tier
    n = cfg['random']
    chunk = 20
    args = [
        (seed, pid, list(range(s, min(n, s + chunk))), flags, [pid])
        for s in range(0, n, chunk)
    ]
    nsample = 0
    for res in core.pmap(random_worker, args, workers=workers):
        for r in res:
            nt = r['effective'] >= 5 and r['structural'] >= 1
            sample = None
            if nt and nsample < 3 and r['idx'] % 7 == 0:
                nsample += 1
                sample = {'tier': 'random', 'index': r['idx'], 'init': r['init'], 'calls': r['names'][:40], 'effective_calls': r['effective']}
            absorb(r, ('rnd', r['init']['radixes'], r['names']), nt, sample)
            run.count('random_histories')
            if nt:
                run.count('random_histories_nontrivial')

    # exhaustive tier
    items = exhaustive_items(cfg['exhaustive_len'])
    chunk = 300
    args2 = [(items[s:s + chunk], flags, [pid]) for s in range(0, len(items), chunk)]
    fam_counts: Counter[str] = Counter()
    for res in core.pmap(exhaustive_worker, args2, workers=workers):
        for r in res:
            fam_counts[r['family']] += 1
            absorb(r, ('exh', r['idx']), r['effective_letters'] >= 1)
            run.count('exhaustive_histories:' + r['family'])
    run.samples.append({'tier': 'exhaustive', 'family': 'fold_unfold', 'alphabet': [c['m'] for c in FAMILIES['fold_unfold']['letters']], 'max_len': cfg['exhaustive_len']})

    # report: at most 3 witnesses per mechanism, shrunk ones first
    chosen = []
    run.max_violation_files = 40
    for kind, ws in sorted(per_kind.items()):
        ws.sort(key=lambda w: len(w.get('history', [])))
        chosen.append((ws[0], flags, True))     # one shrunk witness per mechanism first
    for kind, ws in sorted(per_kind.items()):
        for w in ws[1:2]:
            chosen.append((w, flags, False))     # plus one as found
    for w in core.pmap(_shrink_job, chosen, workers=workers):
        run.count('witnesses_shrunk' if w.get('shrunk') else 'witnesses_unshrunk')
        run.violation(w)
    for name, minimum in require:
        run.require(name, minimum)
    for m in ALL_METHODS:
        run.require('call:' + m, 1)
    return run.finish(
        rule=rule, assumptions=assumptions,
        extra={
            'exhaustive': True,
            'exhaustive_subspace': 'all call words of length <= %d over the reduced alphabets %s (each after its fixed prefixes) on 2-3 qubits; %d histories' % (
                cfg['exhaustive_len'], sorted(FAMILIES), len(items),
            ),
            'exhaustive_histories': dict(fam_counts),
            'random_histories': n,
            'witness_kinds': {k: len(v) for k, v in sorted(per_kind.items())},
        },
    )


def _do_replay(run: core.Run, path: str, flags: dict[str, Any]) -> int:
    with open(path) as f:
        w = json.load(f)['witness']
    H = replay_witness(w, flags)
    run.case(('replay', w.get('kind')), nontrivial=True, sample={'replayed_calls': [c['m'] for c in w['history']]})
    for k, v in H.cnt.items():
        run.count(k, v)
    if H.status != 'ok':  # type: ignore
        run.inconclusive_because('replay: ' + H.status)  # type: ignore
    hit = [x for x in H.wit if base_kind(x['kind']) == base_kind(w.get('kind', ''))]
    print('replay of %s: %d calls, witnesses now: %s' % (
        w.get('kind'), len(w['history']), [x['kind'] for x in H.wit] or 'none',
    ))
    for x in hit[:1]:
        run.violation(core.jsonable(x))
    if not hit:
        print('the recorded kind did not fire again')
    return run.finish(rule='replay of one recorded history', min_distinct=1)
