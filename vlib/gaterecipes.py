"""Constructor recipes for every concrete class exported by bqskit.ir.gates.

A *spec* is a JSON-able, fully materialised description of one gate
construction (so a witness can be replayed):

    {'cls': 'HGate', 'args': {'radix': 3}}
    {'cls': 'ControlledGate', 'args': {'gate': <spec>, 'num_controls': 2,
        'control_radixes': [3, 2], 'control_levels': [[0, 1], 1]}}
    {'export': 'U1qPiGate'}          an instance exported by the package
    {'__matrix__': {'re': [[..]], 'im': [[..]]}}             (argument value)
    {'__circuit__': {'radixes': [..], 'ops': [[spec, loc, params], ..]}}

`build(spec)` constructs the gate (always with keyword arguments, so two
builds of the same spec are the *same* construction).

`RECIPES[name](rng, n)` returns up to ~n specs (all of them when the
argument space of the class is small). A name in `bqskit.ir.gates.__all__`
that is neither in RECIPES nor in NON_CONCRETE has no recipe; the C18 check
turns that into INCONCLUSIVE, so newly added gates are never skipped
silently.

The module also holds the outside references C18 compares against:
`QISKIT_TABLE` (same-name gates of qiskit.circuit.library) and
`reference_matrix` (closed forms transcribed from the class docstrings /
the repository's own unit tests / cirq where the docstring cites it, plus
algebraic relations between library gates such as SqrtISwap^2 = ISwap).
"""
from __future__ import annotations

import copy
import inspect
import itertools
from typing import Any
from typing import Callable

import numpy as np

# Abstract bases: exported (or importable) but not constructible gates.
NON_CONCRETE = ('ComposedGate', 'QuditGate', 'GeneralGate', 'ConstantGate')

PI = float(np.pi)
SPECIAL = [k * PI / 2 for k in range(-4, 5)]


def S(cls: str, **args: Any) -> dict[str, Any]:
    return {'cls': cls, 'args': args}


# ------------------------------------------------------------------ encode
def enc_matrix(m: np.ndarray) -> dict[str, Any]:
    m = np.asarray(m, dtype=np.complex128)
    return {'__matrix__': {
        're': [[float(x) for x in row] for row in m.real],
        'im': [[float(x) for x in row] for row in m.imag],
    }}


def dec_matrix(d: dict[str, Any]) -> np.ndarray:
    return np.array(d['re'], dtype=np.complex128) \
        + 1j * np.array(d['im'], dtype=np.complex128)


def haar(rng: np.random.Generator, d: int) -> np.ndarray:
    z = (rng.normal(size=(d, d)) + 1j * rng.normal(size=(d, d))) / np.sqrt(2)
    q, r = np.linalg.qr(z)
    ph = np.diag(r) / np.abs(np.diag(r))
    return q * ph


# ------------------------------------------------------------------- build
def build_circuit(c: dict[str, Any]) -> Any:
    from bqskit.ir.circuit import Circuit
    radixes = [int(r) for r in c['radixes']]
    circ = Circuit(len(radixes), radixes)
    for gs, loc, params in c['ops']:
        circ.append_gate(
            build(gs), [int(q) for q in loc], [float(p) for p in params],
        )
    return circ


def _dec(v: Any) -> Any:
    if isinstance(v, dict):
        if 'cls' in v or 'export' in v:
            return build(v)
        if '__matrix__' in v:
            return dec_matrix(v['__matrix__'])
        if '__circuit__' in v:
            return build_circuit(v['__circuit__'])
    return v


def build(spec: dict[str, Any]) -> Any:
    """Construct the gate described by `spec`."""
    import bqskit.ir.gates as G
    if 'export' in spec:
        return getattr(G, spec['export'])
    name = spec['cls']
    cls = getattr(G, name)
    args = {k: _dec(copy.deepcopy(v)) for k, v in spec.get('args', {}).items()}
    if name == 'FrozenParameterGate':
        args['frozen_params'] = {
            int(k): float(v) for k, v in args['frozen_params'].items()
        }
    elif name == 'MeasurementPlaceholder':
        args['classical_regs'] = [
            (str(a), int(b)) for a, b in args['classical_regs']
        ]
        args['measurements'] = {
            int(k): (str(v[0]), int(v[1]))
            for k, v in args['measurements'].items()
        }
    elif name == 'VariableLocationGate':
        args['locations'] = [tuple(int(q) for q in l) for l in args['locations']]
    return cls(**args)


def leaves(spec: dict[str, Any]) -> list[str]:
    """Class names of the non-composed gates a spec is made of."""
    if 'export' in spec:
        return [spec['export']]
    inner = spec.get('args', {}).get('gate')
    if isinstance(inner, dict) and ('cls' in inner or 'export' in inner):
        return leaves(inner)
    circ = spec.get('args', {}).get('circuit')
    if isinstance(circ, dict) and '__circuit__' in circ:
        out: list[str] = []
        for gs, _, _ in circ['__circuit__']['ops']:
            out.extend(leaves(gs))
        return out or [spec['cls']]
    return [spec['cls']]


def wrappers(spec: dict[str, Any]) -> list[str]:
    """Composed classes from the outside in."""
    out = []
    while isinstance(spec, dict) and 'cls' in spec:
        inner = spec.get('args', {}).get('gate')
        if isinstance(inner, dict) and ('cls' in inner or 'export' in inner):
            out.append(spec['cls'])
            spec = inner
        else:
            break
    return out


# ---------------------------------------------------------- leaf recipes
NOARG_CONSTANT = [
    'BGate', 'CCXGate', 'CHGate', 'CPIGate', 'CSGate', 'CTGate', 'CNOTGate',
    'CYGate', 'CZGate', 'ECRGate', 'ISwapGate', 'IToffoliGate', 'RCCXGate',
    'RC3XGate', 'SGate', 'SdgGate', 'SqrtCNOTGate', 'SqrtISwapGate',
    'SqrtTGate', 'SqrtXGate', 'SqrtXdgGate', 'SycamoreGate', 'TGate',
    'TdgGate', 'XGate', 'XXGate', 'YGate', 'YYGate', 'ZGate', 'ZZGate',
]
NOARG_PARAM = [
    'CCPGate', 'CKMGate', 'CKMdgGate', 'CPGate', 'CRXGate', 'CRYGate',
    'CRZGate', 'CUGate', 'FSIMGate', 'PhasedXZGate', 'RXGate', 'RXXGate',
    'RYGate', 'RYYGate', 'RZGate', 'RZZGate', 'U1Gate', 'U1qGate', 'U2Gate',
    'U3Gate', 'U8Gate',
]
EXPORTED_INSTANCES = ['U1qPiGate', 'U1qPi2Gate']

RADIXES = (2, 3, 4, 5)

Recipe = Callable[[np.random.Generator, int], list[dict[str, Any]]]
RECIPES: dict[str, Recipe] = {}


def _noarg(name: str) -> Recipe:
    return lambda rng, n: [S(name)]


for _n in NOARG_CONSTANT + NOARG_PARAM:
    RECIPES[_n] = _noarg(_n)
for _n in EXPORTED_INSTANCES:
    RECIPES[_n] = (lambda nm: (lambda rng, n: [{'export': nm}]))(_n)

for _n in ('ClockGate', 'CSUMGate', 'HGate', 'ShiftGate', 'SwapGate'):
    # also the default-argument construction
    RECIPES[_n] = (lambda nm: (lambda rng, n: [S(nm)] + [S(nm, radix=r) for r in RADIXES]))(_n)

RECIPES['PDGate'] = lambda rng, n: [S('PDGate', index=1)] + [
    S('PDGate', index=i, radix=r) for r in RADIXES for i in range(r)
]


def _subswap(rng: np.random.Generator, n: int) -> list[dict[str, Any]]:
    out = []
    for r in RADIXES:
        lv = list(itertools.product(range(r), repeat=2))
        k = max(2, n // 4)
        for _ in range(k):
            i, j = rng.choice(len(lv), size=2, replace=False)
            a, b = lv[int(i)], lv[int(j)]
            out.append(S(
                'SubSwapGate', radix=r,
                qudit_levels='%d,%d;%d,%d' % (a[0], a[1], b[0], b[1]),
            ))
    return out


RECIPES['SubSwapGate'] = _subswap


def rand_radixes(
    rng: np.random.Generator, k: int, maxdim: int, choices: tuple[int, ...] = RADIXES,
) -> list[int]:
    while True:
        r = [int(rng.choice(choices)) for _ in range(k)]
        if int(np.prod(r)) <= maxdim:
            return r


def _identity(rng: np.random.Generator, n: int) -> list[dict[str, Any]]:
    out = [S('IdentityGate'), S('IdentityGate', num_qudits=2), S('IdentityGate', num_qudits=3)]
    for _ in range(max(3, n // 2)):
        k = int(rng.integers(1, 4))
        out.append(S('IdentityGate', num_qudits=k, radixes=rand_radixes(rng, k, 64)))
    return out


RECIPES['IdentityGate'] = _identity


def _permutation(rng: np.random.Generator, n: int) -> list[dict[str, Any]]:
    out = [S('PermutationGate', num_qudits=1, location=[0])]
    for _ in range(max(6, n)):
        k = int(rng.integers(2, 5))
        m = int(rng.integers(1, k + 1))
        loc = [int(x) for x in rng.choice(k, size=m, replace=False)]
        out.append(S('PermutationGate', num_qudits=k, location=loc))
    return out


RECIPES['PermutationGate'] = _permutation


def _constunitary(rng: np.random.Generator, n: int) -> list[dict[str, Any]]:
    out = [S('ConstantUnitaryGate', utry=enc_matrix(haar(rng, 2)))]
    for _ in range(max(4, n // 2)):
        k = int(rng.integers(1, 4))
        r = rand_radixes(rng, k, 27)
        out.append(S(
            'ConstantUnitaryGate',
            utry=enc_matrix(haar(rng, int(np.prod(r)))), radixes=r,
        ))
    return out


RECIPES['ConstantUnitaryGate'] = _constunitary


def _cphase(rng: np.random.Generator, n: int) -> list[dict[str, Any]]:
    out = [S('ArbitraryCPhaseGate')]
    out += [S('ArbitraryCPhaseGate', radixes=[r, r]) for r in RADIXES]
    out += [S('ArbitraryCPhaseGate', radixes=[r]) for r in RADIXES]
    for _ in range(max(4, n // 2)):
        k = int(rng.integers(1, 4))
        out.append(S('ArbitraryCPhaseGate', radixes=rand_radixes(rng, k, 48)))
    return out


RECIPES['ArbitraryCPhaseGate'] = _cphase
RECIPES['DiagonalGate'] = lambda rng, n: [S('DiagonalGate')] + [
    S('DiagonalGate', num_qudits=k) for k in (1, 2, 3, 4)
]


def _mpr(name: str) -> Recipe:
    def f(rng: np.random.Generator, n: int) -> list[dict[str, Any]]:
        out = [S(name, num_qudits=k) for k in (1, 2, 3)]
        out += [
            S(name, num_qudits=k, target_qubit=t)
            for k in (1, 2, 3, 4) for t in range(k)
        ]
        return out
    return f


RECIPES['MPRYGate'] = _mpr('MPRYGate')
RECIPES['MPRZGate'] = _mpr('MPRZGate')
RECIPES['PauliGate'] = lambda rng, n: [S('PauliGate', num_qudits=k) for k in (1, 2, 3)]
RECIPES['PauliZGate'] = lambda rng, n: [S('PauliZGate', num_qudits=k) for k in (1, 2, 3, 4)]
RECIPES['RSU3Gate'] = lambda rng, n: [S('RSU3Gate', index=i) for i in range(8)]


def _varutry(rng: np.random.Generator, n: int) -> list[dict[str, Any]]:
    out = [
        S('VariableUnitaryGate', num_qudits=1),
        S('VariableUnitaryGate', num_qudits=2),
        S('VariableUnitaryGate', num_qudits=1, radixes=[3]),
        S('VariableUnitaryGate', num_qudits=1, radixes=[4]),
        S('VariableUnitaryGate', num_qudits=1, radixes=[5]),
        S('VariableUnitaryGate', num_qudits=2, radixes=[2, 3]),
        S('VariableUnitaryGate', num_qudits=2, radixes=[3, 3]),
    ]
    return out


RECIPES['VariableUnitaryGate'] = _varutry

# ------------------------------------------------------------- placeholders
RECIPES['BarrierPlaceholder'] = lambda rng, n: [
    S('BarrierPlaceholder', num_qudits=1),
    S('BarrierPlaceholder', num_qudits=3),
    S('BarrierPlaceholder', num_qudits=2, radixes=[3, 2]),
]
RECIPES['Reset'] = lambda rng, n: [S('Reset'), S('Reset', radix=3)]
RECIPES['MeasurementPlaceholder'] = lambda rng, n: [
    S('MeasurementPlaceholder', classical_regs=[['c', 2]], measurements={'0': ['c', 0], '1': ['c', 1]}),
    S('MeasurementPlaceholder', classical_regs=[['a', 1], ['b', 3]], measurements={'2': ['b', 1]}),
]
PLACEHOLDERS_NO_UNITARY = ('Reset', 'MeasurementPlaceholder')

LEAF_NAMES = [
    n for n in RECIPES
    if n not in ('BarrierPlaceholder', 'Reset', 'MeasurementPlaceholder')
]


# ------------------------------------------------------------ inner pools
def quick_dims(spec: dict[str, Any]) -> tuple[int, int, tuple[int, ...]]:
    g = build(spec)
    return g.dim, g.num_params, tuple(g.radixes)


def leaf_spec(
    rng: np.random.Generator, maxdim: int = 9, need_params: bool | None = None,
    qubit_only: bool = False, max_params: int = 16, non_qubit: bool = False,
) -> dict[str, Any]:
    """A random non-composed gate spec within the size limits."""
    for _ in range(200):
        name = LEAF_NAMES[int(rng.integers(len(LEAF_NAMES)))]
        specs = RECIPES[name](rng, 2)
        spec = specs[int(rng.integers(len(specs)))]
        try:
            dim, npar, rad = quick_dims(spec)
        except Exception:  # noqa: the class's own case reports it
            continue
        if dim > maxdim or npar > max_params:
            continue
        if need_params is True and npar == 0:
            continue
        if need_params is False and npar != 0:
            continue
        if qubit_only and any(r != 2 for r in rad):
            continue
        if non_qubit and all(r == 2 for r in rad):
            continue
        return spec
    if non_qubit:
        return S('RSU3Gate', index=1) if need_params is not False else S('ShiftGate', radix=3)
    return S('U3Gate') if need_params is not False else S('XGate')


def special_or_generic(rng: np.random.Generator) -> float:
    r = rng.random()
    if r < 0.35:
        return float(rng.choice(SPECIAL))
    if r < 0.45:
        return 0.0
    if r < 0.55:
        return float(rng.uniform(-1e3, 1e3))
    return float(rng.uniform(-2 * PI, 2 * PI))


def controlled_args(
    rng: np.random.Generator, inner_dim: int, maxdim: int,
) -> dict[str, Any]:
    for _ in range(100):
        nc = int(rng.choice([1, 1, 2, 2, 3]))
        style = int(rng.integers(4))
        if style == 0:      # all defaults (qubit controls, highest level)
            crad: Any = 2
            rl = [2] * nc
        elif style == 1:    # one integer radix for all
            crad = int(rng.choice([2, 3, 3, 4]))
            rl = [crad] * nc
        else:
            rl = [int(rng.choice([2, 3, 3, 4])) for _ in range(nc)]
            crad = list(rl)
        if int(np.prod(rl)) * inner_dim > maxdim:
            continue
        lst = int(rng.integers(4))
        if lst == 0:
            lv: Any = None
        elif lst == 1:
            lv = int(rng.integers(min(rl)))
        else:
            lv = []
            for r in rl:
                if rng.random() < 0.4:
                    lv.append(int(rng.integers(r)))
                else:
                    k = int(rng.integers(1, r + 1))
                    lv.append([int(x) for x in rng.choice(r, size=k, replace=False)])
        args: dict[str, Any] = {'num_controls': nc}
        if style != 0 or rng.random() < 0.3:
            args['control_radixes'] = crad
        if lv is not None or rng.random() < 0.3:
            args['control_levels'] = lv
        return args
    return {'num_controls': 1}


def embedded_args(
    rng: np.random.Generator, radixes: tuple[int, ...], maxdim: int,
) -> dict[str, Any] | None:
    for _ in range(100):
        tr = [int(rng.integers(r, 6)) for r in radixes]
        if int(np.prod(tr)) > maxdim:
            continue
        style = int(rng.integers(4))
        args: dict[str, Any] = {}
        if len(set(tr)) == 1 and rng.random() < 0.5:
            args['radixes'] = tr[0]
        else:
            args['radixes'] = tr
        if style == 0:
            pass                                       # lowest levels
        elif style == 1 and len(set(radixes)) == 1 and len(set(tr)) == 1:
            lm = [int(x) for x in rng.choice(tr[0], size=radixes[0], replace=False)]
            args['level_maps'] = lm                    # one map for all
        else:
            args['level_maps'] = [
                [int(x) for x in rng.choice(t, size=r, replace=False)]
                for r, t in zip(radixes, tr)
            ]
        return args
    return None


def vlg_args(
    rng: np.random.Generator, k: int, radixes: tuple[int, ...],
) -> dict[str, Any]:
    """Locations for a k-qudit gate whose union is {0..n-1}."""
    for _ in range(200):
        n = int(rng.integers(k, min(k + 2, 4) + 1))
        nl = int(rng.integers(1, 4))
        locs = []
        for _ in range(nl):
            locs.append([int(x) for x in rng.choice(n, size=k, replace=False)])
        if len({tuple(l) for l in locs}) != len(locs):
            continue
        used = sorted({q for l in locs for q in l})
        if used != list(range(len(used))):
            continue
        # consistent radixes
        rm: dict[int, int] = {}
        ok = True
        for l in locs:
            for r, q in zip(radixes, l):
                if rm.setdefault(q, r) != r:
                    ok = False
        if not ok:
            continue
        args: dict[str, Any] = {'locations': locs}
        if rng.random() < 0.3:
            args['radixes'] = [rm[q] for q in range(len(used))]
        return args
    return {'locations': [list(range(k))]}


def wrap(
    rng: np.random.Generator, cls: str, inner: dict[str, Any], maxdim: int,
) -> dict[str, Any] | None:
    """Wrap `inner` in the composed class `cls` with random valid arguments."""
    try:
        dim, npar, rad = quick_dims(inner)
    except Exception:  # noqa
        return None
    if cls == 'ControlledGate':
        if dim * 2 > maxdim:
            return None
        return S(cls, gate=inner, **controlled_args(rng, dim, maxdim))
    if cls == 'PowerGate':
        if rng.random() < 0.1:
            return S(cls, gate=inner)
        return S(cls, gate=inner, power=int(rng.choice([-3, -2, -2, -1, 0, 1, 2, 3, 3])))
    if cls == 'DaggerGate':
        return S(cls, gate=inner)
    if cls == 'TaggedGate':
        tags: list[Any] = ['t', 7, {'k': 1}, 'a b', 'layer:3']
        return S(cls, gate=inner, tag=tags[int(rng.integers(len(tags)))])
    if cls == 'FrozenParameterGate':
        m = int(rng.integers(0, npar + 1)) if rng.random() < 0.8 else npar
        idx = sorted(int(x) for x in rng.choice(npar, size=m, replace=False)) if npar else []
        if rng.random() < 0.5:
            idx = idx[::-1]          # dict insertion order is not sorted
        return S(cls, gate=inner, frozen_params={str(i): special_or_generic(rng) for i in idx})
    if cls == 'EmbeddedGate':
        a = embedded_args(rng, rad, maxdim)
        if a is None:
            return None
        return S(cls, gate=inner, **a)
    if cls == 'VariableLocationGate':
        if len(rad) > 3:
            return None
        a = vlg_args(rng, len(rad), rad)
        return S(cls, gate=inner, **a)
    raise ValueError(cls)


COMPOSED = [
    'ControlledGate', 'PowerGate', 'DaggerGate', 'EmbeddedGate',
    'FrozenParameterGate', 'TaggedGate', 'VariableLocationGate',
]


# Boundary constructions of the composed classes (always included)
CORNERS: dict[str, list[dict[str, Any]]] = {
    'ControlledGate': [
        # every level selected on the control = the gate without control
        S('ControlledGate', gate=S('RYGate'), num_controls=1, control_radixes=3, control_levels=[[0, 1, 2]]),
        S('ControlledGate', gate=S('ShiftGate', radix=3), control_radixes=3),
        S('ControlledGate', gate=S('RYGate'), num_controls=2, control_radixes=[3, 4], control_levels=[[0, 1], 0]),
    ],
    'PowerGate': [
        S('PowerGate', gate=S('EmbeddedGate', gate=S('U3Gate'), radixes=5), power=0),
        S('PowerGate', gate=S('ControlledGate', gate=S('RXGate'), control_radixes=3), power=0),
        S('PowerGate', gate=S('U3Gate'), power=0),
        S('PowerGate', gate=S('CSUMGate', radix=3), power=-2),
    ],
    'DaggerGate': [S('DaggerGate', gate=S('DaggerGate', gate=S('U3Gate')))],
    'EmbeddedGate': [
        S('EmbeddedGate', gate=S('U3Gate'), radixes=2),             # nothing to embed
        S('EmbeddedGate', gate=S('CNOTGate'), radixes=[3, 2], level_maps=[[2, 0], [1, 0]]),
    ],
    'FrozenParameterGate': [
        S('FrozenParameterGate', gate=S('HGate'), frozen_params={}),   # constant gate, nothing frozen
        S('FrozenParameterGate', gate=S('XGate'), frozen_params={}),
        S('FrozenParameterGate', gate=S('U3Gate'), frozen_params={}),
        S('FrozenParameterGate', gate=S('U3Gate'), frozen_params={'2': 0.0, '0': 1.0, '1': -1.0}),
    ],
    'TaggedGate': [S('TaggedGate', gate=S('HGate', radix=3), tag={'k': 1})],
    'VariableLocationGate': [
        S('VariableLocationGate', gate=S('CNOTGate'), locations=[[0, 1]]),
        S('VariableLocationGate', gate=S('CNOTGate'), locations=[[1, 2], [2, 0], [0, 1]]),
    ],
}


def _composed(cls: str) -> Recipe:
    def f(rng: np.random.Generator, n: int) -> list[dict[str, Any]]:
        out: list[dict[str, Any]] = copy.deepcopy(CORNERS.get(cls, []))
        n += len(out)
        tries = 0
        while len(out) < n and tries < 50 * n:
            tries += 1
            maxdim = 32 if rng.random() < 0.85 else 64
            if cls == 'VariableLocationGate':
                # the class documents qubit placements; a share of qudit
                # inners exercises the advertised `radixes` argument
                qubit = len(out) % 8 != 7
                inner = leaf_spec(rng, 4 if qubit else 9, qubit_only=qubit, max_params=6, non_qubit=not qubit)
            elif cls == 'FrozenParameterGate':
                inner = leaf_spec(rng, 16, need_params=True)
            else:
                inner = leaf_spec(rng, 9 if cls != 'ControlledGate' else 8)
            # nesting: the inner gate is itself a composed gate
            if rng.random() < 0.3:
                c2 = COMPOSED[int(rng.integers(len(COMPOSED)))]
                if c2 != 'VariableLocationGate' and not (
                    cls == 'VariableLocationGate' and c2 in ('ControlledGate', 'EmbeddedGate')
                ):
                    w = wrap(rng, c2, inner, 16)
                    if w is not None:
                        try:
                            if quick_dims(w)[1] <= 16:
                                inner = w
                        except Exception:  # noqa
                            pass
            if cls == 'FrozenParameterGate':
                try:
                    if quick_dims(inner)[1] == 0:
                        continue
                except Exception:  # noqa
                    continue
            w = wrap(rng, cls, inner, maxdim)
            if w is not None:
                out.append(w)
        return out
    return f


for _n in COMPOSED:
    RECIPES[_n] = _composed(_n)


# ------------------------------------------------------------- CircuitGate
def rand_circuit_spec(
    rng: np.random.Generator, radixes: list[int], depth: int, nest: int = 1,
) -> dict[str, Any]:
    n = len(radixes)
    ops = []
    for _ in range(depth):
        for _try in range(50):
            k = int(rng.integers(1, min(3, n) + 1))
            loc = [int(x) for x in rng.choice(n, size=k, replace=False)]
            lr = [radixes[q] for q in loc]
            r = rng.random()
            if nest > 0 and r < 0.15:
                sub = rand_circuit_spec(rng, lr, int(rng.integers(1, 4)), nest - 1)
                gs = S('CircuitGate', circuit=sub)
            elif r < 0.3:
                inner = leaf_spec(rng, 4, max_params=4)
                c2 = COMPOSED[int(rng.integers(len(COMPOSED) - 1))]
                w = wrap(rng, c2, inner, 16)
                gs = w if w is not None else inner
            else:
                gs = leaf_spec(rng, 27, max_params=8)
            try:
                g = build(gs)
            except Exception:  # noqa
                continue
            if list(g.radixes) != lr:
                # retry with a location that fits this gate, if one exists
                cand = [
                    p for p in itertools.permutations(range(n), g.num_qudits)
                    if [radixes[q] for q in p] == list(g.radixes)
                ]
                if not cand:
                    continue
                loc = list(cand[int(rng.integers(len(cand)))])
            params = [special_or_generic(rng) for _ in range(g.num_params)]
            ops.append([gs, loc, params])
            break
    return {'__circuit__': {'radixes': list(radixes), 'ops': ops}}


def _circuitgate(rng: np.random.Generator, n: int) -> list[dict[str, Any]]:
    out = []
    for i in range(n):
        k = int(rng.integers(1, 4))
        radixes = rand_radixes(rng, k, 27, (2, 2, 2, 3))
        depth = int(rng.integers(0 if i % 10 == 9 else 1, 7))
        cs = rand_circuit_spec(rng, radixes, depth)
        out.append(S('CircuitGate', circuit=cs))
        ops = cs['__circuit__']['ops']
        if i % 4 == 0 and len(ops) >= 2:
            # the same circuit without its last operation (a different gate)
            pre = {'__circuit__': {'radixes': list(radixes), 'ops': copy.deepcopy(ops[:-1])}}
            out.append(S('CircuitGate', circuit=pre))
    return out


RECIPES['CircuitGate'] = _circuitgate


# ------------------------------------------------------------ enumeration
def exported() -> dict[str, dict[str, Any]]:
    """Classify every name in bqskit.ir.gates.__all__."""
    import bqskit.ir.gates as G
    out: dict[str, dict[str, Any]] = {}
    for name in G.__all__:
        obj = getattr(G, name)
        info: dict[str, Any] = {'name': name}
        if inspect.isclass(obj):
            info['kind'] = 'class'
            info['real'] = obj.__name__
            if name in NON_CONCRETE or obj.__name__ in NON_CONCRETE:
                info['kind'] = 'non_concrete'
            elif obj.__name__ != name:
                info['kind'] = 'alias'
            info['abstract'] = bool(inspect.isabstract(obj))
        else:
            info['kind'] = 'instance'
            info['real'] = type(obj).__name__
        key = name if info['kind'] in ('class', 'instance') else info['real']
        info['recipe'] = key if key in RECIPES else None
        out[name] = info
    return out


# ---------------------------------------------------------- param vectors
def param_vectors(
    rng: np.random.Generator, n: int, generic: int,
) -> list[tuple[str, list[float]]]:
    if n == 0:
        return [('none', [])]
    out: list[tuple[str, list[float]]] = [
        ('zeros', [0.0] * n),
        ('halfpi', [float(rng.choice(SPECIAL)) for _ in range(n)]),
        ('large', [float(x) for x in rng.uniform(-1e3, 1e3, n)]),
        ('large_exact', [float(rng.choice([-1e3, 1e3])) for _ in range(n)]),
        ('mixed', [
            float(rng.choice(SPECIAL)) if rng.random() < 0.4
            else float(rng.uniform(-2 * PI, 2 * PI)) for _ in range(n)
        ]),
    ]
    for _ in range(generic):
        out.append(('generic', [float(x) for x in rng.uniform(-2 * PI, 2 * PI, n)]))
    return out


# --------------------------------------------------------- qiskit names
# bqskit exported name -> (qiskit.circuit.library name, how the name matches)
QISKIT_TABLE: dict[str, tuple[str, str]] = {
    'XGate': ('XGate', 'name'), 'YGate': ('YGate', 'name'),
    'ZGate': ('ZGate', 'name'), 'HGate': ('HGate', 'name'),
    'SGate': ('SGate', 'name'), 'SdgGate': ('SdgGate', 'name'),
    'TGate': ('TGate', 'name'), 'TdgGate': ('TdgGate', 'name'),
    'SXGate': ('SXGate', 'name'), 'SXdgGate': ('SXdgGate', 'name'),
    'SqrtXGate': ('SXGate', 'qasm_name'), 'SqrtXdgGate': ('SXdgGate', 'qasm_name'),
    'CXGate': ('CXGate', 'name'), 'CNOTGate': ('CXGate', 'qasm_name'),
    'CYGate': ('CYGate', 'name'), 'CZGate': ('CZGate', 'name'),
    'CHGate': ('CHGate', 'name'), 'CSGate': ('CSGate', 'name'),
    'SwapGate': ('SwapGate', 'name'), 'ISwapGate': ('iSwapGate', 'name'),
    'CCXGate': ('CCXGate', 'name'), 'ToffoliGate': ('CCXGate', 'qasm_name'),
    'ECRGate': ('ECRGate', 'name'),
    'RCCXGate': ('RCCXGate', 'name'), 'MargolusGate': ('RCCXGate', 'qasm_name'),
    'RC3XGate': ('RC3XGate', 'name'),
    'SqrtCNOTGate': ('CSXGate', 'qasm_name'),
    'IdentityGate': ('IGate', 'qasm_name'),
    'RXGate': ('RXGate', 'name'), 'RYGate': ('RYGate', 'name'),
    'RZGate': ('RZGate', 'name'), 'RXXGate': ('RXXGate', 'name'),
    'RYYGate': ('RYYGate', 'name'), 'RZZGate': ('RZZGate', 'name'),
    'U1Gate': ('U1Gate', 'name'), 'U2Gate': ('U2Gate', 'name'),
    'U3Gate': ('U3Gate', 'name'),
    'CPGate': ('CPhaseGate', 'name'),
    'CRXGate': ('CRXGate', 'name'), 'CRYGate': ('CRYGate', 'name'),
    'CRZGate': ('CRZGate', 'name'), 'CUGate': ('CUGate', 'name'),
}


def bit_reverse(m: np.ndarray, n: int) -> np.ndarray:
    """Little-endian (qiskit) n-qubit matrix -> qudit 0 most significant."""
    d = 1 << n
    idx = [int(format(i, '0%db' % n)[::-1], 2) if n else 0 for i in range(d)]
    return np.asarray(m)[np.ix_(idx, idx)]


def qiskit_matrix(name: str, params: list[float]) -> np.ndarray | None:
    """Matrix qiskit assigns to the library gate matching bqskit `name`
    (default qubit construction), in bqskit's qudit order."""
    if name not in QISKIT_TABLE:
        return None
    import qiskit.circuit.library as L
    cls = getattr(L, QISKIT_TABLE[name][0], None)
    if cls is None:
        return None
    g = cls(*[float(p) for p in params])
    return bit_reverse(np.asarray(g.to_matrix(), dtype=np.complex128), g.num_qubits)


# ----------------------------------------------------- reference matrices
def _kron(*ms: np.ndarray) -> np.ndarray:
    out = np.array([[1.0 + 0j]])
    for m in ms:
        out = np.kron(out, m)
    return out


_X = np.array([[0, 1], [1, 0]], dtype=complex)
_Y = np.array([[0, -1j], [1j, 0]], dtype=complex)
_Z = np.array([[1, 0], [0, -1]], dtype=complex)


def _u(spec: dict[str, Any], params: list[float] = []) -> np.ndarray:
    return np.asarray(build(spec).get_unitary(params))


def _mpr_ref(kind: str, n: int, target: int, params: list[float]) -> np.ndarray:
    """Multiplexed rotation by its docstring: the n-1 select qubits (in
    order, qubit 0 most significant) choose theta_i applied to the target."""
    d = 1 << n
    U = np.zeros((d, d), dtype=complex)
    for col in range(d):
        bits = [(col >> (n - 1 - q)) & 1 for q in range(n)]
        sel = [b for q, b in enumerate(bits) if q != target]
        i = 0
        for b in sel:
            i = i * 2 + b
        th = params[i]
        if kind == 'y':
            R = np.array([[np.cos(th / 2), -np.sin(th / 2)], [np.sin(th / 2), np.cos(th / 2)]], dtype=complex)
        else:
            R = np.array([[np.exp(-1j * th / 2), 0], [0, np.exp(1j * th / 2)]], dtype=complex)
        for tb in (0, 1):
            ob = list(bits)
            ob[target] = tb
            row = 0
            for b in ob:
                row = row * 2 + b
            U[row, col] = R[tb, bits[target]]
    return U


def reference_matrix(
    spec: dict[str, Any], params: list[float],
) -> tuple[np.ndarray, str] | None:
    """(expected matrix, source) for gates with an outside definition."""
    import scipy.linalg as la
    if 'export' in spec:
        if spec['export'] == 'U1qPiGate':
            return _u(S('U1qGate'), [PI] + list(params)), 'relation: U1qPi = U1q(pi, .)'
        if spec['export'] == 'U1qPi2Gate':
            return _u(S('U1qGate'), [PI / 2] + list(params)), 'relation: U1qPi2 = U1q(pi/2, .)'
        return None
    name = spec['cls']
    a = spec.get('args', {})
    s2 = np.sqrt(2) / 2
    if name == 'BGate':
        return la.expm(1j * PI / 4 * _kron(_X, _X)) @ la.expm(1j * PI / 8 * _kron(_Y, _Y)), 'docstring formula'
    if name == 'CPIGate':
        m = np.eye(9, dtype=complex)
        m[[3, 4]] = m[[4, 3]]
        return m, 'docstring matrix'
    if name == 'CTGate':
        return np.diag([1, 1, 1, np.exp(1j * PI / 4)]), 'docstring matrix'
    if name == 'SqrtISwapGate':
        return np.array([[1, 0, 0, 0], [0, s2, 1j * s2, 0], [0, 1j * s2, s2, 0], [0, 0, 0, 1]], dtype=complex), 'docstring matrix'
    if name == 'SqrtTGate':
        return np.diag([1, np.exp(1j * PI / 8)]), 'docstring matrix'
    if name == 'SycamoreGate':
        return np.array([[1, 0, 0, 0], [0, 0, -1j, 0], [0, -1j, 0, 0], [0, 0, 0, np.exp(-1j * PI / 6)]], dtype=complex), 'docstring matrix'
    if name == 'IToffoliGate':
        m = np.eye(8, dtype=complex)
        m[6:, 6:] = [[0, 1j], [1j, 0]]
        return m, 'docstring matrix'
    if name == 'XXGate':
        return la.expm(-1j * PI / 4 * _kron(_X, _X)), 'docstring matrix = rxx(pi/2)'
    if name == 'YYGate':
        return la.expm(-1j * PI / 4 * _kron(_Y, _Y)), 'docstring matrix = ryy(pi/2)'
    if name == 'ZZGate':
        return la.expm(-1j * PI / 4 * _kron(_Z, _Z)), 'docstring matrix = rzz(pi/2)'
    if name == 'ISwapGate':
        return np.array([[1, 0, 0, 0], [0, 0, 1j, 0], [0, 1j, 0, 0], [0, 0, 0, 1]], dtype=complex), 'docstring matrix'
    if name == 'SqrtCNOTGate':
        p, m_ = 0.5 + 0.5j, 0.5 - 0.5j
        return np.array([[1, 0, 0, 0], [0, 1, 0, 0], [0, 0, p, m_], [0, 0, m_, p]]), 'docstring matrix'
    if name == 'SqrtXGate':
        p, m_ = 0.5 + 0.5j, 0.5 - 0.5j
        return np.array([[p, m_], [m_, p]]), 'docstring matrix'
    if name == 'SqrtXdgGate':
        p, m_ = 0.5 + 0.5j, 0.5 - 0.5j
        return np.array([[m_, p], [p, m_]]), 'docstring matrix'
    if name == 'SdgGate':
        return _u(S('SGate')).conj().T, 'relation: Sdg = S^dagger'
    if name == 'TdgGate':
        return _u(S('TGate')).conj().T, 'relation: Tdg = T^dagger'
    if name == 'SGate':
        return np.diag([1, 1j]), 'docstring matrix'
    if name == 'TGate':
        return np.diag([1, np.exp(1j * PI / 4)]), 'docstring matrix'
    if name in ('ClockGate', 'ShiftGate', 'HGate', 'CSUMGate', 'PDGate', 'SwapGate'):
        default = {'ClockGate': 3, 'ShiftGate': 2, 'HGate': 2, 'CSUMGate': 3, 'PDGate': 3, 'SwapGate': 2}[name]
        d = int(a.get('radix', default))
        w = np.exp(2j * PI / d)
        if name == 'ClockGate':
            return np.diag([w ** k for k in range(d)]), 'docstring formula'
        if name == 'ShiftGate':
            m = np.zeros((d, d), dtype=complex)
            for k in range(d):
                m[(k + 1) % d, k] = 1
            return m, 'docstring formula'
        if name == 'HGate':
            return np.array([[w ** (i * j) for j in range(d)] for i in range(d)]) / np.sqrt(d), 'docstring formula'
        if name == 'CSUMGate':
            m = np.zeros((d * d, d * d), dtype=complex)
            for i in range(d):
                for j in range(d):
                    m[i * d + (i + j) % d, i * d + j] = 1
            return m, 'docstring formula'
        if name == 'SwapGate':
            m = np.zeros((d * d, d * d), dtype=complex)
            for i in range(d):
                for j in range(d):
                    m[j * d + i, i * d + j] = 1
            return m, 'definition of swap'
        if name == 'PDGate':
            i = int(a['index'])
            wi = np.exp(2j * PI * i / d)
            m = np.eye(d, dtype=complex)
            m[i, i] = -wi ** 2
            return m, "repository test's formula (tests/ir/gates/constant/test_proj_gates.py)"
    if name == 'SubSwapGate':
        d = int(a['radix'])
        l1, l2 = a['qudit_levels'].split(';')
        i = int(l1.split(',')[0]) * d + int(l1.split(',')[1])
        j = int(l2.split(',')[0]) * d + int(l2.split(',')[1])
        m = np.eye(d * d, dtype=complex)
        m[[i, j]] = m[[j, i]]
        return m, 'docstring: identity with the two level rows swapped'
    if name == 'IdentityGate':
        n = int(a.get('num_qudits', 1))
        rad = a.get('radixes') or [2] * n
        return np.eye(int(np.prod(rad)), dtype=complex), 'identity'
    if name == 'BarrierPlaceholder':
        n = int(a.get('num_qudits', 1))
        rad = a.get('radixes') or [2] * n
        return np.eye(int(np.prod(rad)), dtype=complex), 'identity'
    if name == 'PermutationGate':
        from vlib import refsim
        n = int(a['num_qudits'])
        loc = [int(q) for q in a['location']]
        order = loc + [q for q in range(n) if q not in loc]
        return refsim.perm_matrix([2] * n, order).astype(complex), 'PermutationMatrix.from_qubit_location docstring (index arithmetic)'
    if name == 'ConstantUnitaryGate':
        return dec_matrix(a['utry']['__matrix__']), 'the constructor argument'
    # ---- parameterised
    if name == 'CCPGate':
        return np.diag([1] * 7 + [np.exp(1j * params[0])]), 'docstring matrix'
    if name == 'U1qGate':
        c, s = np.cos(params[0] / 2), np.sin(params[0] / 2)
        return np.array([[c, -1j * np.exp(-1j * params[1]) * s], [-1j * np.exp(1j * params[1]) * s, c]]), 'docstring matrix'
    if name == 'CKMdgGate':
        return _u(S('CKMGate'), params).conj().T, 'relation: CKMdg(p) = CKM(p)^dagger'
    if name == 'DiagonalGate':
        return np.diag([1] + [np.exp(1j * t) for t in params]), 'docstring'
    if name == 'ArbitraryCPhaseGate':
        rad = a.get('radixes') or [2, 2]
        d = int(np.prod(rad))
        return np.diag([1] * (d - 1) + [np.exp(1j * params[0])]), 'phase on the last basis state'
    if name in ('MPRYGate', 'MPRZGate'):
        n = int(a['num_qudits'])
        t = int(a.get('target_qubit', -1))
        if t == -1:
            t = n - 1
        return _mpr_ref('y' if name == 'MPRYGate' else 'z', n, t, params), 'docstring (select qubits in order, qubit 0 MSB)'
    if name == 'FSIMGate':
        import cirq
        return np.asarray(cirq.unitary(cirq.FSimGate(theta=params[0], phi=params[1]))), 'cirq.FSimGate (docstring reference)'
    if name == 'PhasedXZGate':
        import cirq
        g = cirq.PhasedXZGate(x_exponent=params[0], z_exponent=params[1], axis_phase_exponent=params[2])
        return np.asarray(cirq.unitary(g)), 'cirq.PhasedXZGate (docstring reference)'
    return None


# (square-root gate, its square) relations, checked once per run
SQUARE_RELATIONS = [
    ('SqrtXGate', 'XGate'), ('SqrtCNOTGate', 'CNOTGate'),
    ('SqrtISwapGate', 'ISwapGate'), ('SqrtTGate', 'TGate'),
    ('SGate', 'ZGate'), ('TGate', 'SGate'),
]
