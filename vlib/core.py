"""Common check machinery: seeds, verdicts, evidence, known findings, replays.

Every property module in props/ builds one `Run`, feeds it cases and
witnesses, and ends with `run.finish(...)`, which writes
evidence/<id>.json (validated against the evidence schema), prints
KNOWN-FINDING / VIOLATION / INCONCLUSIVE lines and returns the exit code.

Exit codes: 0 held on everything explored, 1 violation, 2 inconclusive.
"""
from __future__ import annotations

import hashlib
import json
import os
import sys
import time
import traceback
from collections import Counter
from typing import Any
from typing import Callable

import numpy as np

ROOT = os.path.dirname(os.path.dirname(os.path.abspath(__file__)))
EVIDENCE_DIR = os.path.join(ROOT, 'evidence')
OUT_DIR = os.path.join(ROOT, 'out')
REPLAY_DIR = os.path.join(OUT_DIR, 'replays')
FINDINGS_FILE = os.path.join(ROOT, 'known_findings.json')
EVIDENCE_SCHEMA = '/root/.vp/EVIDENCE.schema.json'


def env_seed() -> int:
    try:
        return int(os.environ.get('VERIF_SEED', '0'))
    except ValueError:
        return 0


def pid_num(pid: str) -> int:
    return int(pid[1:])


def rng_for(seed: int, pid: str, *idx: int) -> np.random.Generator:
    """Deterministic generator from (VERIF_SEED, property, case indices)."""
    ss = np.random.SeedSequence([seed, pid_num(pid), *[int(i) for i in idx]])
    return np.random.default_rng(ss)


def sig_of(obj: Any) -> str:
    """Stable short hash of a JSON-able description of a case."""
    s = json.dumps(obj, sort_keys=True, default=repr)
    return hashlib.sha1(s.encode()).hexdigest()[:16]


def jsonable(x: Any, depth: int = 0) -> Any:
    """Best-effort conversion to JSON-able data (for replays and samples)."""
    if depth > 64:
        return repr(x)
    if x is None or isinstance(x, (bool, int, str)):
        return x
    if isinstance(x, float):
        return x if np.isfinite(x) else repr(x)
    if isinstance(x, (np.integer,)):
        return int(x)
    if isinstance(x, (np.floating,)):
        return float(x)
    if isinstance(x, complex) or isinstance(x, np.complexfloating):
        return [float(x.real), float(x.imag)]
    if isinstance(x, np.ndarray):
        if x.size > 64:
            return {'ndarray': list(x.shape), 'sha': sig_of(
                np.round(x, 9).tolist() if not np.iscomplexobj(x) else
                [np.round(x.real, 9).tolist(), np.round(x.imag, 9).tolist()],
            )}
        return jsonable(x.tolist(), depth + 1)
    if isinstance(x, dict):
        return {str(k): jsonable(v, depth + 1) for k, v in x.items()}
    if isinstance(x, (list, tuple, set, frozenset)):
        seq = list(x)
        if isinstance(x, (set, frozenset)):
            seq = sorted(seq, key=repr)
        return [jsonable(v, depth + 1) for v in seq]
    return repr(x)


class Finding:
    """One entry of known_findings.json."""

    def __init__(self, d: dict[str, Any]) -> None:
        self.property = d['property']
        self.id = d['id']
        self.status = d.get('status', 'open')  # 'open' | 'fixed'
        self.what = d.get('what', '')
        self.match = d.get('match', {})
        self.raw = d

    def matches(self, witness: dict[str, Any]) -> bool:
        """
        Mechanism match: every key of `match` must equal (or, for strings
        starting with '~', be contained in; for lists, contain) the witness's
        value for that key. Keys are mechanism descriptors computed by the
        property's own classifier (kind, call site, exception type, message
        shape), never random values or case hashes.
        """
        if self.status != 'open':
            return False
        if not self.match:
            return False
        for k, want in self.match.items():
            got = witness.get(k)
            if isinstance(want, str) and want.startswith('~'):
                if not isinstance(got, str) or want[1:] not in got:
                    return False
            elif isinstance(want, list):
                if got not in want:
                    return False
            else:
                if got != want:
                    return False
        return True


def load_findings(pid: str) -> list[Finding]:
    if not os.path.exists(FINDINGS_FILE):
        return []
    with open(FINDINGS_FILE) as f:
        data = json.load(f)
    return [
        Finding(d) for d in data.get('findings', [])
        if d.get('property') == pid
    ]


class Run:
    """Accumulates what a check observed and decides its verdict."""

    def __init__(
        self, pid: str, tier: str, seed: int,
        level: str = 'exploration',
    ) -> None:
        self.pid = pid
        self.tier = tier
        self.seed = seed
        self.level = level
        self.t0 = time.monotonic()
        self.evaluations = 0
        self.sigs: set[str] = set()
        self.samples: list[Any] = []
        self.counters: Counter[str] = Counter()
        self.violations: list[dict[str, Any]] = []
        self.known: dict[str, list[dict[str, Any]]] = {}
        self.inconclusive: list[str] = []
        self.findings = load_findings(pid)
        self.extra: dict[str, Any] = {}
        self.max_samples = 5
        self.max_violation_files = 10
        self._replays: list[str] = []
        self.deadline: float | None = None
        budget = os.environ.get('VERIF_BUDGET_S')
        if budget:
            self.deadline = self.t0 + float(budget)

    # -- cases ---------------------------------------------------------
    def case(
        self, sig: Any, nontrivial: bool = True, sample: Any = None,
    ) -> None:
        self.evaluations += 1
        if nontrivial:
            self.sigs.add(sig if isinstance(sig, str) else sig_of(sig))
        if sample is not None and len(self.samples) < self.max_samples:
            self.samples.append(jsonable(sample))

    def count(self, name: str, n: int = 1) -> None:
        self.counters[name] += n

    def out_of_time(self) -> bool:
        return self.deadline is not None and time.monotonic() > self.deadline

    # -- witnesses -----------------------------------------------------
    def violation(self, witness: dict[str, Any]) -> bool:
        """
        Report a witness of the property failing. Returns True if it is an
        unlisted violation, False if it matches a known finding.
        """
        witness = dict(witness)
        witness.setdefault('property', self.pid)
        for f in self.findings:
            if f.matches(witness):
                self.known.setdefault(f.id, []).append(witness)
                self.count('known_finding:' + f.id)
                return False
        self.violations.append(witness)
        if len(self._replays) < self.max_violation_files:
            self._replays.append(self.write_replay(witness))
        return True

    def inconclusive_because(self, reason: str) -> None:
        if reason not in self.inconclusive:
            self.inconclusive.append(reason)

    def require(self, counter: str, minimum: int = 1) -> None:
        if self.counters.get(counter, 0) < minimum:
            self.inconclusive_because(
                'monitor counter %s=%d below minimum %d'
                % (counter, self.counters.get(counter, 0), minimum),
            )

    def write_replay(self, witness: dict[str, Any]) -> str:
        os.makedirs(REPLAY_DIR, exist_ok=True)
        body = jsonable(witness)
        name = '%s-%s-%s.json' % (
            self.pid, witness.get('kind', 'violation'), sig_of(body),
        )
        name = name.replace('/', '_').replace(' ', '_')
        path = os.path.join(REPLAY_DIR, name)
        with open(path, 'w') as f:
            json.dump(
                {
                    'property': self.pid, 'tier': self.tier,
                    'seed': self.seed, 'witness': body,
                }, f, indent=1,
            )
        return path

    # -- verdict ---------------------------------------------------------
    def finish(
        self,
        rule: str,
        assumptions: list[str] | None = None,
        extra: dict[str, Any] | None = None,
        min_distinct: int = 2,
    ) -> int:
        wall = time.monotonic() - self.t0
        if self.evaluations < 1:
            self.inconclusive_because('no case was evaluated')
        if len(self.sigs) < min_distinct:
            self.inconclusive_because(
                'only %d distinct non-trivial cases' % len(self.sigs),
            )
        coverage: dict[str, Any] = {
            'evaluations': int(self.evaluations),
            'distinct_nontrivial': int(len(self.sigs)),
            'rule': rule,
            'samples': self.samples or [{'note': 'no sample recorded'}],
            'monitor_counters': dict(sorted(self.counters.items())),
            'known_findings_seen': {
                k: len(v) for k, v in sorted(self.known.items())
            },
            'inconclusive_reasons': list(self.inconclusive),
        }
        coverage.update(self.extra)
        if extra:
            coverage.update(extra)
        if self.level == 'translation_validation':
            coverage.setdefault('programs', int(self.evaluations))
            coverage.setdefault(
                'disagreements_checked',
                int(len(self.violations) + sum(map(len, self.known.values()))),
            )
        ev = {
            'property_id': self.pid,
            'tier': self.tier,
            'seed': int(self.seed),
            'level': self.level,
            'coverage': jsonable(coverage),
            'assumptions': assumptions or [],
            'wall_s': round(wall, 3),
            'violations': len(self.violations),
        }
        os.makedirs(EVIDENCE_DIR, exist_ok=True)
        path = os.path.join(EVIDENCE_DIR, self.pid + '.json')
        try:
            import jsonschema
            with open(EVIDENCE_SCHEMA) as f:
                schema = json.load(f)
            try:
                jsonschema.validate(ev, schema)
            except jsonschema.ValidationError as e:
                if not self.violations and not self.inconclusive:
                    self.inconclusive_because(
                        'evidence does not validate: ' + e.message[:200],
                    )
        except (ImportError, OSError):
            pass
        with open(path, 'w') as f:
            json.dump(ev, f, indent=1, sort_keys=False)
            f.write('\n')

        for fid, ws in sorted(self.known.items()):
            f_ = next(x for x in self.findings if x.id == fid)
            print(
                'KNOWN-FINDING: property=%s %s [%s; seen %d times]'
                % (self.pid, f_.what, fid, len(ws)),
            )
        print(
            '%s tier=%s seed=%d evaluations=%d distinct_nontrivial=%d '
            'violations=%d wall=%.1fs'
            % (
                self.pid, self.tier, self.seed, self.evaluations,
                len(self.sigs), len(self.violations), wall,
            ),
        )
        for k, v in sorted(self.counters.items()):
            print('  observed %s = %d' % (k, v))
        if self.violations:
            kinds = Counter(w.get('kind', '?') for w in self.violations)
            for k, n in kinds.most_common():
                print('  violation kind %s x%d' % (k, n))
            for p in self._replays:
                print('VIOLATION property=%s replay=%s' % (self.pid, p))
            return 1
        if self.inconclusive:
            for r in self.inconclusive:
                print('INCONCLUSIVE property=%s reason=%s' % (self.pid, r))
            return 2
        print('HELD property=%s on everything explored' % self.pid)
        return 0


def short_tb(e: BaseException, limit: int = 6) -> list[str]:
    """Compact traceback: 'file:func:line' for the innermost frames."""
    tb = traceback.extract_tb(e.__traceback__)
    return [
        '%s:%s:%d' % (os.path.basename(fr.filename), fr.name, fr.lineno)
        for fr in tb[-limit:]
    ]


def raising_site(e: BaseException) -> str:
    """'file.py:function' of the frame that raised (no line number)."""
    tb = traceback.extract_tb(e.__traceback__)
    if not tb:
        return '?'
    fr = tb[-1]
    return '%s:%s' % (os.path.basename(fr.filename), fr.name)


def repo_frames(e: BaseException) -> list[str]:
    """All frames inside the bqskit package, outermost first."""
    tb = traceback.extract_tb(e.__traceback__)
    out = []
    for fr in tb:
        if '/bqskit/' in fr.filename:
            out.append('%s:%s' % (os.path.basename(fr.filename), fr.name))
    return out


def main_entry(fn: Callable[[str, int, Any], int]) -> None:
    """Used by props modules when run directly."""
    import argparse
    ap = argparse.ArgumentParser()
    ap.add_argument('--tier', default=os.environ.get('VERIF_TIER', 'quick'))
    ap.add_argument('--replay', default=None)
    a = ap.parse_args()
    sys.exit(fn(a.tier, env_seed(), a.replay))


def pmap(fn: Callable[[Any], Any], items: list[Any], workers: int = 0,
         chunksize: int = 1) -> list[Any]:
    """Ordered parallel map over forked worker processes. A worker that dies
    surfaces as BrokenProcessPool (never a hang)."""
    import concurrent.futures as cf
    import multiprocessing as mp
    if workers <= 0:
        workers = min(16, os.cpu_count() or 4)
    if os.environ.get('VERIF_WORKERS'):
        workers = max(1, min(workers, int(os.environ['VERIF_WORKERS'])))
    if workers == 1 or len(items) <= 1:
        return [fn(x) for x in items]
    ctx = mp.get_context('fork')
    with cf.ProcessPoolExecutor(max_workers=workers, mp_context=ctx) as ex:
        return list(ex.map(fn, items, chunksize=chunksize))
