"""Seeded generators: circuits, graphs, machine models, parameter vectors."""
from __future__ import annotations

import itertools
from typing import Any
from typing import Sequence

import numpy as np

from bqskit.compiler.machine import MachineModel
from bqskit.ir.circuit import Circuit
from bqskit.ir.gates import BarrierPlaceholder
from bqskit.ir.gates import CCXGate
from bqskit.ir.gates import CHGate
from bqskit.ir.gates import CircuitGate
from bqskit.ir.gates import CNOTGate
from bqskit.ir.gates import ConstantUnitaryGate
from bqskit.ir.gates import CPGate
from bqskit.ir.gates import CSUMGate
from bqskit.ir.gates import CCPGate
from bqskit.ir.gates import MargolusGate
from bqskit.ir.gates import CZGate
from bqskit.ir.gates import HGate
from bqskit.ir.gates import ISwapGate
from bqskit.ir.gates import MeasurementPlaceholder
from bqskit.ir.gates import PermutationGate
from bqskit.ir.gates import RXGate
from bqskit.ir.gates import RXXGate
from bqskit.ir.gates import RYGate
from bqskit.ir.gates import RZGate
from bqskit.ir.gates import RZZGate
from bqskit.ir.gates import SGate
from bqskit.ir.gates import SqrtISwapGate
from bqskit.ir.gates import SwapGate
from bqskit.ir.gates import SXGate
from bqskit.ir.gates import TGate
from bqskit.ir.gates import U1Gate
from bqskit.ir.gates import U2Gate
from bqskit.ir.gates import U3Gate
from bqskit.ir.gates import VariableUnitaryGate
from bqskit.ir.gates import XGate
from bqskit.ir.gates import YGate
from bqskit.ir.gates import ZGate
from bqskit.qis.graph import CouplingGraph
from bqskit.qis.unitary import UnitaryMatrix

Q1 = [
    HGate(), XGate(), YGate(), ZGate(), TGate(), SGate(), SXGate(),
    U3Gate(), RZGate(), RXGate(), RYGate(), U1Gate(), U2Gate(),
]
Q2 = [
    CNOTGate(), CZGate(), CPGate(), RZZGate(), ISwapGate(), SqrtISwapGate(),
    SwapGate(), CHGate(), RXXGate(),
]
Q3 = [CCXGate(), CCPGate(), MargolusGate()]

SPECIAL = (np.pi / 2, np.pi, -np.pi / 2, 0.0, np.pi / 4)


def rand_params(rng: np.random.Generator, n: int, style: str = '') -> list[float]:
    if n == 0:
        return []
    style = style or rng.choice(
        ['generic', 'generic', 'generic', 'special', 'zeros', 'large', 'mixed'],
    )
    if style == 'zeros':
        return [0.0] * n
    if style == 'special':
        return [float(rng.choice(SPECIAL)) for _ in range(n)]
    if style == 'large':
        return [float(rng.uniform(-1e3, 1e3)) for _ in range(n)]
    if style == 'mixed':
        return [
            float(rng.choice(SPECIAL)) if rng.random() < 0.4
            else float(rng.uniform(-2 * np.pi, 2 * np.pi)) for _ in range(n)
        ]
    return [float(x) for x in rng.uniform(-2 * np.pi, 2 * np.pi, n)]


def rand_location(
    rng: np.random.Generator, n: int, k: int,
) -> tuple[int, ...]:
    return tuple(int(x) for x in rng.choice(n, size=k, replace=False))


def qubit_circuit(
    rng: np.random.Generator, n: int, depth: int,
    p3: float = 0.1, p2: float = 0.45,
    pool1: Sequence[Any] | None = None,
    pool2: Sequence[Any] | None = None,
    pool3: Sequence[Any] | None = None,
    swaps: bool = True,
    param_style: str = '',
) -> Circuit:
    """Random qubit circuit with non-adjacent and reversed locations."""
    pool1 = list(pool1 if pool1 is not None else Q1)
    pool2 = list(pool2 if pool2 is not None else Q2)
    pool3 = list(pool3 if pool3 is not None else Q3)
    if not swaps:
        pool2 = [g for g in pool2 if not isinstance(g, SwapGate)]
    c = Circuit(n)
    for _ in range(depth):
        r = rng.random()
        if r < p3 and n >= 3 and pool3:
            g = pool3[rng.integers(len(pool3))]
        elif r < p3 + p2 and n >= 2 and pool2:
            g = pool2[rng.integers(len(pool2))]
        else:
            g = pool1[rng.integers(len(pool1))]
        loc = rand_location(rng, n, g.num_qudits)
        c.append_gate(g, loc, rand_params(rng, g.num_params, param_style))
    return c


def random_unitary_gate(
    rng: np.random.Generator, radixes: Sequence[int],
) -> ConstantUnitaryGate:
    return ConstantUnitaryGate(haar(rng, radixes), list(radixes))


def haar(rng: np.random.Generator, radixes: Sequence[int]) -> UnitaryMatrix:
    d = int(np.prod(radixes))
    z = (rng.normal(size=(d, d)) + 1j * rng.normal(size=(d, d))) / np.sqrt(2)
    q, r = np.linalg.qr(z)
    ph = np.diag(r) / np.abs(np.diag(r))
    return UnitaryMatrix(q * ph, list(radixes), check_arguments=False)


def mixed_radix_circuit(
    rng: np.random.Generator, radixes: Sequence[int], depth: int,
    max_arity: int = 3, nest: int = 0,
) -> Circuit:
    """Circuit over arbitrary radixes built from random-unitary gates,
    variable unitaries and (for qubit positions) library gates; optionally
    nested CircuitGates."""
    n = len(radixes)
    c = Circuit(n, list(radixes))
    for _ in range(depth):
        k = int(rng.integers(1, min(max_arity, n) + 1))
        loc = rand_location(rng, n, k)
        lr = [radixes[q] for q in loc]
        r = rng.random()
        if nest > 0 and r < 0.2:
            sub = mixed_radix_circuit(rng, lr, int(rng.integers(1, 4)), max_arity, nest - 1)
            c.append_gate(CircuitGate(sub), loc, sub.params)
        elif all(x == 2 for x in lr) and r < 0.6:
            pool = {1: Q1, 2: Q2, 3: Q3}[k]
            g = pool[rng.integers(len(pool))]
            c.append_gate(g, loc, rand_params(rng, g.num_params))
        elif r < 0.8 and int(np.prod(lr)) <= 9:
            g = VariableUnitaryGate(k, lr)
            u = haar(rng, lr)
            c.append_gate(g, loc, list(np.real(u.numpy).flatten()) + list(np.imag(u.numpy).flatten()))
        else:
            c.append_gate(random_unitary_gate(rng, lr), loc)
    return c


# ---------------------------------------------------------------- graphs
def graph_edges(kind: str, n: int, rng: np.random.Generator) -> list[tuple[int, int]]:
    if n <= 1:
        return []
    if kind == 'all':
        return [(i, j) for i in range(n) for j in range(i + 1, n)]
    if kind == 'line':
        return [(i, i + 1) for i in range(n - 1)]
    if kind == 'ring':
        e = [(i, i + 1) for i in range(n - 1)]
        if n > 2:
            e.append((0, n - 1))
        return e
    if kind == 'star':
        c = int(rng.integers(n))
        return [tuple(sorted((c, i))) for i in range(n) if i != c]  # type: ignore
    if kind == 'grid':
        cols = (n + 1) // 2
        e = []
        for i in range(n):
            r, cc = divmod(i, cols)
            if cc + 1 < cols and i + 1 < n:
                e.append((i, i + 1))
            if i + cols < n:
                e.append((i, i + cols))
        # make sure connected for odd n
        return e
    if kind == 'tree':
        perm = list(rng.permutation(n))
        e = []
        for i in range(1, n):
            j = int(rng.integers(i))
            e.append(tuple(sorted((int(perm[i]), int(perm[j])))))
        return e  # type: ignore
    if kind == 'random':
        e = set(graph_edges('tree', n, rng))
        extra = int(rng.integers(0, n))
        for _ in range(extra):
            a, b = rng.choice(n, size=2, replace=False)
            e.add(tuple(sorted((int(a), int(b)))))
        return sorted(e)  # type: ignore
    raise ValueError(kind)


GRAPH_KINDS = ['all', 'line', 'ring', 'star', 'grid', 'tree', 'random']


def is_connected(n: int, edges: Sequence[tuple[int, int]]) -> bool:
    if n == 0:
        return True
    adj: dict[int, set[int]] = {i: set() for i in range(n)}
    for a, b in edges:
        adj[a].add(b)
        adj[b].add(a)
    seen = {0}
    st = [0]
    while st:
        x = st.pop()
        for y in adj[x]:
            if y not in seen:
                seen.add(y)
                st.append(y)
    return len(seen) == n


GATE_SETS = {
    'cx_u3': (CNOTGate(), U3Gate()),
    'cz_u3': (CZGate(), U3Gate()),
    'cz_rz_sx': (CZGate(), RZGate(), SXGate()),
    'cx_rz_sx': (CNOTGate(), RZGate(), SXGate()),
    'sqisw_u3': (SqrtISwapGate(), U3Gate()),
    'isw_rz_rx': (ISwapGate(), RZGate(), RXGate()),
    'cx_cz_u3': (CNOTGate(), CZGate(), U3Gate()),
}


def model(
    rng: np.random.Generator, n: int, kind: str = '', gateset: str = '',
) -> tuple[MachineModel, dict[str, Any]]:
    kind = kind or str(rng.choice(GRAPH_KINDS))
    gateset = gateset or str(rng.choice(list(GATE_SETS)))
    edges = graph_edges(kind, n, rng)
    if not is_connected(n, edges):
        edges = graph_edges('line', n, rng)
        kind = 'line'
    m = MachineModel(n, edges, set(GATE_SETS[gateset])) if n > 1 else \
        MachineModel(n, None, set(GATE_SETS[gateset]))
    return m, {'n': n, 'graph': kind, 'edges': edges, 'gateset': gateset}


def circuit_desc(c: Circuit, maxops: int = 40) -> dict[str, Any]:
    """JSON-able description of a circuit (for samples and replays)."""
    ops = []
    for cyc, op in c.operations_with_cycles():
        ops.append([cyc, repr(op.gate)[:60], list(op.location), [round(float(p), 6) for p in op.params][:8]])
        if len(ops) >= maxops:
            ops.append('...')
            break
    return {'radixes': list(c.radixes), 'num_ops': c.num_operations, 'ops': ops}


def all_labelled_graphs(n: int):
    pairs = [(i, j) for i in range(n) for j in range(i + 1, n)]
    for mask in range(1 << len(pairs)):
        yield [pairs[k] for k in range(len(pairs)) if mask >> k & 1]
