"""Real Compiler instances on private ports.

`Compiler()` always launches its attached server on the default client port
(7472): two compilers on one machine collide. `PortCompiler` overrides only
the ten-line launcher (`_start_server`) so the same `start_attached_server`
entry point is started with an explicit `port=`; everything else (client
protocol, server, workers, passes) is the repository's code.

Port allocation is machine-wide: a lock file serialises allocation and a
registry file remembers recently handed-out ports, so concurrently running
checks never pick the same pair.
"""
from __future__ import annotations

import fcntl
import json
import logging
import os
import socket
import sys
import time
from subprocess import Popen
from typing import Any

from bqskit.compiler.compiler import Compiler

_REG = '/tmp/bqskit-verif-ports.json'
_LOCK = '/tmp/bqskit-verif-ports.lock'
_LO, _HI = 21000, 60000


def _free(port: int) -> bool:
    s = socket.socket(socket.AF_INET, socket.SOCK_STREAM)
    try:
        s.setsockopt(socket.SOL_SOCKET, socket.SO_REUSEADDR, 1)
        s.bind(('localhost', port))
        return True
    except OSError:
        return False
    finally:
        s.close()


def alloc_ports(n: int = 2) -> list[int]:
    """Allocate n consecutive free ports, machine-wide unique for 10 min."""
    with open(_LOCK, 'a+') as lk:
        fcntl.flock(lk, fcntl.LOCK_EX)
        try:
            try:
                with open(_REG) as f:
                    reg = json.load(f)
            except (OSError, ValueError):
                reg = {}
            now = time.time()
            reg = {k: v for k, v in reg.items() if now - v < 600}
            start = _LO + (os.getpid() * 37 + int(now * 1000)) % (_HI - _LO - n)
            p = start
            for _ in range(20000):
                if p + n >= _HI:
                    p = _LO
                if all(str(p + i) not in reg and _free(p + i) for i in range(n)):
                    for i in range(n):
                        reg[str(p + i)] = now
                    with open(_REG, 'w') as f:
                        json.dump(reg, f)
                    return [p + i for i in range(n)]
                p += n
            raise RuntimeError('no free ports')
        finally:
            fcntl.flock(lk, fcntl.LOCK_UN)


class PortCompiler(Compiler):
    """Attached Compiler whose server listens on a private port."""

    def __init__(
        self, num_workers: int = 2,
        runtime_log_level: int = logging.WARNING,
        env: dict[str, str] | None = None,
        num_blas_threads: int = 1,
    ) -> None:
        self._vport, self._vwport = alloc_ports(2)
        self._venv = env
        super().__init__(
            None, self._vport, num_workers, runtime_log_level,
            self._vwport, num_blas_threads,
        )

    def _start_server(  # type: ignore
        self, num_workers: int, runtime_log_level: int, worker_port: int,
        num_blas_threads: int,
    ) -> None:
        params = f'{num_workers}, '
        params += f'port={self._vport}, '
        params += f'log_level={runtime_log_level}, '
        params += f'{worker_port=}, '
        params += f'{num_blas_threads=}, '
        import_str = 'from bqskit.runtime.attached import start_attached_server'
        launch_str = f'{import_str}; start_attached_server({params})'
        env = dict(os.environ)
        if self._venv:
            env.update(self._venv)
        self.p = Popen([sys.executable, '-c', launch_str], env=env)


def new_compiler(num_workers: int = 2, **kw: Any) -> PortCompiler:
    last: Exception | None = None
    for _ in range(3):
        try:
            return PortCompiler(num_workers, **kw)
        except (OSError, RuntimeError) as e:  # port stolen in the window
            last = e
            time.sleep(0.2)
    raise RuntimeError('could not start a compiler: %r' % (last,))
