"""Scenario generation and the offline history checkers for simnet runs."""
from __future__ import annotations

import json
from typing import Any

from vlib.simnet import workloads as WL


# ------------------------------------------------------------ generation
class TreeGen:
    def __init__(self, rng: Any, prefix: str, max_tasks: int = 30,
                 cancel: bool = False, raises: bool = False, nexts: bool = True,
                 unawaited: bool = True, wide: bool = False, logs: bool = False) -> None:
        self.rng = rng
        self.prefix = prefix
        self.n = 0
        self.max_tasks = max_tasks
        self.cancel = cancel
        self.raises = raises
        self.nexts = nexts
        self.unawaited = unawaited
        self.wide = wide
        self.logs = logs
        self.raise_placed = False
        self.features: set[str] = set()

    def tag(self) -> str:
        self.n += 1
        return '%s%d' % (self.prefix, self.n)

    def leaf(self) -> dict:
        return {'tag': self.tag(), 'steps': []}

    def tree(self, depth: int) -> dict:
        rng = self.rng
        t: dict = {'tag': self.tag(), 'steps': []}
        if depth <= 0 or self.n >= self.max_tasks:
            return t
        nblocks = int(rng.integers(1, 4))
        open_vars: list[tuple[str, str]] = []
        vi = 0
        for _ in range(nblocks):
            if self.n >= self.max_tasks:
                break
            vi += 1
            var = 'v%d' % vi
            r = rng.random()
            fan = int(rng.integers(2, 9 if self.wide else 5))
            if r < 0.35:
                t['steps'].append(['submit', var, self.tree(depth - 1)])
                open_vars.append((var, 'one'))
                self.features.add('submit')
            else:
                t['steps'].append(['map', var, [self.tree(depth - 1) for _ in range(fan)]])
                open_vars.append((var, 'many'))
                self.features.add('map')
            # sometimes consume immediately, sometimes later (await order)
            if rng.random() < 0.5:
                self._consume(t, open_vars.pop())
            if rng.random() < 0.1:
                t['steps'].append(['cache', 'k'])
        rng.shuffle(open_vars)
        drop_all = self.unawaited and len(open_vars) >= 2 and rng.random() < 0.12
        if drop_all:
            self.features.add('multi_unawaited')
        for ov in open_vars:
            if drop_all or (self.unawaited and rng.random() < 0.15):
                self.features.add('unawaited')
                continue
            self._consume(t, ov)
        if self.logs and rng.random() < 0.35:
            t['steps'].insert(int(rng.integers(0, len(t['steps']) + 1)), ['log', 'log-from-%s' % t['tag']])
            self.features.add('log')
        if self.raises and not self.raise_placed and rng.random() < 0.25:
            pos = int(rng.integers(0, len(t['steps']) + 1))
            t['steps'].insert(pos, ['raise', 'boom-%s' % t['tag']])
            # steps after a raise never run; drop them to keep vars consistent
            t['steps'] = t['steps'][:pos + 1]
            self.raise_placed = True
            self.features.add('raise')
        return t

    def _consume(self, t: dict, ov: tuple[str, str]) -> None:
        rng = self.rng
        var, kind = ov
        r = rng.random()
        if self.cancel and r < 0.25:
            t['steps'].append(['cancel', var])
            self.features.add('cancel_before_await')
            if rng.random() < 0.5:
                t['steps'].append(['await_cancelled', var])
                self.features.add('await_cancelled')
            return
        if kind == 'many' and self.nexts and r < 0.5:
            if self.cancel and rng.random() < 0.5:
                size = len([s for s in t['steps'] if s[0] == 'map' and s[1] == var][0][2])
                k = int(rng.integers(1, size + 1))
                t['steps'].append(['next_k', var, k])
                t['steps'].append(['cancel', var])
                self.features.add('next_then_cancel')
            else:
                t['steps'].append(['next_all', var])
                self.features.add('next_all')
            return
        t['steps'].append(['await', var])


def count_tasks(tree: dict) -> int:
    s: set[str] = set()
    WL._all_tags(tree, s)
    return len(s)


def shape_sig(tree: dict) -> Any:
    """Tag-free shape of a tree (for distinctness)."""
    out = []
    for st in tree['steps']:
        if st[0] == 'submit':
            out.append(['s', shape_sig(st[2])])
        elif st[0] == 'map':
            out.append(['m', [shape_sig(c) for c in st[2]]])
        else:
            out.append([st[0]] + [x for x in st[2:] if isinstance(x, int)])
    return out


# --------------------------------------------------------------- checking
def norm(v: Any) -> Any:
    return json.loads(json.dumps(v))


def compilations(sc: dict) -> list[dict]:
    """All compilations issued in a scenario: client, key, tree."""
    out = []
    for cl in sc['clients']:
        for op in cl['ops']:
            if op[0] == 'compile':
                out.append({'client': cl['name'], 'key': None, 'tree': op[1], 'op': 'compile'})
            elif op[0] == 'submit':
                out.append({'client': cl['name'], 'key': op[1], 'tree': op[2], 'op': 'submit:' + op[1]})
    return out


def check_values(sc: dict, obs: dict, cancelled_roots: set[str] = frozenset()) -> list[dict]:
    """R1/R2/K1: await values, next() batches, exactly-once execution."""
    w: list[dict] = []
    comps = compilations(sc)
    expects = {}
    for c in comps:
        val, ex = WL.interpret(c['tree'])
        expects[c['tree']['tag']] = (val, ex, c)
    tag_owner: dict[str, str] = {}
    for root, (val, ex, c) in expects.items():
        for t in ex.all_tags:
            tag_owner[t] = root
    # R1 / K1
    for tag, var, kind, value in obs.get('await_log', []):
        root = tag_owner.get(tag)
        if root is None:
            w.append({'kind': 'await:unknown_tag', 'tag': tag})
            continue
        val, ex, c = expects[root]
        exp = ex.awaits.get((tag, var))
        if kind == 'await':
            if exp is None or norm(value) != norm(exp):
                w.append({'kind': 'await:wrong_value', 'tag': tag, 'var': var, 'got': value, 'want': exp})
        elif kind in ('next_all', 'next_k'):
            if exp is None:
                w.append({'kind': 'next:unexpected', 'tag': tag, 'var': var})
                continue
            pairs = exp[1]
            want = {int(i): norm(v) for i, v in pairs}
            seen: dict[int, Any] = {}
            for bi, batch in enumerate(value):
                for i, v in batch:
                    if i in seen:
                        w.append({'kind': 'next:duplicate_index', 'tag': tag, 'var': var, 'index': i, 'batches': value})
                    seen[int(i)] = v
                    if int(i) not in want or norm(v) != want[int(i)]:
                        w.append({'kind': 'next:wrong_value', 'tag': tag, 'var': var, 'index': i, 'got': v, 'want': want.get(int(i))})
            if kind == 'next_all' and exp[0] == 'next_all' and set(seen) != set(want):
                w.append({'kind': 'next:incomplete', 'tag': tag, 'var': var, 'got': sorted(seen), 'want': sorted(want)})
            if kind == 'next_k' and exp[0] == 'next_k' and len(seen) < exp[2]:
                w.append({'kind': 'next:too_few', 'tag': tag, 'var': var, 'got': len(seen), 'want': exp[2]})
        elif kind == 'await_cancelled_value':
            w.append({'kind': 'cancel:await_returned_value', 'tag': tag, 'var': var, 'got': value})
    # R2 exactly-once
    starts: dict[str, int] = {}
    for tag, wid, ev in obs.get('exec_log', []):
        if ev == 'start':
            starts[tag] = starts.get(tag, 0) + 1
    for tag, n in starts.items():
        if n > 1:
            w.append({'kind': 'exec:ran_twice', 'tag': tag, 'count': n})
        if tag not in tag_owner:
            w.append({'kind': 'exec:unknown_tag', 'tag': tag})
    return w


def client_outcomes(sc: dict, obs: dict) -> dict[tuple[str, str], dict]:
    out = {}
    for rec in obs.get('clients', []):
        out[(rec['client'], rec['op'])] = rec
    return out


def check_compile_results(sc: dict, obs: dict, fault: bool = False) -> list[dict]:
    """R2 (must-run), R3, R4, E1 for blocking compile() calls."""
    w: list[dict] = []
    outs = client_outcomes(sc, obs)
    starts = {}
    for tag, wid, ev in obs.get('exec_log', []):
        if ev == 'start':
            starts[tag] = starts.get(tag, 0) + 1
    for c in compilations(sc):
        if c['op'] != 'compile':
            continue
        val, ex = WL.interpret(c['tree'])
        rec = outs.get((c['client'], 'compile'))
        if rec is None or rec['outcome'] == 'open':
            continue  # never returned: judged by the progress rule
        if rec['outcome'] == 'value':
            got = rec['value'].get('tree_result') if isinstance(rec['value'], dict) else rec['value']
            if val is None:
                w.append({'kind': 'error:not_reported', 'client': c['client'], 'want_error': ex.raises, 'got': got})
            elif norm(got) != norm(val):
                w.append({'kind': 'result:wrong_value', 'client': c['client'], 'got': got, 'want': val})
            else:
                for t in ex.must_run:
                    if starts.get(t, 0) != 1:
                        w.append({'kind': 'exec:must_run_count', 'tag': t, 'count': starts.get(t, 0)})
        elif rec['outcome'] == 'raise':
            if fault:
                continue
            if ex.raises is None and not any(m in rec.get('msg', '') for m in ex.may_raise):
                w.append({'kind': 'error:spurious', 'client': c['client'], 'exc': rec.get('exc'), 'msg': rec.get('msg', '')[-300:], 'site': _err_site(rec.get('msg', ''))})
            elif not any(m in rec.get('msg', '') for m in ([ex.raises] if ex.raises else []) + ex.may_raise):
                w.append({'kind': 'error:wrong_message', 'client': c['client'], 'want': ex.raises, 'msg': rec.get('msg', '')[-300:]})
    return w


def _err_site(msg: str) -> str:
    """Innermost 'File ..., line N, in func' + exception line of a traceback
    text carried in an error message: a mechanism descriptor."""
    lines = [l.strip() for l in msg.strip().splitlines() if l.strip()]
    func = ''
    for l in lines:
        if l.startswith('File ') and ', in ' in l:
            func = l.split(', in ')[-1]
    last = lines[-1] if lines else ''
    return '%s|%s' % (func, last.split(':')[0][:60])


def check_progress(sc: dict, obs: dict) -> list[dict]:
    """R5: run ended at global quiescence with every client call answered."""
    w: list[dict] = []
    if obs.get('end') == 'livelock':
        blocked = [c for c, st in obs.get('client_threads', {}).items() if st == 'blocked']
        spinning = sorted({(m[1], m[2], m[3]) for m in obs.get('trace_tail', []) if m and m[0] == 'T'})
        w.append({'kind': 'progress:livelock', 'clients_blocked': blocked, 'spinning_threads': [list(x) for x in spinning][:8]})
    if obs.get('end') == 'quiescent':
        for c, st in obs.get('client_threads', {}).items():
            if st == 'blocked':
                open_ops = [r['op'] for r in obs['clients'] if r['client'] == c and r['outcome'] == 'open']
                w.append({'kind': 'progress:client_blocked_at_quiescence', 'client': c, 'open_ops': open_ops,
                          'parked': [p for p in obs.get('parked', []) if p['proc'] == c]})
    return w


def check_no_internal_errors(sc: dict, obs: dict, expect_raise: bool = False) -> list[dict]:
    w: list[dict] = []
    for e in obs.get('sys_errors', []):
        w.append({'kind': 'node:system_error', 'proc': e['proc'], 'site': _err_site(e['text']), 'text': e['text'][-400:]})
    for u in obs.get('uncaught', []):
        w.append({'kind': 'node:uncaught_exception', 'proc': u['proc'], 'thread': u['thread'], 'exc': u['exc'], 'msg': u['msg'], 'tb': u['tb'][-500:]})
    return w


def check_tables_empty(snap: dict, ignore_server: bool = False) -> list[dict]:
    """K3: at quiescence nothing of finished/cancelled work is held."""
    w: list[dict] = []
    for name, t in snap.get('workers', {}).items():
        for key in ('tasks', 'mailboxes', 'delayed', 'ready'):
            if t[key]:
                w.append({'kind': 'leak:worker_' + key, 'worker': name, 'held': t[key][:6], 'count': len(t[key])})
    return w


def check_counters_quiescent(snap: dict, obs: dict) -> list[dict]:
    """C15 quiescent belief: a node that manages its workers directly
    believes all of them idle with zero outstanding tasks."""
    w: list[dict] = []
    # ground truth from the history
    assigned: dict[str, list[tuple]] = {}
    crumbs: dict[tuple, list[tuple]] = {}
    completed: dict[str, int] = {}
    cancelled: set[tuple] = set()
    for m in obs.get('msglog', []):
        kind, brief = m['msg'][0], m['msg'][1]
        if m['ev'] == 'recv' and m['dst'].startswith('w') and brief:
            if kind == 'SUBMIT_BATCH':
                for a, bc in zip(brief['tasks'], brief.get('bcs', [[]] * len(brief['tasks']))):
                    assigned.setdefault(m['dst'], []).append(tuple(a))
                    crumbs[tuple(a)] = [tuple(b) for b in bc]
            elif kind == 'SUBMIT':
                assigned.setdefault(m['dst'], []).append(tuple(brief['task']))
                crumbs[tuple(brief['task'])] = [tuple(b) for b in brief.get('bc', [])]
        if m['ev'] == 'send' and m['src'].startswith('w'):
            if kind == 'RESULT' or (kind == 'UPDATE' and brief and brief.get('diff') == -1):
                completed[m['src']] = completed.get(m['src'], 0) + 1
        if kind == 'CANCEL' and brief and 'addr' in brief:
            cancelled.add(tuple(brief['addr']))
    started = {tuple(x[4]) for x in obs.get('exec_starts', []) if x[4]}
    ended_tags = {x[0] for x in obs.get('exec_log', []) if x[2] == 'end'}
    for name, srv in snap.get('servers', {}).items():
        emps = srv['employees']
        if not emps or any(e['is_manager'] for e in emps):
            continue
        for e in emps:
            if e['num_tasks'] != 0 or e['idle'] != 1:
                wn = 'w%d' % e['id']
                a = assigned.get(wn, [])
                unfinished = len(a) - completed.get(wn, 0)
                # tasks delivered to this worker that were dropped because
                # they (or an ancestor) were cancelled
                dropped = [t for t in a if (t in cancelled or any(b in cancelled for b in crumbs.get(t, [])))]
                w.append({
                    'kind': 'belief:stale_at_quiescence', 'node': name, 'employee': e['id'],
                    'num_tasks': e['num_tasks'], 'idle': e['idle'],
                    'sign': 'surplus' if e['num_tasks'] > 0 else ('deficit' if e['num_tasks'] < 0 else 'zero'),
                    'idle_exact': e['idle'] == 1,
                    'surplus_equals_unfinished': e['num_tasks'] == unfinished,
                    'unfinished_explained_by_cancel': unfinished <= len(dropped),
                    'cancels_in_run': bool(cancelled),
                })
        if srv['num_idle_workers'] != srv['total_workers']:
            w.append({'kind': 'belief:aggregate_idle_wrong', 'node': name, 'idle': srv['num_idle_workers'], 'total': srv['total_workers']})
    return w


def check_assignment(sc: dict, obs: dict) -> list[dict]:
    """C15: every task forwarded to exactly one worker."""
    w: list[dict] = []
    got: dict[tuple, list[str]] = {}
    for m in obs.get('msglog', []):
        if m['ev'] != 'recv' or not m['dst'].startswith('w'):
            continue
        kind, brief = m['msg'][0], m['msg'][1]
        if kind == 'SUBMIT' and brief:
            got.setdefault(tuple(brief['task']), []).append(m['dst'])
        elif kind == 'SUBMIT_BATCH' and brief:
            for a in brief['tasks']:
                got.setdefault(tuple(a), []).append(m['dst'])
    for addr, ws in got.items():
        if len(ws) > 1:
            w.append({'kind': 'assign:task_delivered_twice', 'task': list(addr), 'workers': ws})
    # every task created (sent up by a worker, or created by the server for a
    # compilation) must reach a worker unless cancelled first
    created: set[tuple] = set()
    for m in obs.get('msglog', []):
        if m['ev'] != 'send':
            continue
        kind, brief = m['msg'][0], m['msg'][1]
        if m['src'].startswith('w') and kind == 'SUBMIT' and brief:
            created.add(tuple(brief['task']))
        elif m['src'].startswith('w') and kind == 'SUBMIT_BATCH' and brief:
            for a in brief['tasks']:
                created.add(tuple(a))
    obs['_created'] = len(created)
    obs['_assigned'] = len(got)
    missing = [a for a in created if a not in got]
    return w, missing  # type: ignore


def check_cancel_starts(sc: dict, obs: dict) -> list[dict]:
    """K2: no task body under a cancelled root starts after every live
    worker has processed the CANCEL."""
    w: list[dict] = []
    workers = [n for n, p in obs.get('procs', {}).items() if p['kind'] == 'worker']
    done: dict[tuple, dict[str, int]] = {}
    for e in obs.get('events', []):
        if e[0] == 'cancel_processed':
            done.setdefault(tuple(e[3]), {})[e[2]] = e[1]
    t_all = {}
    for addr, per in done.items():
        if all(wk in per for wk in workers):
            t_all[addr] = max(per.values())
    gets: dict[tuple, list[int]] = {}
    for e in obs.get('events', []):
        if e[0] == 'ready_get':
            gets.setdefault(tuple(e[3]), []).append(e[1])
    for tag, wid, ev, step, addr, crumbs in obs.get('exec_starts', []):
        if not addr:
            continue
        # the decision to run the task is taken when its id leaves the ready
        # queue; a CANCEL processed after that point races with a body that
        # is, for all purposes, already running
        sel = [g for g in gets.get(tuple(addr), []) if g <= step]
        t_sel = max(sel) if sel else step
        mine = [tuple(addr)] + [tuple(c) for c in crumbs]
        for a in mine:
            if a in t_all and t_all[a] < t_sel:
                w.append({'kind': 'cancel:descendant_started_after_cancel', 'tag': tag, 'worker': wid, 'selected_step': t_sel, 'start_step': step, 'cancel_processed_by_all_at': t_all[a], 'cancelled_addr': list(a)})
                break
    obs['_cancels_processed'] = len(t_all)
    return w


def check_server_tables(snap: dict, all_clients_gone: bool) -> list[dict]:
    """K3 (server side): nothing of a cancelled / finished compilation is
    held once its client has disconnected; a cancelled compilation has no
    mailbox and is not listed for its client."""
    w: list[dict] = []
    for name, srv in snap.get('servers', {}).items():
        if 'mailboxes' not in srv:
            continue
        if all_clients_gone:
            if srv['tasks'] or srv['mailboxes'] or srv['mailbox_to_task']:
                w.append({'kind': 'leak:server_tables_after_disconnect', 'node': name, 'tasks': srv['tasks'], 'mailboxes': srv['mailboxes'], 'mailbox_to_task': srv['mailbox_to_task']})
    return w


def check_errors_forwarded(sc: dict, obs: dict) -> list[dict]:
    """E1 (detached server): once the server has received a task ERROR of one
    of a client's compilations, the next request/reply interaction that client
    starts must raise (the forwarded error precedes any later reply on the
    same connection), whether or not the result was already fetched. A client
    call that starts after that moment and still returns a value means the
    error was swallowed."""
    w: list[dict] = []
    if sc['topology']['kind'] != 'detached':
        return w
    owner: dict[int, str] = {}
    n_submit = 0
    log = obs.get('msglog', [])
    for m in log:
        if m['ev'] == 'recv' and m['dst'] == 'server' and m['src'].startswith('c') and m['msg'][0] == 'SUBMIT':
            owner[n_submit] = m['src']
            n_submit += 1
    first_err: dict[str, tuple[int, Any]] = {}
    for m in log:
        if m['ev'] == 'recv' and m['dst'] == 'server' and m['msg'][0] == 'ERROR':
            brief = m['msg'][1] or {}
            if brief.get('tid') in owner:
                cl = owner[brief['tid']]
                if cl not in first_err:
                    first_err[cl] = (m['step'], brief)
    checked = 0
    for cl, (t_err, brief) in first_err.items():
        raised_before = False
        for rec in obs.get('clients', []):
            if rec['client'] != cl or rec.get('call_step') is None:
                continue
            kind = rec['op'].split(':')[0]
            if kind in ('close', 'connect'):
                continue
            if rec['outcome'] == 'raise':
                raised_before = True
                break
            if rec['call_step'] > t_err and rec['outcome'] == 'value' and not raised_before:
                w.append({'kind': 'error:swallowed_by_server', 'client': cl, 'tid': brief['tid'], 'op': rec['op'],
                          'error_received_by_server_at_step': t_err, 'call_started_at_step': rec['call_step'], 'error_tail': brief.get('text', '')[-120:]})
                break
            if rec['call_step'] > t_err:
                checked += 1
        checked += 1
    obs['_errors_forward_checked'] = checked
    return w
