"""Runs one scenario (a JSON-able description) in the simulated world and
returns a JSON-able observation record; and a fork-per-scenario pool."""
from __future__ import annotations

import json
import os
import pickle
import select
import signal
import sys
import time
import traceback
import uuid
from typing import Any

CHILD_TIMEOUT = 120.0


def _val(v: Any) -> Any:
    """Reduce client-visible values to JSON-able data."""
    try:
        from bqskit.compiler.passdata import PassData
        from bqskit.ir.circuit import Circuit
        if isinstance(v, tuple) and len(v) == 2 and isinstance(v[1], PassData):
            return {'tree_result': v[1].get('tree_result', '<missing>')}
        if isinstance(v, Circuit):
            return {'circuit': v.num_operations}
    except Exception:
        pass
    if isinstance(v, uuid.UUID):
        return {'uuid': str(v)}
    import enum
    if isinstance(v, enum.Enum):
        return {'enum': v.name}
    if isinstance(v, BaseException):
        return {'exc': type(v).__name__, 'msg': str(v)[-300:]}
    try:
        json.dumps(v)
        return v
    except Exception:
        return repr(v)[:200]


def snapshot(world: Any) -> dict:
    snap: dict[str, Any] = {'workers': {}, 'servers': {}}
    for name, w in world.workers.items():
        proc = next(p for p in world.s.procs if p.name == name)
        if proc.dead:
            continue
        snap['workers'][name] = {
            'id': w._id,
            'tasks': sorted([list(a) for a in w._tasks.keys()]),
            'mailboxes': sorted(w._mailboxes.keys()),
            'delayed': sorted([list(t.return_address) for t in w._delayed_tasks]),
            'ready': [list(a) for a in list(w._ready_task_ids.d)],
            'cancelled_ids': len(w._cancelled_task_ids),
        }
    for name, srv in world.servers.items():
        proc = next(p for p in world.s.procs if p.name == name)
        if proc.dead:
            continue
        d: dict[str, Any] = {
            'kind': type(srv).__name__,
            'num_idle_workers': getattr(srv, 'num_idle_workers', None),
            'total_workers': getattr(srv, 'total_workers', None),
            'employees': [
                {'id': e.id, 'num_tasks': e.num_tasks, 'idle': e.num_idle_workers, 'total': e.total_workers, 'is_manager': e.is_manager, 'cache': len(e.submit_cache)}
                for e in srv.employees
            ],
        }
        if hasattr(srv, 'mailboxes'):
            d['tasks'] = len(srv.tasks)
            d['mailboxes'] = sorted(srv.mailboxes.keys())
            d['mailbox_to_task'] = len(srv.mailbox_to_task_dict)
            d['client_tasks'] = sorted(len(v) for v in srv.clients.values())
            d['task_mailboxes'] = {str(k): v[0] for k, v in srv.tasks.items()}
        snap['servers'][name] = d
    return snap


def run_scenario(sc: dict) -> dict:
    """Execute one scenario to global quiescence; return observations."""
    from vlib.simnet import sched as S
    from vlib.simnet import world as W
    from vlib.simnet import workloads as WL
    from bqskit.ir.circuit import Circuit
    t0 = time.monotonic()
    WL.reset_logs()
    s = S.Sched(
        int(sc.get('seed', 0)), policy=sc.get('policy', 'uniform'),
        inflight=bool(sc.get('inflight', True)),
        max_steps=int(sc.get('max_steps', 20000)),
    )
    s.starve_prob = float(sc.get('starve_prob', 0.08))
    s.resets = bool(sc.get('resets', False))
    world = W.World(s)
    WL.now = lambda: s.steps
    obs: dict[str, Any] = {'scenario_sig': None}
    sys_errors: list[dict] = []
    inv_violations: list[dict] = []
    snaps: list[dict] = []

    # -- monitors: system errors reported by nodes (record, call through)
    import functools
    det = world.mods['detached']
    man = world.mods['manager']
    for cls in (det.DetachedServer, man.Manager):
        orig = cls.handle_system_error

        def wrapped(self_: Any, error_str: str, _orig: Any = orig) -> None:
            p = s.cur_proc()
            sys_errors.append({'proc': p.name if p else '?', 'step': s.steps, 'text': str(error_str)[-600:]})
            return _orig(self_, error_str)
        functools.update_wrapper(wrapped, orig)
        W._set(cls, 'handle_system_error', wrapped)

    wrk = world.mods['worker']
    orig_hc = wrk.Worker._handle_cancel

    def hc(self_: Any, addr: Any, _orig: Any = orig_hc) -> None:
        r = _orig(self_, addr)
        p = s.cur_proc()
        s.events.append(('cancel_processed', s.steps, p.name if p else '?', list(addr)))
        return r
    functools.update_wrapper(hc, orig_hc)
    W._set(wrk.Worker, '_handle_cancel', hc)

    def on_qget(item: Any) -> None:
        p = s.cur_proc()
        if p is not None and p.kind == 'worker' and isinstance(item, tuple) and len(item) == 3:
            s.events.append(('ready_get', s.steps, p.name, list(item)))
    s.on_qget = on_qget

    # -- C15 invariant hook: after every step, on nodes at a quiescent point
    def check_counters() -> None:
        for name, srv in world.servers.items():
            proc = next(p for p in s.procs if p.name == name)
            if proc.dead or proc.main is None:
                continue
            if proc.main.state != 'parked' or proc.main.kind != 'select':
                continue
            if not hasattr(srv, 'total_workers'):
                continue
            bad = None
            if not (0 <= srv.num_idle_workers <= srv.total_workers):
                bad = 'node_idle_out_of_bounds'
            for e in srv.employees:
                if e.num_tasks < 0:
                    bad = 'employee_num_tasks_negative'
                if not (0 <= e.num_idle_workers <= e.total_workers):
                    bad = 'employee_idle_out_of_bounds'
            if bad and len(inv_violations) < 5:
                inv_violations.append({
                    'kind': bad, 'node': name, 'step': s.steps,
                    'num_idle_workers': srv.num_idle_workers, 'total_workers': srv.total_workers,
                    'employees': [(e.id, e.num_tasks, e.num_idle_workers, e.total_workers) for e in srv.employees],
                })
    if sc.get('check_counters', True):
        s.after_step.append(check_counters)

    s.on_quiesce.append(lambda label: snaps.append({'label': label, 'step': s.steps, **snapshot(world)}))

    # -- line mode
    line = sc.get('line') or {}
    tool = None
    if line:
        s.line_plan = {tuple(x) for x in line.get('plan', [])}
        s.line_random_p = float(line.get('random_p', 0.0))
        s.line_budget = int(line.get('budget', 0))
        s.line_hold = int(line.get('hold', 6))
        s.line_record = bool(line.get('record', False))
        tool = _enable_line_events(s, world)
    s.crash_plan = {int(k): v for k, v in (sc.get('crash') or {}).items()}

    # -- topology
    topo = sc['topology']
    if topo['kind'] == 'detached':
        world.start_detached(list(topo['managers']), nested=bool(topo.get('nested', False)))

    # -- clients
    ids: dict[str, Any] = {}

    def make_script(cl: dict) -> Any:
        def script(ctx: Any) -> None:
            comp = None
            for op in cl['ops']:
                k = op[0]
                if k == 'connect':
                    if topo['kind'] == 'attached':
                        comp = ctx.call('connect', ctx.compiler, num_workers=int(topo['workers']))
                    else:
                        comp = ctx.call('connect', ctx.compiler, ip='localhost')
                    if isinstance(comp, BaseException):
                        return
                elif k == 'compile':
                    ctx.call('compile', comp.compile, Circuit(1), [WL.TreePass(op[1])], True)
                elif k == 'submit':
                    r = ctx.call('submit:' + op[1], comp.submit, Circuit(1), [WL.TreePass(op[2])], True)
                    ids[cl['name'] + ':' + op[1]] = r
                elif k in ('result', 'status', 'cancel'):
                    key = op[1]
                    if key == 'unknown':
                        tid = uuid.UUID(int=999_000_000 + len(ctx.calls))
                    else:
                        full = key if ':' in key else cl['name'] + ':' + key
                        tid = ids.get(full)
                        if not isinstance(tid, uuid.UUID):
                            ctx.calls.append({'client': cl['name'], 'op': k + ':' + key, 'outcome': 'skipped'})
                            continue
                    ctx.call(k + ':' + key, getattr(comp, k), tid)
                elif k == 'quiesce':
                    ctx.quiesce(op[1])
                elif k == 'close':
                    ctx.call('close', comp.close)
                elif k == 'yield':
                    for _ in range(int(op[1])):
                        s.park('yield', None, None)
                elif k == 'sleep':
                    world.mods['compiler'].time.sleep(float(op[1]))
                else:
                    raise AssertionError('unknown client op %r' % (k,))
                if comp is not None and getattr(comp, 'conn', 1) is None and k != 'close':
                    # the Compiler closed itself after an error
                    ctx.calls.append({'client': cl['name'], 'op': 'self_closed_after:' + k, 'outcome': 'note'})
                    return
        return script
    for cl in sc['clients']:
        world.add_client(cl['name'], make_script(cl))

    end = 'error'
    harness_error = None
    try:
        end = s.run()
    except S.SimStuck as e:
        end = 'stuck'
        harness_error = str(e)
    except BaseException as e:  # noqa
        harness_error = ''.join(traceback.format_exception(type(e), e, e.__traceback__))[-2000:]
    final = snapshot(world)
    parked = s.parked_summary()
    clients = []
    for rec in world.client_log:
        r = {k: v for k, v in rec.items() if k not in ('value', 'exc_obj')}
        if 'value' in rec:
            r['value'] = _val(rec['value'])
        clients.append(r)
    client_threads = {
        c: ('finished' if ctx.finished else 'blocked')
        for c, ctx in getattr(world, 'clients', {}).items()
    }
    for c in list(client_threads):
        proc = next(p for p in s.procs if p.name == c)
        if proc.killed:
            client_threads[c] = 'killed'
    obs.update({
        'end': end, 'steps': s.steps, 'vtime': s.vtime,
        'harness_error': harness_error,
        'clients': clients,
        'client_threads': client_threads,
        'exec_log': [list(x[:3]) for x in WL.EXEC_LOG],
        'exec_starts': [list(x) for x in WL.EXEC_LOG if x[2] == 'start'],
        'await_log': [[a, b, c, _val(d)] for a, b, c, d in WL.AWAIT_LOG],
        'msglog': s.msglog if sc.get('keep_msglog', True) else [],
        'snaps': snaps, 'final': final,
        'sys_errors': sys_errors, 'inv_violations': inv_violations,
        'uncaught': s.uncaught, 'parked': parked,
        'events': [list(e) for e in s.events],
        'sig': s.signature(), 'delivery_sig': s.delivery_signature(),
        'trace_tail': [list(t) for t in s.trace[-60:]],
        'preemptions': [list(p) for p in s.preemptions],
        'crashed': [list(c) for c in s.crashed],
        'line_seen': [list(x) for x in s.line_seen] if s.line_record else [],
        'procs': {p.name: {'kind': p.kind, 'dead': p.dead, 'killed': p.killed, 'exited': p.exited, 'exit_exc': (p.exit_exc or '')[-400:]} for p in s.procs},
        'wall': time.monotonic() - t0,
    })
    if tool is not None:
        _disable_line_events(tool)
    return obs


def _enable_line_events(s: Any, world: Any) -> int:
    mon = sys.monitoring
    tool = mon.PROFILER_ID
    try:
        mon.use_tool_id(tool, 'simnet')
    except ValueError:
        pass
    wrk = world.mods['worker']
    import bqskit.runtime.task as rtask
    codes = []
    for cls in (wrk.Worker, wrk.WorkerMailbox, rtask.RuntimeTask):
        for name, obj in vars(cls).items():
            fn = obj
            if isinstance(obj, property):
                fn = obj.fget
            if isinstance(obj, staticmethod):
                fn = obj.__func__
            fn = getattr(fn, '__wrapped__', fn)
            code = getattr(fn, '__code__', None)
            if code is not None and name not in ('__init__', '_loop', 'recv_incoming'):
                codes.append(code)
    # the two loops themselves matter too (between handler calls)
    codes.append(wrk.Worker.recv_incoming.__code__)
    codes.append(wrk.Worker._loop.__code__)

    def on_line(code: Any, line: int) -> Any:
        s.line_event(code, line)
    mon.register_callback(tool, mon.events.LINE, on_line)
    for c in codes:
        mon.set_local_events(tool, c, mon.events.LINE)
    s._line_codes = codes  # type: ignore
    return tool


def _disable_line_events(tool: int) -> None:
    mon = sys.monitoring
    try:
        mon.register_callback(tool, mon.events.LINE, None)
        mon.free_tool_id(tool)
    except Exception:
        pass


# ------------------------------------------------------------------ pool
def _child(sc: dict, wfd: int) -> None:
    try:
        devnull = os.open('/tmp/simnet-stderr-%d.log' % os.getpid(), os.O_WRONLY | os.O_CREAT | os.O_TRUNC)
        os.dup2(devnull, 2)
        obs = run_scenario(sc)
        try:
            with open('/tmp/simnet-stderr-%d.log' % os.getpid()) as f:
                obs['stderr_tail'] = f.read()[-1500:]
        except OSError:
            pass
        data = pickle.dumps(obs)
    except BaseException as e:  # noqa
        data = pickle.dumps({'end': 'harness_crash', 'harness_error': ''.join(traceback.format_exception(type(e), e, e.__traceback__))[-3000:]})
    try:
        os.unlink('/tmp/simnet-stderr-%d.log' % os.getpid())
    except OSError:
        pass
    with os.fdopen(wfd, 'wb') as f:
        f.write(data)
    os._exit(0)


def run_forked(sc: dict, timeout: float = CHILD_TIMEOUT) -> dict:
    """Run one scenario in a forked child (isolation + watchdog)."""
    rfd, wfd = os.pipe()
    pid = os.fork()
    if pid == 0:
        os.close(rfd)
        _child(sc, wfd)
        os._exit(0)
    os.close(wfd)
    chunks = []
    deadline = time.monotonic() + timeout
    timed_out = False
    with os.fdopen(rfd, 'rb') as f:
        while True:
            left = deadline - time.monotonic()
            if left <= 0:
                timed_out = True
                break
            r, _, _ = select.select([f], [], [], min(left, 1.0))
            if r:
                b = os.read(f.fileno(), 1 << 20)
                if not b:
                    break
                chunks.append(b)
    if timed_out:
        try:
            os.kill(pid, signal.SIGKILL)
        except OSError:
            pass
    try:
        os.waitpid(pid, 0)
    except OSError:
        pass
    if timed_out:
        return {'end': 'watchdog', 'harness_error': 'child exceeded %.0fs' % timeout}
    try:
        return pickle.loads(b''.join(chunks))
    except Exception as e:  # noqa
        return {'end': 'harness_crash', 'harness_error': 'no result from child: %r' % (e,)}


def run_many(scenarios: list[dict], workers: int = 0) -> list[dict]:
    from vlib import core
    return core.pmap(run_forked, scenarios, workers=workers, chunksize=4)


if __name__ == '__main__':
    sc = json.load(open(sys.argv[1]))
    if 'witness' in sc:
        sc = sc['witness']['scenario']
    o = run_forked(sc)
    o.pop('msglog', None)
    print(json.dumps(o, indent=1, default=repr)[:6000])
