"""Task-tree workloads executed inside runtime workers, and their interpreter.

A *tree* is a JSON-able program:
    {'tag': 'a', 'steps': [step, ...]}
steps:
    ['submit', var, child_tree]         f = submit(run_tree, child)
    ['map', var, [child_trees]]         f = map(run_tree, children)
    ['await', var]                      v = await f
    ['next_all', var]                   loop next(f) until every result came
    ['next_k', var, k]                  loop next(f) until >= k results came
    ['cancel', var]                     cancel(f)
    ['await_cancelled', var]            await f expecting RuntimeError
    ['raise', msg]                      raise ValueError(msg)
    ['cache', key]                      touch the worker-local cache
    ['log', text]                       emit a client-visible log record
Return value of a task: ['R', tag, [values obtained, in step order]].
Every tag is unique in a scenario, so a value identifies the execution that
produced it.

This module must be importable by name (dill then pickles the functions by
reference and, in simnet, the logs below are shared memory).
"""
from __future__ import annotations

import logging
from typing import Any

from bqskit.compiler.basepass import BasePass
from bqskit.runtime import get_runtime

EXEC_LOG: list[tuple[str, int, str]] = []      # (tag, worker id, 'start'|'end'|'raise')
AWAIT_LOG: list[tuple[str, str, str, Any]] = []  # (tag, var, kind, value)
_logger = logging.getLogger('verif.workload')


def reset_logs() -> None:
    del EXEC_LOG[:]
    del AWAIT_LOG[:]


async def run_tree(tree: dict) -> Any:
    rt = get_runtime()
    wid = rt._id  # type: ignore
    tag = tree['tag']
    EXEC_LOG.append((tag, wid, 'start'))
    futs: dict[str, Any] = {}
    sizes: dict[str, int] = {}
    got: list[Any] = []
    try:
        for st in tree['steps']:
            op = st[0]
            if op == 'submit':
                futs[st[1]] = rt.submit(run_tree, st[2])
                sizes[st[1]] = 1
            elif op == 'map':
                futs[st[1]] = rt.map(run_tree, list(st[2]))
                sizes[st[1]] = len(st[2])
            elif op == 'await':
                v = await futs[st[1]]
                AWAIT_LOG.append((tag, st[1], 'await', v))
                got.append(v)
            elif op in ('next_all', 'next_k'):
                need = sizes[st[1]] if op == 'next_all' else int(st[2])
                seen: list[Any] = []
                batches = []
                while len(seen) < need:
                    b = await rt.next(futs[st[1]])
                    batches.append([[int(i), v] for i, v in b])
                    seen.extend(b)
                AWAIT_LOG.append((tag, st[1], op, batches))
                got.append(sorted([[int(i), v] for i, v in seen], key=lambda x: x[0]) if op == 'next_all' else ['K', len(seen) >= need])
            elif op == 'cancel':
                rt.cancel(futs[st[1]])
                AWAIT_LOG.append((tag, st[1], 'cancel', None))
            elif op == 'await_cancelled':
                try:
                    v = await futs[st[1]]
                    AWAIT_LOG.append((tag, st[1], 'await_cancelled_value', v))
                    got.append(['UNEXPECTED', v])
                except RuntimeError as e:
                    AWAIT_LOG.append((tag, st[1], 'await_cancelled_raised', str(e)[:80]))
                    got.append('CANCELLED')
            elif op == 'raise':
                EXEC_LOG.append((tag, wid, 'raise'))
                raise ValueError(st[1])
            elif op == 'cache':
                c = rt.get_cache()
                c[st[1]] = c.get(st[1], 0) + 1
            elif op == 'log':
                _logger.warning(st[1])
            else:
                raise AssertionError('unknown step %r' % (op,))
    except GeneratorExit:
        EXEC_LOG.append((tag, wid, 'closed'))
        raise
    EXEC_LOG.append((tag, wid, 'end'))
    return ['R', tag, got]


class TreePass(BasePass):
    """The root of a scenario: a pass whose body is a tree program."""

    def __init__(self, tree: dict) -> None:
        self.tree = tree

    async def run(self, circuit: Any, data: Any) -> None:
        data['tree_result'] = await run_tree(self.tree)


# ------------------------------------------------------------- interpreter
class Expect:
    """What the documented semantics say a tree evaluates to."""

    def __init__(self) -> None:
        self.must_run: set[str] = set()      # exactly once
        self.may_run: set[str] = set()       # at most once (under a cancel / after a raise)
        self.raises: str | None = None       # message of the first raising body reached
        self.awaits: dict[tuple[str, str], Any] = {}  # (tag, var) -> value
        self.all_tags: set[str] = set()


def _all_tags(tree: dict, out: set[str]) -> None:
    out.add(tree['tag'])
    for st in tree['steps']:
        if st[0] == 'submit':
            _all_tags(st[2], out)
        elif st[0] == 'map':
            for c in st[2]:
                _all_tags(c, out)


class _Raised(Exception):
    pass


def interpret(tree: dict) -> tuple[Any, Expect]:
    """Returns (expected root value or None if the compilation must fail,
    Expect)."""
    ex = Expect()
    _all_tags(tree, ex.all_tags)

    def contains_raise(t: dict) -> bool:
        for st in t['steps']:
            if st[0] == 'raise':
                return True
            if st[0] == 'submit' and contains_raise(st[2]):
                return True
            if st[0] == 'map' and any(contains_raise(c) for c in st[2]):
                return True
        return False

    def ev(t: dict, certain: bool) -> Any:
        """Evaluate t. `certain`: this task certainly runs to completion
        unless something raises."""
        tag = t['tag']
        (ex.must_run if certain else ex.may_run).add(tag)
        vals: dict[str, Any] = {}
        kids: dict[str, Any] = {}
        state: dict[str, str] = {}
        got: list[Any] = []
        for st in t['steps']:
            op = st[0]
            if op == 'submit':
                kids[st[1]] = ('one', st[2])
                state[st[1]] = 'open'
            elif op == 'map':
                kids[st[1]] = ('many', st[2])
                state[st[1]] = 'open'
            elif op == 'await':
                kind, sub = kids[st[1]]
                state[st[1]] = 'awaited'
                if kind == 'one':
                    v = ev(sub, certain)
                else:
                    v = [ev(c, certain) for c in sub]
                ex.awaits[(tag, st[1])] = v
                got.append(v)
            elif op == 'next_all':
                kind, sub = kids[st[1]]
                state[st[1]] = 'awaited'
                v = [[i, ev(c, certain)] for i, c in enumerate(sub)]
                ex.awaits[(tag, st[1])] = ('next_all', v)
                got.append(v)
            elif op == 'next_k':
                kind, sub = kids[st[1]]
                state[st[1]] = 'partial'
                vs = [[i, ev(c, False)] for i, c in enumerate(sub)]
                ex.awaits[(tag, st[1])] = ('next_k', vs, int(st[2]))
                got.append(['K', True])
            elif op == 'cancel':
                kind, sub = kids[st[1]]
                if state[st[1]] == 'open':
                    for c in ([sub] if kind == 'one' else sub):
                        ev(c, False)
                state[st[1]] = 'cancelled'
            elif op == 'await_cancelled':
                got.append('CANCELLED')
            elif op == 'raise':
                if ex.raises is None:
                    ex.raises = st[1]
                # un-awaited children of this task: may run
                for var, (kind, sub) in kids.items():
                    if state[var] == 'open':
                        for c in ([sub] if kind == 'one' else sub):
                            ev(c, False)
                raise _Raised()
        # task completion cancels children never awaited
        for var, (kind, sub) in kids.items():
            if state[var] == 'open':
                for c in ([sub] if kind == 'one' else sub):
                    ev(c, False)
        return ['R', tag, got]

    try:
        val = ev(tree, True)
    except _Raised:
        val = None
    if ex.raises is not None:
        # once anything raises, the client errors out and disconnect cancels
        # the rest: every task merely *may* have run
        ex.may_run |= ex.must_run
        ex.must_run = set()
        val = None
    # a tag evaluated under both a certain and an uncertain context is uncertain
    ex.must_run -= ex.may_run
    return val, ex
