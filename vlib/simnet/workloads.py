"""Task-tree workloads executed inside runtime workers, and their interpreter.

A *tree* is a JSON-able program:
    {'tag': 'a', 'steps': [step, ...]}
steps:
    ['submit', var, child_tree]         f = submit(run_tree, child)
    ['map', var, [child_trees]]         f = map(run_tree, children)
    ['await', var]                      v = await f
    ['next_all', var]                   loop next(f) until every result came
    ['next_k', var, k]                  loop next(f) until >= k results came
    ['cancel', var]                     cancel(f)
    ['await_cancelled', var]            await f expecting RuntimeError
    ['raise', msg]                      raise ValueError(msg)
    ['cache', key]                      touch the worker-local cache
    ['log', text]                       emit a client-visible log record
Return value of a task: ['R', tag, [values obtained, in step order]].
Every tag is unique in a scenario, so a value identifies the execution that
produced it.

This module must be importable by name (dill then pickles the functions by
reference and, in simnet, the logs below are shared memory).
"""
from __future__ import annotations

import logging
import os
import signal
from typing import Any

from bqskit.compiler.basepass import BasePass
from bqskit.runtime import get_runtime

EXEC_LOG: list[tuple] = []      # (tag, worker id, 'start'|'end'|'raise', step, addr, breadcrumbs)
AWAIT_LOG: list[tuple[str, str, str, Any]] = []  # (tag, var, kind, value)
_logger = logging.getLogger('verif.workload')
now = lambda: 0  # noqa: E731  (the runner rebinds this to the scheduler's step counter)


def _maybe_crash(tag: str, phase: str) -> None:
    """procnet only: die by SIGKILL at a chosen (tag, phase). The variable
    is inherited by every real runtime process; simnet never sets it."""
    at = os.environ.get('VERIF_CRASH_AT')
    if at and at == '%s:%s' % (tag, phase):
        os.kill(os.getpid(), signal.SIGKILL)


def reset_logs() -> None:
    del EXEC_LOG[:]
    del AWAIT_LOG[:]


async def run_tree(tree: dict) -> Any:
    rt = get_runtime()
    wid = rt._id  # type: ignore
    tag = tree['tag']
    at = getattr(rt, '_active_task', None)
    addr = list(at.return_address) if at is not None else None
    crumbs = [list(b) for b in at.breadcrumbs] if at is not None else []
    EXEC_LOG.append((tag, wid, 'start', now(), addr, crumbs))
    _maybe_crash(tag, 'start')
    futs: dict[str, Any] = {}
    sizes: dict[str, int] = {}
    got: list[Any] = []
    try:
        for st in tree['steps']:
            op = st[0]
            if op == 'submit':
                futs[st[1]] = rt.submit(run_tree, st[2])
                sizes[st[1]] = 1
            elif op == 'map':
                futs[st[1]] = rt.map(run_tree, list(st[2]))
                sizes[st[1]] = len(st[2])
            elif op == 'await':
                _maybe_crash(tag, 'mid')
                v = await futs[st[1]]
                AWAIT_LOG.append((tag, st[1], 'await', v))
                got.append(v)
            elif op in ('next_all', 'next_k'):
                need = sizes[st[1]] if op == 'next_all' else int(st[2])
                seen: list[Any] = []
                batches = []
                while len(seen) < need:
                    b = await rt.next(futs[st[1]])
                    batches.append([[int(i), v] for i, v in b])
                    seen.extend(b)
                AWAIT_LOG.append((tag, st[1], op, batches))
                got.append(sorted([[int(i), v] for i, v in seen], key=lambda x: x[0]) if op == 'next_all' else ['K', len(seen) >= need])
            elif op == 'cancel':
                rt.cancel(futs[st[1]])
                AWAIT_LOG.append((tag, st[1], 'cancel', now()))
            elif op == 'await_cancelled':
                # Awaiting a cancelled future is refused by the worker loop
                # ('Cannot await on a canceled task.'): the compilation fails
                # and this coroutine is never resumed.
                v = await futs[st[1]]
                AWAIT_LOG.append((tag, st[1], 'await_cancelled_value', v))
                got.append(['UNEXPECTED', v])
            elif op == 'raise':
                EXEC_LOG.append((tag, wid, 'raise'))
                raise ValueError(st[1])
            elif op == 'cache':
                c = rt.get_cache()
                c[st[1]] = c.get(st[1], 0) + 1
            elif op == 'log':
                _logger.warning(st[1])
            else:
                raise AssertionError('unknown step %r' % (op,))
    except GeneratorExit:
        EXEC_LOG.append((tag, wid, 'closed'))
        raise
    EXEC_LOG.append((tag, wid, 'end'))
    _maybe_crash(tag, 'end')
    return ['R', tag, got]


class TreePass(BasePass):
    """The root of a scenario: a pass whose body is a tree program."""

    def __init__(self, tree: dict) -> None:
        self.tree = tree

    async def run(self, circuit: Any, data: Any) -> None:
        data['tree_result'] = await run_tree(self.tree)


async def table_probe_leaf(arg: int) -> list:
    """Runs on whatever worker the runtime picks; reports what that worker
    still holds that does not belong to the probing compilation."""
    import time
    rt = get_runtime()
    at = rt._active_task  # type: ignore
    time.sleep(0.01)
    stale = [
        [t.comp_task_id, list(a)] for a, t in list(rt._tasks.items())  # type: ignore
        if t.comp_task_id != at.comp_task_id
    ]
    return [
        rt._id, len(stale), stale[:4], len(rt._mailboxes),  # type: ignore
        sum(1 for t in list(rt._delayed_tasks) if t.comp_task_id != at.comp_task_id),  # type: ignore
    ]


class TableProbePass(BasePass):
    """Maps table_probe_leaf over `n` items and reports per-worker tables.
    The only mailbox this compilation owns is the root's map mailbox."""

    def __init__(self, n: int) -> None:
        self.n = n

    async def run(self, circuit: Any, data: Any) -> None:
        rt = get_runtime()
        res = await rt.map(table_probe_leaf, list(range(self.n)))
        data['tables'] = {'root_worker': rt._id, 'leaves': res}  # type: ignore


class ProbePass(BasePass):
    """Reports the thread switch interval of the worker that runs it."""

    async def run(self, circuit: Any, data: Any) -> None:
        import sys
        data['switch_interval'] = sys.getswitchinterval()


# ------------------------------------------------------------- interpreter
class Expect:
    """What the documented semantics say a tree evaluates to."""

    def __init__(self) -> None:
        self.must_run: set[str] = set()      # exactly once
        self.may_run: set[str] = set()       # at most once (under a cancel / after a raise)
        self.raises: str | None = None       # message of a raise that is certainly reached
        self.may_raise: list[str] = []       # raises inside tasks that merely may run
        self.awaits: dict[tuple[str, str], Any] = {}  # (tag, var) -> value
        self.all_tags: set[str] = set()


def _all_tags(tree: dict, out: set[str]) -> None:
    out.add(tree['tag'])
    for st in tree['steps']:
        if st[0] == 'submit':
            _all_tags(st[2], out)
        elif st[0] == 'map':
            for c in st[2]:
                _all_tags(c, out)


class _Raised(Exception):
    pass


BLOCKED = ('<blocked>',)


def interpret(tree: dict) -> tuple[Any, Expect]:
    """Returns (expected root value or None if the compilation must fail,
    Expect). A task that raises (or awaits something that never arrives
    because it raised) yields BLOCKED: its parent never receives a value."""
    ex = Expect()
    _all_tags(tree, ex.all_tags)

    def ev(t: dict, certain: bool) -> Any:
        tag = t['tag']
        (ex.must_run if certain else ex.may_run).add(tag)
        kids: dict[str, Any] = {}
        state: dict[str, str] = {}
        got: list[Any] = []

        def orphan_rest() -> None:
            for var, (kind, sub) in kids.items():
                if state[var] == 'open':
                    state[var] = 'orphan'
                    for c in ([sub] if kind == 'one' else sub):
                        ev(c, False)

        for st in t['steps']:
            op = st[0]
            if op == 'submit':
                kids[st[1]] = ('one', st[2])
                state[st[1]] = 'open'
            elif op == 'map':
                kids[st[1]] = ('many', st[2])
                state[st[1]] = 'open'
            elif op in ('await', 'next_all'):
                kind, sub = kids[st[1]]
                state[st[1]] = 'awaited'
                if kind == 'one':
                    vs = [ev(sub, certain)]
                else:
                    vs = [ev(c, certain) for c in sub]
                if any(v is BLOCKED for v in vs):
                    if op == 'next_all':
                        # partial batches may still be observed; values of
                        # the children that did finish must be right
                        ex.awaits[(tag, st[1])] = ('next_partial', [[i, v] for i, v in enumerate(vs) if v is not BLOCKED])
                    orphan_rest()
                    return BLOCKED
                if op == 'await':
                    v = vs[0] if kind == 'one' else vs
                    ex.awaits[(tag, st[1])] = v
                else:
                    v = [[i, x] for i, x in enumerate(vs)]
                    ex.awaits[(tag, st[1])] = ('next_all', v)
                got.append(v)
            elif op == 'next_k':
                kind, sub = kids[st[1]]
                state[st[1]] = 'partial'
                vs = [[i, ev(c, False)] for i, c in enumerate(sub)]
                ex.awaits[(tag, st[1])] = ('next_k', [p for p in vs if p[1] is not BLOCKED], int(st[2]))
                if any(p[1] is BLOCKED for p in vs):
                    certain = False
                got.append(['K', True])
            elif op == 'cancel':
                kind, sub = kids[st[1]]
                if state[st[1]] == 'open':
                    for c in ([sub] if kind == 'one' else sub):
                        ev(c, False)
                state[st[1]] = 'cancelled'
            elif op in ('await_cancelled', 'raise'):
                msg = 'Cannot await on a canceled task' if op == 'await_cancelled' else st[1]
                if certain and ex.raises is None:
                    ex.raises = msg
                else:
                    ex.may_raise.append(msg)
                orphan_rest()
                return BLOCKED
        # task completion cancels children never awaited
        orphan_rest()
        return ['R', tag, got]

    val = ev(tree, True)
    if val is BLOCKED:
        val = None
    if ex.raises is not None:
        # once anything raises, the client errors out and its disconnect
        # cancels the rest: every task merely *may* have run
        ex.may_run |= ex.must_run
        ex.must_run = set()
        val = None
    ex.must_run -= ex.may_run
    return val, ex
