"""Shared driver for the simnet-based properties (C07, C12-C15)."""
from __future__ import annotations

import json
from typing import Any
from typing import Callable

from vlib import core
from vlib.simnet import runner
from vlib.simnet import scen

LINE_FUNCS = (
    '_process_await', '_handle_result', '_get_desired_result',
    '_try_step_next_ready_task', '_process_task_completion',
    '_get_next_ready_task', '_add_task', 'deposit_result', 'submit', 'map',
    'next', 'get_new_results', 'recv_incoming', '_handle_cancel', 'cancel',
    'ready', 'has_task_waiting', 'is_descendant_of',
)


def topology(rng: Any, allow_detached: bool = True, p_attached: float = 0.55) -> dict:
    if not allow_detached or rng.random() < p_attached:
        return {'kind': 'attached', 'workers': int(rng.integers(1, 5))}
    nm = int(rng.integers(1, 4))
    return {'kind': 'detached', 'managers': [int(rng.integers(1, 4)) for _ in range(nm)], 'nested': bool(rng.random() < 0.2)}


def topo_sig(t: dict) -> str:
    if t['kind'] == 'attached':
        return 'A%d' % t['workers']
    return 'D%s%s' % ('x'.join(map(str, t['managers'])), 'n' if t.get('nested') else '')


def sched_params(rng: Any) -> dict:
    return {
        'seed': int(rng.integers(1, 2**31 - 1)),
        'policy': str(rng.choice(['uniform', 'uniform', 'eager', 'starve', 'threadfirst'])),
        'inflight': bool(rng.random() < 0.6),
        'starve_prob': float(rng.choice([0.03, 0.08, 0.2])),
    }


def slim(obs: dict) -> dict:
    o = {k: v for k, v in obs.items() if k not in ('msglog', 'line_seen', 'stderr_tail')}
    o['msg_tail'] = [[m['ev'], m['src'], m['dst'], m['msg'][0] if m.get('msg') else None] for m in obs.get('msglog', [])[-60:]]
    o['stderr_tail'] = (obs.get('stderr_tail') or '')[-600:]
    return o


def sim_failed(obs: dict) -> str | None:
    if obs.get('end') in ('harness_crash', 'watchdog', 'stuck', 'error') or obs.get('harness_error'):
        return 'simulation failed: %s %s' % (obs.get('end'), str(obs.get('harness_error'))[-300:])
    if obs.get('end') == 'step_cap':
        return 'step cap reached'
    return None


def has_multi_await(tree: dict) -> bool:
    n = sum(1 for s in tree['steps'] if s[0] in ('await', 'next_all', 'next_k'))
    if n >= 2:
        return True
    for s in tree['steps']:
        if s[0] == 'submit' and has_multi_await(s[2]):
            return True
        if s[0] == 'map' and any(has_multi_await(c) for c in s[2]):
            return True
    return False


def systematic_points(base: dict, funcs: tuple = LINE_FUNCS, max_occ: int = 2) -> list[dict]:
    """Record the line events of a base run; return one scenario per
    (thread, function, line, occurrence, hold) pre-emption, ordered so that
    first occurrences with an unbounded hold come first."""
    rec = dict(base)
    rec['line'] = {'record': True}
    obs = runner.run_forked(rec)
    seen = set()
    keys = []
    for proc, th, fn, line, occ in obs.get('line_seen', []):
        if fn not in funcs or occ > max_occ:
            continue
        key = (proc, th, fn, line, occ)
        if key in seen:
            continue
        seen.add(key)
        keys.append(key)
    out = []
    for occ_sel, hold in ((1, 100000), (1, 5), (2, 100000), (2, 5)):
        for key in keys:
            if key[4] != occ_sel:
                continue
            sc = dict(base)
            sc['line'] = {'plan': [list(key)], 'hold': hold}
            out.append(sc)
    return out


class Accountant:
    """Feeds executions into a core.Run with shared bookkeeping."""

    def __init__(self, run: core.Run) -> None:
        self.run = run
        self.dsigs: set[str] = set()
        self.pps: set[tuple] = set()
        self.crash_classes: set[tuple] = set()

    def add(
        self, sc: dict, obs: dict, family: str,
        judge: Callable[[dict, dict], tuple[list[dict], str | None]],
        nontrivial: Callable[[dict, dict], bool], sig_extra: Any = None,
    ) -> list[dict]:
        run = self.run
        wit, inc = judge(sc, obs)
        sig = (
            json.dumps([scen.shape_sig(c['tree']) for c in scen.compilations(sc)]),
            json.dumps([[o[0]] + [x for x in o[1:] if isinstance(x, str)] for cl in sc['clients'] for o in cl['ops']]),
            topo_sig(sc['topology']), obs.get('delivery_sig'),
            tuple(map(tuple, obs.get('preemptions', []))),
            tuple(map(tuple, obs.get('crashed', []))), sig_extra,
        )
        nt = inc is None and nontrivial(sc, obs)
        sample = None
        if run.evaluations % 211 == 0 or (len(run.samples) < 2 and nt):
            comps = scen.compilations(sc)
            sample = {
                'family': family, 'topology': sc['topology'], 'policy': sc.get('policy'),
                'client_ops': [[o[0]] + [x for x in o[1:] if isinstance(x, str)] for cl in sc['clients'] for o in cl['ops']],
                'tree': comps[0]['tree'] if comps else None,
                'steps': obs.get('steps'), 'line': sc.get('line'), 'crash': sc.get('crash'),
                'client_outcomes': [[c['client'], c['op'], c['outcome']] for c in obs.get('clients', [])][:12],
            }
        run.case(core.sig_of(sig), nontrivial=nt, sample=sample)
        run.count('executions:' + family)
        if inc is not None:
            run.count('inconclusive_executions')
            ex = run.extra.setdefault('inconclusive_examples', [])
            if len(ex) < 3:
                ex.append(inc)
            return []
        run.count('deliveries', sum(1 for m in obs.get('msglog', []) if m['ev'] == 'recv'))
        run.count('task_bodies_run', sum(1 for x in obs.get('exec_log', []) if x[2] == 'start'))
        run.count('awaits_checked', len(obs.get('await_log', [])))
        run.count('preemptions', len(obs.get('preemptions', [])))
        run.count('crashes_injected', len(obs.get('crashed', [])))
        run.count('topology:' + topo_sig(sc['topology']))
        for f in sc.get('features', []):
            run.count('feature:' + f)
        for c in obs.get('clients', []):
            run.count('client_op:%s:%s' % (c['op'].split(':')[0], c['outcome']))
        self.dsigs.add(obs.get('delivery_sig'))
        for p in obs.get('preemptions', []):
            self.pps.add((p[2], p[3], p[4]))
        seen_kinds = set()
        for x in wit:
            if x['kind'] in seen_kinds:
                continue
            seen_kinds.add(x['kind'])
            x = dict(x)
            x['family'] = family
            x['scenario'] = sc
            x['observation'] = slim(obs)
            run.violation(x)
        return wit

    def finish_extra(self) -> None:
        run = self.run
        run.extra['distinct_delivery_orders'] = len(self.dsigs)
        run.extra['distinct_preemption_points'] = len(self.pps)
        run.extra['preemption_points_sample'] = sorted(self.pps)[:25]
        if run.counters.get('inconclusive_executions', 0) > 0.05 * max(1, run.evaluations):
            run.inconclusive_because('%d of %d executions were inconclusive' % (run.counters['inconclusive_executions'], run.evaluations))


SIM_ASSUMPTIONS = [
    'transport modelled as reliable per-channel FIFO with EOF on close (what a local TCP socket gives); a process is a thread group whose endpoints die with it; time.sleep is virtual time that elapses only when nothing else can run',
    'all runtime classes, handlers, tables, pickling and both worker threads are the real code of /repo; only OS-facing names (Listener, Client, selectors, socket, Process, Popen, Queue, Lock, Thread, os.kill, signal, time.sleep) are rebound',
    'line-level interleavings are explored only inside Worker / WorkerMailbox / RuntimeTask methods',
]


def replay_main(run: core.Run, replay: str, judge: Any, nontrivial: Any) -> int:
    w = json.load(open(replay))['witness']
    sc = w['scenario']
    obs = runner.run_forked(sc)
    acc = Accountant(run)
    wit = acc.add(sc, obs, w.get('family', 'replay'), judge, nontrivial)
    run.case('replay-pad')
    print('replayed: end=%s steps=%s witnesses=%s' % (obs.get('end'), obs.get('steps'), [x['kind'] for x in wit]))
    return run.finish(rule='replay of one recorded scenario', min_distinct=1)
