"""Deterministic serialized scheduler and fake OS primitives for simnet.

Exactly one simulated thread runs at any time. A thread runs until its next
*sync point* (send, recv, poll, select, accept, connect, blocking queue get,
lock acquire, join, sleep, or -- in line mode -- a pre-emption at a source
line of Worker code), where it parks and hands the baton back to the
scheduler. The scheduler then chooses, from a seeded RNG and a policy, which
parked-and-enabled thread runs next, which in-flight message is delivered, or
which fault is injected. The list of choices *is* the schedule; it is
recorded and hashed, and a run is reproducible from (seed, policy, plan).

Nothing here imports bqskit: the real runtime classes are wired to these
primitives by world.py.
"""
from __future__ import annotations

import collections
import hashlib
import pickle
import queue as _queue
import random
import selectors as _selectors
import subprocess as _subprocess
import sys
import threading
import traceback
from multiprocessing.reduction import ForkingPickler
from typing import Any
from typing import Callable


class SimKilled(BaseException):
    """Raised inside threads of a simulated process that has died."""


class SimStuck(Exception):
    """The simulation itself stopped making progress (harness problem)."""


class SimProc:
    """A simulated OS process: a group of threads plus owned endpoints."""

    _pid = 40000

    def __init__(self, sched: 'Sched', name: str, kind: str) -> None:
        SimProc._pid += 1
        self.pid = SimProc._pid
        self.sched = sched
        self.name = name
        self.kind = kind
        self.dead = False          # killed or exited: threads must unwind
        self.exited = False        # main thread returned
        self.killed = False        # died by kill / crash injection
        self.exit_exc: str | None = None
        self.threads: list[SimThread] = []
        self.endpoints: list[Any] = []
        self.listeners: list[Any] = []
        self.sig_handlers: dict[int, Any] = {}
        self.log_factory: Any = None
        self.node: Any = None      # Worker / server object, set by world
        self.main: SimThread | None = None

    def __repr__(self) -> str:
        return '<SimProc %s>' % self.name


class SimThread:
    def __init__(self, proc: SimProc, name: str, daemon: bool) -> None:
        self.proc = proc
        self.name = name
        self.daemon = daemon
        self.go = threading.Semaphore(0)
        self.state = 'new'          # new | parked | running | done
        self.kind = 'start'         # what it is parked at
        self.pred: Callable[[], bool] | None = None
        self.info: Any = None
        self.sleep_until: float | None = None
        self.timed_out = False
        self.hold_until = -1        # line-mode: sit out until this step
        self.real: threading.Thread | None = None
        self.exc: str | None = None
        self.line_counts: collections.Counter = collections.Counter()

    def __repr__(self) -> str:
        return '<SimThread %s/%s %s@%s>' % (
            self.proc.name, self.name, self.state, self.kind,
        )


class Sched:
    def __init__(
        self, seed: int, policy: str = 'uniform', inflight: bool = True,
        max_steps: int = 20000, stuck_timeout: float = 60.0,
    ) -> None:
        self.rng = random.Random(seed)
        self.seed = seed
        self.policy = policy
        self.inflight = inflight
        self.max_steps = max_steps
        self.stuck_timeout = stuck_timeout
        self.wake = threading.Semaphore(0)
        self.threads: list[SimThread] = []
        self.procs: list[SimProc] = []
        self.by_ident: dict[int, SimThread] = {}
        self.channels: list[Chan] = []
        self.listeners: dict[int, FakeListener] = {}
        self.steps = 0
        self.vtime = 0.0
        self.trace: list[tuple] = []
        self.msglog: list[dict] = []
        self.events: list[tuple] = []          # misc monitor events
        self.uncaught: list[dict] = []
        self.crash_plan: dict[int, str] = {}   # step -> proc name
        self.crashed: list[tuple[int, str, str]] = []
        self.after_step: list[Callable[[], None]] = []
        self.on_quiesce: list[Callable[[str], None]] = []
        self.end_reason = ''
        self.starve: dict[str, int] = {}       # option key -> steps left
        self.starve_prob = 0.0
        self.focus_proc: SimProc | None = None
        self.focus_until = -1
        # line mode
        self.line_plan: set[tuple[str, str, int, int]] = set()
        self.line_random_p = 0.0
        self.line_budget = 0
        self.line_hold = 6
        self.line_record = False
        self.line_seen: list[tuple[str, str, str, int, int]] = []
        self.preemptions: list[tuple] = []
        self.ep_counter = 0
        self.describe_payload: Callable[[Any], Any] = lambda o: None
        self.on_qget: Callable[[Any], None] = lambda item: None
        self.last_progress = 0       # step of the last send/delivery/exit/client return
        self.livelock_window = 4000  # steps without any of those = livelock

    # ---------------------------------------------------------------- ids
    def cur(self) -> SimThread | None:
        return self.by_ident.get(threading.get_ident())

    def cur_proc(self) -> SimProc | None:
        st = self.cur()
        return st.proc if st else None

    def new_proc(self, name: str, kind: str) -> SimProc:
        p = SimProc(self, name, kind)
        self.procs.append(p)
        return p

    # ----------------------------------------------------------- threads
    def spawn(
        self, proc: SimProc, name: str, target: Callable[..., Any],
        args: tuple = (), kwargs: dict | None = None, daemon: bool = False,
        main: bool = False,
    ) -> SimThread:
        st = SimThread(proc, name, daemon)
        proc.threads.append(st)
        if main:
            proc.main = st
        self.threads.append(st)

        def boot() -> None:
            self.by_ident[threading.get_ident()] = st
            st.go.acquire()
            st.state = 'running'
            try:
                if not proc.dead:
                    target(*args, **(kwargs or {}))
            except SimKilled:
                pass
            except SystemExit:
                pass
            except BaseException as e:  # uncaught in thread
                st.exc = ''.join(traceback.format_exception(type(e), e, e.__traceback__))
                self.uncaught.append({
                    'proc': proc.name, 'thread': name,
                    'exc': type(e).__name__, 'msg': str(e)[:300],
                    'tb': st.exc[-1500:],
                })
                if main:
                    proc.exit_exc = st.exc
            finally:
                st.state = 'done'
                self.last_progress = self.steps
                if main and not proc.dead:
                    self._proc_exit(proc)
                self.wake.release()

        st.real = threading.Thread(target=boot, daemon=True, name='sim-%s-%s' % (proc.name, name))
        st.state = 'parked'
        st.kind = 'start'
        st.pred = None
        st.real.start()
        return st

    def _proc_exit(self, proc: SimProc) -> None:
        """Main thread returned: the OS closes everything the process owns."""
        proc.exited = True
        proc.dead = True
        self._close_owned(proc)
        self.events.append(('proc_exit', self.steps, proc.name))

    def _close_owned(self, proc: SimProc) -> None:
        for ep in list(proc.endpoints):
            ep._os_close()
        for l in list(proc.listeners):
            l._os_close()

    def kill_proc(self, proc: SimProc, why: str = 'kill') -> None:
        if proc.dead:
            return
        proc.dead = True
        proc.killed = True
        self._close_owned(proc)
        self.events.append(('proc_killed', self.steps, proc.name, why))

    # ------------------------------------------------------- sync points
    def park(
        self, kind: str, pred: Callable[[], bool] | None = None,
        info: Any = None, sleep: float | None = None,
    ) -> bool:
        """
        Park the calling simulated thread until the scheduler resumes it.
        Returns False if resumed because a timed wait expired.
        """
        st = self.cur()
        if st is None:
            # Not a simulated thread (harness): never block.
            return True
        if st.proc.dead:
            raise SimKilled()
        st.kind = kind
        st.pred = pred
        st.info = info
        st.timed_out = False
        st.sleep_until = None if sleep is None else self.vtime + max(0.0, float(sleep))
        st.state = 'parked'
        self.wake.release()
        st.go.acquire()
        st.state = 'running'
        if st.proc.dead:
            raise SimKilled()
        return not st.timed_out

    # ------------------------------------------------------------- loop
    def _enabled(self, st: SimThread) -> bool:
        if st.state != 'parked':
            return False
        if st.proc.dead:
            return True
        if st.pred is None:
            return st.sleep_until is None
        try:
            return bool(st.pred())
        except Exception:
            return True

    def options(self) -> list[tuple]:
        opts: list[tuple] = []
        for st in self.threads:
            if st.state == 'parked' and self._enabled(st):
                if st.hold_until > self.steps:
                    continue
                opts.append(('T', st))
        if self.inflight:
            for ch in self.channels:
                if ch.undelivered() and not ch.dst.proc_dead():
                    opts.append(('D', ch))
        return opts

    def _key(self, o: tuple) -> str:
        if o[0] == 'T':
            return 'T:%s/%s' % (o[1].proc.name, o[1].name)
        return 'D:%s' % o[1].name

    def pick(self, opts: list[tuple]) -> tuple:
        # threads of dead processes unwind first (not a choice)
        for o in opts:
            if o[0] == 'T' and o[1].proc.dead:
                return o
        if len(opts) == 1:
            return opts[0]
        # line-mode focus: prefer the pre-empted worker's other activity
        if self.focus_proc is not None and self.steps < self.focus_until:
            foc = [
                o for o in opts
                if (o[0] == 'T' and o[1].proc is self.focus_proc)
                or (o[0] == 'D' and o[1].dst.proc is self.focus_proc)
            ]
            if foc and self.rng.random() < 0.9:
                return foc[self.rng.randrange(len(foc))]
        pol = self.policy
        if pol == 'eager':
            # fast network: deliver oldest in-flight first, then threads in
            # a stable order
            ds = [o for o in opts if o[0] == 'D']
            if ds:
                return min(ds, key=lambda o: o[1].oldest_seq())
            return opts[0]
        if pol == 'starve':
            # hold some option keys back for a while
            live = []
            for o in opts:
                k = self._key(o)
                if k in self.starve and self.starve[k] > 0:
                    self.starve[k] -= 1
                    continue
                live.append(o)
            if self.rng.random() < self.starve_prob:
                o = opts[self.rng.randrange(len(opts))]
                self.starve[self._key(o)] = self.rng.randrange(3, 40)
            if live:
                opts = live
            return opts[self.rng.randrange(len(opts))]
        if pol == 'threadfirst':
            ts = [o for o in opts if o[0] == 'T']
            if ts and self.rng.random() < 0.85:
                return ts[self.rng.randrange(len(ts))]
            return opts[self.rng.randrange(len(opts))]
        return opts[self.rng.randrange(len(opts))]

    def run(self) -> str:
        """Run to global quiescence. Returns the end reason."""
        while True:
            if self.steps >= self.max_steps:
                self.end_reason = 'step_cap'
                return self.end_reason
            if self.steps - self.last_progress > self.livelock_window:
                # threads keep running but nothing is sent, delivered or
                # finished any more: a busy loop (e.g. select() on a dead
                # connection that is never unregistered)
                self.end_reason = 'livelock'
                return self.end_reason
            if self.steps in self.crash_plan:
                name = self.crash_plan[self.steps]
                for p in self.procs:
                    if p.name == name and not p.dead:
                        where = ','.join('%s@%s' % (t.name, t.kind) for t in p.threads if t.state == 'parked')
                        self.kill_proc(p, 'crash_injection')
                        self.crashed.append((self.steps, name, where))
            opts = self.options()
            if not opts:
                held = [st for st in self.threads if st.state == 'parked' and st.hold_until > self.steps and self._enabled(st)]
                if held:
                    for st in held:
                        st.hold_until = -1
                    continue
                # local quiescence: quiesce barriers first, then sleepers
                qs = [st for st in self.threads if st.state == 'parked' and st.kind == 'quiesce' and not st.proc.dead]
                if qs:
                    st = qs[0]
                    for fn in self.on_quiesce:
                        fn(str(st.info))
                    st.pred = None
                    st.kind = 'quiesce_released'
                    continue
                sl = [st for st in self.threads if st.state == 'parked' and st.sleep_until is not None and not st.proc.dead]
                if sl:
                    st = min(sl, key=lambda t: (t.sleep_until, self.threads.index(t)))
                    self.vtime = max(self.vtime, st.sleep_until or 0.0)
                    st.sleep_until = None
                    st.timed_out = st.pred is not None
                    st.pred = None
                    self.trace.append(('W', st.proc.name, st.name))
                    continue
                self.end_reason = 'quiescent'
                return self.end_reason
            o = self.pick(opts)
            self.steps += 1
            if o[0] == 'T':
                st = o[1]
                self.trace.append(('T', st.proc.name, st.name, st.kind))
                st.sleep_until = None
                st.go.release()
                if not self.wake.acquire(timeout=self.stuck_timeout):
                    self.end_reason = 'stuck'
                    raise SimStuck('thread %r did not reach a sync point' % st)
            else:
                ch = o[1]
                ch.deliver_one()
                self.last_progress = self.steps
                self.trace.append(('D', ch.name))
            for fn in self.after_step:
                fn()

    def signature(self) -> str:
        h = hashlib.sha1()
        for t in self.trace:
            h.update(repr(t).encode())
        return h.hexdigest()[:16]

    def delivery_signature(self) -> str:
        """Hash of the order in which messages were received (by kind and
        endpoints), ignoring thread-step noise."""
        h = hashlib.sha1()
        for m in self.msglog:
            if m['ev'] == 'recv':
                h.update(('%s>%s:%s;' % (m['src'], m['dst'], m['msg'])).encode())
        return h.hexdigest()[:16]

    def parked_summary(self) -> list[dict]:
        out = []
        for st in self.threads:
            if st.state != 'done':
                out.append({
                    'proc': st.proc.name, 'thread': st.name, 'state': st.state,
                    'at': st.kind, 'dead': st.proc.dead,
                })
        return out

    def unwind_all(self) -> None:
        """Kill every process and let all threads exit (end of a run)."""
        for p in self.procs:
            if not p.dead:
                p.dead = True
        for _ in range(10000):
            live = [st for st in self.threads if st.state == 'parked']
            if not live:
                break
            st = live[0]
            st.go.release()
            if not self.wake.acquire(timeout=10):
                break

    # ------------------------------------------------------- line mode
    def line_event(self, code: Any, line: int) -> None:
        st = self.cur()
        if st is None or st.state != 'running' or st.proc.dead:
            return
        if st.proc.kind != 'worker':
            return
        key = (st.name, code.co_name, line)
        st.line_counts[key] += 1
        occ = st.line_counts[key]
        if self.line_record:
            self.line_seen.append((st.proc.name, st.name, code.co_name, line, occ))
        fire = False
        if (st.proc.name, st.name, code.co_name, line, occ) in self.line_plan or \
                ('*', st.name, code.co_name, line, occ) in self.line_plan:
            fire = True
        elif self.line_budget > 0 and self.line_random_p > 0 and self.rng.random() < self.line_random_p:
            fire = True
            self.line_budget -= 1
        if not fire:
            return
        self.preemptions.append((self.steps, st.proc.name, st.name, code.co_name, line, occ))
        st.hold_until = self.steps + self.line_hold
        self.focus_proc = st.proc
        self.focus_until = self.steps + self.line_hold
        self.park('line', None, (code.co_name, line))


# ==================================================================
# fake transport
# ==================================================================
class Chan:
    """One direction of a connection: FIFO of [bytes, delivered, seq]."""

    def __init__(self, sched: Sched, name: str) -> None:
        self.sched = sched
        self.name = name
        self.q: collections.deque = collections.deque()
        self.dst: Endpoint = None  # type: ignore

    def undelivered(self) -> bool:
        return any(not m[1] for m in self.q)

    def oldest_seq(self) -> int:
        for m in self.q:
            if not m[1]:
                return m[2]
        return 1 << 60

    def deliver_one(self) -> None:
        for m in self.q:
            if not m[1]:
                m[1] = True
                return

    def has_delivered(self) -> bool:
        return bool(self.q) and self.q[0][1]


class Endpoint:
    """Fake multiprocessing Connection."""

    def __init__(self, sched: Sched, proc: SimProc | None, label: str) -> None:
        self.sched = sched
        sched.ep_counter += 1
        self.id = sched.ep_counter
        self.proc = proc
        self.label = label
        self.peer: Endpoint = None  # type: ignore
        self.inq: Chan = None  # type: ignore   (messages for me)
        self._closed = False       # closed by my own code
        self._os_closed = False    # closed because my process died
        self._sent_after_peer_close = 0
        self._rst = False          # a TCP reset is pending for my next read at end of data
        if proc is not None:
            proc.endpoints.append(self)

    # -- helpers
    def proc_dead(self) -> bool:
        return self._os_closed or self._closed or (self.proc is not None and self.proc.dead)

    def _os_close(self) -> None:
        self._reset_peer_if_unread()
        self._os_closed = True

    def _reset_peer_if_unread(self) -> None:
        """A socket that goes away while data for it is still unread answers
        with RST instead of FIN: the peer's next read at the end of its data
        fails with ECONNRESET instead of returning EOF (real TCP; modelled
        only when the scenario asks for it, sched.resets)."""
        if getattr(self.sched, 'resets', False) and not self._gone() and self.inq is not None and self.inq.q and self.peer is not None:
            self.peer._rst = True

    def _gone(self) -> bool:
        return self._closed or self._os_closed

    def _readable(self) -> bool:
        if self._closed:
            return True
        if self.inq.has_delivered():
            return True
        if self.peer._gone() and not self.inq.q:
            return True  # EOF after everything sent was drained
        return False

    def owner_name(self) -> str:
        return self.proc.name if self.proc is not None else '?'

    # -- Connection API
    @property
    def closed(self) -> bool:
        return self._closed

    def fileno(self) -> int:
        return 1000 + self.id

    def close(self) -> None:
        self._reset_peer_if_unread()
        self._closed = True

    def send(self, obj: Any) -> None:
        s = self.sched
        if self._closed:
            raise OSError('handle is closed')
        s.park('send', None, self.label)
        if self._closed:
            raise OSError('handle is closed')
        data = bytes(ForkingPickler.dumps(obj))
        desc = s.describe_payload(obj)
        if self.peer._gone():
            self._sent_after_peer_close += 1
            if getattr(s, 'resets', False):
                self._rst = True  # the dead peer's kernel answers data with RST
            s.msglog.append({'ev': 'send_to_closed', 'step': s.steps, 'src': self.owner_name(), 'dst': self.peer.owner_name(), 'msg': desc})
            if self._sent_after_peer_close > 1:
                raise BrokenPipeError(32, 'Broken pipe')
            return
        seq = len(s.msglog)
        s.msglog.append({'ev': 'send', 'step': s.steps, 'src': self.owner_name(), 'dst': self.peer.owner_name(), 'msg': desc, 'seq': seq})
        self.peer.inq.q.append([data, not s.inflight, seq, desc])
        s.last_progress = s.steps

    def recv(self) -> Any:
        s = self.sched
        if self._closed:
            raise OSError('handle is closed')
        s.park('recv', self._readable, self.label)
        if self._closed:
            raise OSError('handle is closed')
        if self.inq.has_delivered():
            data, _, seq, desc = self.inq.q.popleft()
            s.last_progress = s.steps
            s.msglog.append({'ev': 'recv', 'step': s.steps, 'src': self.peer.owner_name(), 'dst': self.owner_name(), 'msg': desc, 'seq': seq})
            return pickle.loads(data)
        if self._rst:
            self._rst = False
            s.msglog.append({'ev': 'recv_reset', 'step': s.steps, 'src': self.peer.owner_name(), 'dst': self.owner_name()})
            raise ConnectionResetError(104, 'Connection reset by peer')
        raise EOFError()

    def poll(self, timeout: float | None = 0.0) -> bool:
        s = self.sched
        if self._closed:
            raise OSError('handle is closed')
        if timeout is None or timeout > 0:
            ok = s.park('poll', self._readable, self.label, sleep=timeout)
            return self._readable() if ok else False
        s.park('poll', None, self.label)
        return self._readable()

    def __enter__(self) -> 'Endpoint':
        return self

    def __exit__(self, *a: Any) -> None:
        self.close()

    def __repr__(self) -> str:
        return '<Endpoint %d %s>' % (self.id, self.label)


def make_pair(sched: Sched, pa: SimProc | None, pb: SimProc | None, label: str) -> tuple[Endpoint, Endpoint]:
    a = Endpoint(sched, pa, label + ':a')
    b = Endpoint(sched, pb, label + ':b')
    a.peer, b.peer = b, a
    a.inq = Chan(sched, label + ':b>a')
    a.inq.dst = a
    b.inq = Chan(sched, label + ':a>b')
    b.inq.dst = b
    sched.channels.append(a.inq)
    sched.channels.append(b.inq)
    return a, b


class FakeListener:
    def __init__(self, sched: Sched, address: Any, family: Any = None, backlog: int = 1, authkey: Any = None) -> None:
        self.sched = sched
        self.port = int(address[1])
        self.proc = sched.cur_proc()
        if self.port in sched.listeners:
            raise OSError(98, 'Address already in use')
        sched.listeners[self.port] = self
        self.pending: collections.deque = collections.deque()
        self._closed = False
        if self.proc is not None:
            self.proc.listeners.append(self)

    def accept(self) -> Any:
        self.sched.park('accept', lambda: bool(self.pending) or self._closed, self.port)
        if self._closed:
            raise OSError('listener closed')
        ep = self.pending.popleft()
        if isinstance(ep, Endpoint):
            ep.proc = self.sched.cur_proc()
            if ep.proc is not None:
                ep.proc.endpoints.append(ep)
        return ep

    def close(self) -> None:
        self._os_close()

    def _os_close(self) -> None:
        if self._closed:
            return
        self._closed = True
        if self.sched.listeners.get(self.port) is self:
            del self.sched.listeners[self.port]
        for ep in self.pending:
            if isinstance(ep, Endpoint):
                ep._os_close()

    @property
    def address(self) -> tuple[str, int]:
        return ('localhost', self.port)


def fake_client(sched: Sched, address: Any, family: Any = None, authkey: Any = None) -> Endpoint:
    sched.park('connect', None, address)
    port = int(address[1])
    l = sched.listeners.get(port)
    if l is None or l._closed or (l.proc is not None and l.proc.dead):
        raise ConnectionRefusedError(111, 'Connection refused')
    a, b = make_pair(sched, sched.cur_proc(), None, 'c%d' % port)
    l.pending.append(b)
    return a


class FakeSock:
    """socketpair ends and the dummy TCP socket used to unblock accept()."""

    def __init__(self, sched: Sched) -> None:
        self.sched = sched
        self.buf = 0
        self.peer: FakeSock | None = None
        self._closed = False

    def send(self, data: bytes) -> int:
        if self.peer is not None:
            self.peer.buf += len(data)
        return len(data)

    def recv(self, n: int) -> bytes:
        self.sched.park('sockrecv', lambda: self.buf > 0, None)
        k = min(n, self.buf)
        self.buf -= k
        return b'\0' * k

    def _readable(self) -> bool:
        return self.buf > 0

    def connect(self, address: Any) -> None:
        port = int(address[1])
        l = self.sched.listeners.get(port)
        if l is None or l._closed:
            raise ConnectionRefusedError(111, 'Connection refused')
        l.pending.append(DummyConn())

    def close(self) -> None:
        self._closed = True

    def fileno(self) -> int:
        return 900000 + id(self) % 1000

    def setsockopt(self, *a: Any) -> None:
        pass


class DummyConn:
    """What accept() returns for the raw dummy connect during shutdown."""
    closed = False

    def close(self) -> None:
        self.closed = True

    def _readable(self) -> bool:
        return False

    def recv(self) -> Any:
        raise EOFError()

    def send(self, obj: Any) -> None:
        pass


class FakeSocketModule:
    AF_INET = 2
    SOCK_STREAM = 1
    SOL_SOCKET = 1
    SO_REUSEADDR = 2

    def __init__(self, sched: Sched) -> None:
        self._sched = sched

    def socketpair(self) -> tuple[FakeSock, FakeSock]:
        a, b = FakeSock(self._sched), FakeSock(self._sched)
        a.peer, b.peer = b, a
        return a, b

    def socket(self, *a: Any, **k: Any) -> FakeSock:
        return FakeSock(self._sched)


class _Key:
    def __init__(self, fileobj: Any, events: int, data: Any) -> None:
        self.fileobj = fileobj
        self.events = events
        self.data = data
        self.fd = getattr(fileobj, 'fileno', lambda: 0)()


class FakeSelector:
    def __init__(self, sched: Sched) -> None:
        self.sched = sched
        self.keys: dict[int, _Key] = {}
        self._closed = False

    def register(self, fileobj: Any, events: int, data: Any = None) -> _Key:
        if id(fileobj) in self.keys:
            raise KeyError('%r is already registered' % (fileobj,))
        k = _Key(fileobj, events, data)
        self.keys[id(fileobj)] = k
        return k

    def unregister(self, fileobj: Any) -> _Key:
        if id(fileobj) not in self.keys:
            raise KeyError('%r is not registered' % (fileobj,))
        return self.keys.pop(id(fileobj))

    def get_map(self) -> dict:
        return {k.fileobj: k for k in self.keys.values()}

    def _ready(self) -> list[_Key]:
        return [k for k in self.keys.values() if k.fileobj._readable()]

    def select(self, timeout: float | None = None) -> list[tuple[_Key, int]]:
        if self._closed:
            raise ValueError('I/O operation on closed selector')
        s = self.sched
        s.park('select', lambda: bool(self._ready()) or self._closed, None, sleep=timeout)
        ready = self._ready()
        if not ready:
            return []
        # the set of connections observed ready at this instant is a
        # scheduling choice: usually one, sometimes several (in registration
        # order, as epoll would report them)
        r = s.rng.random()
        if len(ready) > 1 and r < 0.25:
            kk = s.rng.randrange(2, len(ready) + 1)
            idx = sorted(s.rng.sample(range(len(ready)), kk))
            chosen = [ready[i] for i in idx]
        else:
            chosen = [ready[s.rng.randrange(len(ready))]]
        s.trace.append(('S', tuple(getattr(k.fileobj, 'label', 'sock') for k in chosen)))
        return [(k, _selectors.EVENT_READ) for k in chosen]

    def close(self) -> None:
        self._closed = True
        self.keys.clear()


class FakeSelectorsModule:
    EVENT_READ = _selectors.EVENT_READ
    EVENT_WRITE = _selectors.EVENT_WRITE

    def __init__(self, sched: Sched) -> None:
        self._sched = sched

    def DefaultSelector(self) -> FakeSelector:
        return FakeSelector(self._sched)


# ==================================================================
# fake threading / queue / process
# ==================================================================
def make_queue_class(sched: Sched) -> type:
    class FakeQueue:
        def __init__(self, maxsize: int = 0) -> None:
            self.d: collections.deque = collections.deque()
            self.unfinished = 0

        def put(self, item: Any, block: bool = True, timeout: Any = None) -> None:
            self.d.append(item)
            self.unfinished += 1

        put_nowait = put

        def get(self, block: bool = True, timeout: float | None = None) -> Any:
            if not block:
                return self.get_nowait()
            ok = sched.park('qget', lambda: len(self.d) > 0, None, sleep=timeout)
            if not ok or not self.d:
                raise _queue.Empty()
            item = self.d.popleft()
            sched.on_qget(item)
            return item

        def get_nowait(self) -> Any:
            if not self.d:
                raise _queue.Empty()
            item = self.d.popleft()
            sched.on_qget(item)
            return item

        def empty(self) -> bool:
            return not self.d

        def qsize(self) -> int:
            return len(self.d)

        def task_done(self) -> None:
            self.unfinished -= 1

        def join(self) -> None:
            sched.park('qjoin', lambda: self.unfinished <= 0, None)

        @classmethod
        def __class_getitem__(cls, item: Any) -> Any:
            return cls
    return FakeQueue


def make_lock_class(sched: Sched) -> type:
    class FakeLock:
        def __init__(self) -> None:
            self.owner: SimThread | None = None
            self.held = False

        def acquire(self, blocking: bool = True, timeout: float = -1) -> bool:
            if not blocking:
                if self.held:
                    return False
                self.held = True
                self.owner = sched.cur()
                return True
            sched.park('lock', lambda: not self.held, None)
            self.held = True
            self.owner = sched.cur()
            return True

        def release(self) -> None:
            if not self.held:
                raise RuntimeError('release unlocked lock')
            self.held = False
            self.owner = None

        def locked(self) -> bool:
            return self.held

        def __enter__(self) -> bool:
            return self.acquire()

        def __exit__(self, *a: Any) -> None:
            self.release()
    return FakeLock


def make_thread_class(sched: Sched) -> type:
    class FakeThread:
        def __init__(
            self, group: Any = None, target: Any = None, name: Any = None,
            args: tuple = (), kwargs: Any = None, *, daemon: Any = None,
        ) -> None:
            self._target = target
            self._args = tuple(args)
            self._kwargs = dict(kwargs or {})
            self.daemon = bool(daemon)
            self.name = name or getattr(target, '__name__', 'thread')
            self._st: SimThread | None = None

        def start(self) -> None:
            proc = sched.cur_proc()
            assert proc is not None, 'FakeThread started outside a sim process'
            self._st = sched.spawn(proc, str(self.name), self._target, self._args, self._kwargs, daemon=self.daemon)

        def join(self, timeout: float | None = None) -> None:
            if self._st is None:
                raise RuntimeError('cannot join thread before it is started')
            st = self._st
            sched.park('join', lambda: st.state == 'done', None, sleep=timeout)

        def is_alive(self) -> bool:
            return self._st is not None and self._st.state != 'done'
    return FakeThread


def make_process_class(sched: Sched, namer: Callable[[Any, tuple, dict], tuple[str, str]]) -> type:
    class FakeProcess:
        def __init__(
            self, group: Any = None, target: Any = None, name: Any = None,
            args: tuple = (), kwargs: Any = None, *, daemon: Any = None,
        ) -> None:
            self._target = target
            self._args = tuple(args)
            self._kwargs = dict(kwargs or {})
            self.daemon = bool(daemon)
            self._proc: SimProc | None = None
            self.exitcode: int | None = None

        def start(self) -> None:
            nm, kind = namer(self._target, self._args, self._kwargs)
            self._proc = sched.new_proc(nm, kind)
            parent = sched.cur_proc()
            self._proc.parent = parent  # type: ignore
            sched.spawn(self._proc, 'main', self._target, self._args, self._kwargs, main=True)

        @property
        def pid(self) -> int | None:
            return self._proc.pid if self._proc else None

        def _done(self) -> bool:
            p = self._proc
            assert p is not None
            return p.dead and all(t.state == 'done' for t in p.threads if not t.daemon or True)

        def join(self, timeout: float | None = None) -> None:
            if self._proc is None:
                raise AssertionError('can only join a started process')
            sched.park('pjoin', self._done, None, sleep=timeout)

        def is_alive(self) -> bool:
            return self._proc is not None and not self._proc.dead

        def kill(self) -> None:
            if self._proc is not None:
                sched.kill_proc(self._proc, 'Process.kill')

        terminate = kill
    return FakeProcess


def make_popen_class(sched: Sched, namer: Callable[[str], tuple[str, str]]) -> type:
    class FakePopen:
        def __init__(self, argv: list[str], creationflags: int = 0, **kw: Any) -> None:
            assert argv[1] == '-c', argv
            self._code = argv[2]
            nm, kind = namer(self._code)
            self._proc = sched.new_proc(nm, kind)
            self.returncode: int | None = None
            code = self._code

            def main() -> None:
                exec(compile(code, '<popen -c>', 'exec'), {'__name__': '__main__'})
            sched.spawn(self._proc, 'main', main, main=True)

        @property
        def pid(self) -> int:
            return self._proc.pid

        def _done(self) -> bool:
            p = self._proc
            return p.dead and all(t.state == 'done' for t in p.threads)

        def send_signal(self, sig: int) -> None:
            p = self._proc
            if p.dead:
                return
            h = p.sig_handlers.get(int(sig))
            if callable(h):
                h(int(sig), None)
            elif h is None:
                # default action of SIGINT in a python process: KeyboardInterrupt
                # in the main thread; modelled as process death
                sched.kill_proc(p, 'SIGINT default')

        def communicate(self, input: Any = None, timeout: float | None = None) -> tuple[Any, Any]:
            ok = sched.park('communicate', self._done, None, sleep=timeout)
            if not ok and not self._done():
                raise _subprocess.TimeoutExpired(['sim'], timeout or 0)
            self.returncode = 0
            return (None, None)

        def wait(self, timeout: float | None = None) -> int:
            self.communicate(timeout=timeout)
            return 0

        def poll(self) -> int | None:
            return 0 if self._done() else None

        def kill(self) -> None:
            sched.kill_proc(self._proc, 'Popen.kill')

        terminate = kill
    return FakePopen


class ModProxy:
    """Module look-alike: overrides first, then the real module."""

    def __init__(self, real: Any, **over: Any) -> None:
        object.__setattr__(self, '_real', real)
        object.__setattr__(self, '_over', dict(over))

    def __getattr__(self, name: str) -> Any:
        o = object.__getattribute__(self, '_over')
        if name in o:
            return o[name]
        return getattr(object.__getattribute__(self, '_real'), name)

    def __setattr__(self, name: str, value: Any) -> None:
        object.__getattribute__(self, '_over')[name] = value
