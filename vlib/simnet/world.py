"""Wires the *real* BQSKit runtime classes to the simulated primitives.

`World` rebinds, in the namespaces of bqskit.runtime.{base,worker,detached,
manager,attached} and bqskit.compiler.{compiler,task}, only the names through
which those modules touch the operating system (Listener, Client, selectors,
socket, Process, Popen, Queue, Lock, Thread, os, signal, time, logging record
factory, get_worker, uuid). Every handler, table and loop that then runs is
the repository's own code from /repo's working tree.
"""
from __future__ import annotations

import functools
import logging
import os
import random
import signal as _signal
import sys
import time as _time
import uuid as _uuid
from typing import Any
from typing import Callable

from vlib.simnet import sched as S

_PATCHED: list[tuple[Any, str, Any]] = []


def _set(mod: Any, name: str, value: Any) -> None:
    _PATCHED.append((mod, name, getattr(mod, name, None)))
    setattr(mod, name, value)


class World:
    def __init__(self, sched: S.Sched) -> None:
        self.s = sched
        self.workers: dict[str, Any] = {}     # proc name -> Worker
        self.servers: dict[str, Any] = {}     # proc name -> ServerBase obj
        self.client_log: list[dict] = []
        self._uuid_n = 0
        random.seed(sched.seed * 7919 + 13)  # assign_tasks uses the global RNG
        self.install()

    # ------------------------------------------------------------ patch
    def install(self) -> None:
        s = self.s
        import bqskit.compiler.compiler as ccomp
        import bqskit.compiler.task as ctask
        import bqskit.runtime.attached as att
        import bqskit.runtime.base as base
        import bqskit.runtime.detached as det
        import bqskit.runtime.manager as man
        import bqskit.runtime.worker as wrk
        from bqskit.runtime.message import RuntimeMessage as RM
        self.mods = dict(base=base, worker=wrk, detached=det, manager=man, attached=att, compiler=ccomp)

        Queue = S.make_queue_class(s)
        Lock = S.make_lock_class(s)
        Thread = S.make_thread_class(s)

        def proc_namer(target: Any, args: tuple, kwargs: dict) -> tuple[str, str]:
            if getattr(target, '__name__', '') == 'start_worker':
                return 'w%s' % (args[0],), 'worker'
            return 'p%d' % len(s.procs), 'proc'
        Process = S.make_process_class(s, proc_namer)

        def popen_namer(code: str) -> tuple[str, str]:
            return 'server', 'server'
        Popen = S.make_popen_class(s, popen_namer)

        listener = functools.partial(S.FakeListener, s)
        client = functools.partial(S.fake_client, s)
        sel_mod = S.FakeSelectorsModule(s)
        sock_mod = S.FakeSocketModule(s)

        def vsleep(x: float) -> None:
            s.park('sleep', None, x, sleep=x)
        time_mod = S.ModProxy(_time, sleep=vsleep)

        def sig_signal(signum: int, handler: Any) -> Any:
            p = s.cur_proc()
            if p is None:
                return None
            old = p.sig_handlers.get(int(signum), _signal.SIG_DFL)
            p.sig_handlers[int(signum)] = handler
            return old
        signal_mod = S.ModProxy(_signal, signal=sig_signal)

        def os_kill(pid: int, sig: int) -> None:
            p = s.cur_proc()
            assert p is not None and pid == p.pid, 'sim os.kill only supports self-kill'
            s.kill_proc(p, 'os.kill self')
            raise S.SimKilled()

        def os_getpid() -> int:
            p = s.cur_proc()
            return p.pid if p is not None else os.getpid()
        os_mod = S.ModProxy(os, kill=os_kill, getpid=os_getpid)

        # per-process log record factory
        base_factory = logging.getLogRecordFactory()
        self._base_factory = base_factory

        def dispatch_factory(*a: Any, **k: Any) -> logging.LogRecord:
            p = s.cur_proc()
            f = p.log_factory if (p is not None and p.log_factory is not None) else base_factory
            return f(*a, **k)
        logging.setLogRecordFactory(dispatch_factory)

        def get_factory() -> Any:
            p = s.cur_proc()
            return p.log_factory if (p is not None and p.log_factory is not None) else base_factory

        def set_factory(f: Any) -> None:
            p = s.cur_proc()
            if p is not None:
                p.log_factory = f
        wlog = S.ModProxy(logging, getLogRecordFactory=get_factory, setLogRecordFactory=set_factory)

        # deterministic task ids
        def uuid4() -> _uuid.UUID:
            self._uuid_n += 1
            return _uuid.UUID(int=(s.seed % 1000 + 1) * 10**12 + self._uuid_n)
        uuid_mod = S.ModProxy(_uuid, uuid4=uuid4)

        noop = lambda *a, **k: None  # noqa

        # base
        _set(base, 'Listener', listener)
        _set(base, 'Client', client)
        _set(base, 'selectors', sel_mod)
        _set(base, 'socket', sock_mod)
        _set(base, 'Process', Process)
        _set(base, 'Queue', Queue)
        _set(base, 'Thread', Thread)
        _set(base, 'signal', signal_mod)
        _set(base, 'time', time_mod)
        _set(base, 'set_blas_thread_counts', noop)
        # detached / attached / manager
        _set(det, 'Listener', listener)
        _set(det, 'selectors', sel_mod)
        _set(det, 'socket', sock_mod)
        _set(det, 'Thread', Thread)
        _set(det, 'time', time_mod)
        _set(att, 'selectors', sel_mod)
        _set(man, 'selectors', sel_mod)
        _set(man, 'time', time_mod)
        # worker
        _set(wrk, 'Client', client)
        _set(wrk, 'Queue', Queue)
        _set(wrk, 'Lock', Lock)
        _set(wrk, 'Thread', Thread)
        _set(wrk, 'Process', Process)
        _set(wrk, 'os', os_mod)
        _set(wrk, 'signal', signal_mod)
        _set(wrk, 'time', time_mod)
        _set(wrk, 'logging', wlog)
        _set(wrk, 'set_blas_thread_counts', noop)
        # client
        _set(ccomp, 'Client', client)
        _set(ccomp, 'Popen', Popen)
        _set(ccomp, 'signal', signal_mod)
        _set(ccomp, 'time', time_mod)
        _set(ctask, 'uuid', uuid_mod)

        # node registry (harness-side wrappers: record and call through)
        world = self
        orig_w_init = wrk.Worker.__init__

        @functools.wraps(orig_w_init)
        def w_init(self_: Any, id: int, conn: Any) -> None:
            p = s.cur_proc()
            if p is not None:
                p.node = self_
                world.workers[p.name] = self_
            orig_w_init(self_, id, conn)
        _set(wrk.Worker, '__init__', w_init)

        orig_sb_init = base.ServerBase.__init__

        @functools.wraps(orig_sb_init)
        def sb_init(self_: Any) -> None:
            p = s.cur_proc()
            if p is not None:
                p.node = self_
                world.servers[p.name] = self_
            orig_sb_init(self_)
        _set(base.ServerBase, '__init__', sb_init)

        def get_worker() -> Any:
            p = s.cur_proc()
            if p is None or p.node is None or p.kind != 'worker':
                raise RuntimeError('Worker has not been started.')
            return p.node
        _set(wrk, 'get_worker', get_worker)

        # payload descriptions for the message log
        def describe(obj: Any) -> Any:
            try:
                if isinstance(obj, tuple) and len(obj) == 2 and isinstance(obj[0], RM):
                    m, pl = obj
                    return [m.name, world._brief(m, pl)]
            except Exception:
                pass
            return ['?', None]
        s.describe_payload = describe
        self.RM = RM

    def _brief(self, m: Any, pl: Any) -> Any:
        RM = self.RM
        try:
            if m == RM.SUBMIT and hasattr(pl, 'return_address'):
                return {'task': list(pl.return_address), 'bc': [list(b) for b in pl.breadcrumbs]}
            if m == RM.SUBMIT_BATCH:
                return {'tasks': [list(t.return_address) for t in pl], 'bcs': [[list(b) for b in t.breadcrumbs] for t in pl]}
            if m == RM.RESULT and hasattr(pl, 'return_address'):
                return {'to': list(pl.return_address), 'by': pl.completed_by}
            if m == RM.CANCEL and isinstance(pl, tuple):
                return {'addr': list(pl)}
            if m == RM.WAITING:
                return {'idle': pl[0], 'receipt': list(pl[1]) if pl[1] is not None else None}
            if m == RM.UPDATE:
                return {'diff': pl}
            if m == RM.ERROR:
                if isinstance(pl, tuple):
                    return {'tid': pl[0], 'text': str(pl[1])[-160:]}
                return {'text': str(pl)[-160:]}
            if m in (RM.STATUS, RM.REQUEST) or (m == RM.CANCEL):
                return {'v': str(pl)}
            if m == RM.STARTED:
                return {'v': pl}
        except Exception:
            pass
        return None

    def uninstall(self) -> None:
        while _PATCHED:
            mod, name, old = _PATCHED.pop()
            setattr(mod, name, old)
        logging.setLogRecordFactory(self._base_factory)

    # --------------------------------------------------------- topology
    def start_detached(
        self, managers: list[int], server_port: int = 7472,
        nested: bool = False,
    ) -> None:
        """Start managers (each with its workers) and a detached server, as
        separate simulated processes running the real constructors."""
        s = self.s
        man = self.mods['manager']
        det = self.mods['detached']
        ipports = []
        for i, nw in enumerate(managers):
            mport = 7500 + 10 * i
            wport = 7501 + 10 * i
            p = s.new_proc('m%d' % i, 'manager')

            def mmain(mport: int = mport, nw: int = nw, wport: int = wport) -> None:
                m = man.Manager(mport, nw, worker_port=wport)
                m.run()
            s.spawn(p, 'main', mmain, main=True)
            ipports.append(('localhost', mport))
        if nested:
            # one manager of managers in between
            p = s.new_proc('mm', 'manager')
            sub = list(ipports)

            def mmmain() -> None:
                m = man.Manager(7490, ipports=sub)
                m.run()
            s.spawn(p, 'main', mmmain, main=True)
            ipports = [('localhost', 7490)]
        p = s.new_proc('server', 'server')

        def smain() -> None:
            srv = det.DetachedServer(ipports, server_port)
            srv.run()
        s.spawn(p, 'main', smain, main=True)

    def add_client(self, name: str, script: Callable[['ClientCtx'], None]) -> None:
        s = self.s
        p = s.new_proc(name, 'client')
        ctx = ClientCtx(self, name)

        def cmain() -> None:
            try:
                script(ctx)
            finally:
                ctx.finished = True
        s.spawn(p, 'main', cmain, main=True)
        self.clients = getattr(self, 'clients', {})
        self.clients[name] = ctx


class ClientCtx:
    """Handed to client scripts: the real Compiler class + call recording."""

    def __init__(self, world: World, name: str) -> None:
        self.world = world
        self.name = name
        self.finished = False
        self.calls: list[dict] = []

    def compiler(self, **kw: Any) -> Any:
        from bqskit.compiler.compiler import Compiler
        return Compiler(**kw)

    def call(self, what: str, fn: Callable[..., Any], *a: Any, **k: Any) -> Any:
        """Record a client API call at the client boundary: the call event
        before invoking, the return event after the reply."""
        s = self.world.s
        rec = {'client': self.name, 'op': what, 'call_step': s.steps, 'ret_step': None, 'outcome': 'open'}
        self.calls.append(rec)
        self.world.client_log.append(rec)
        try:
            v = fn(*a, **k)
        except S.SimKilled:
            raise
        except BaseException as e:
            rec['ret_step'] = s.steps
            rec['outcome'] = 'raise'
            rec['exc'] = type(e).__name__
            parts = []
            x: Any = e
            while x is not None and len(parts) < 5:
                parts.append('%s: %s' % (type(x).__name__, str(x)))
                x = x.__cause__ or x.__context__
            rec['msg'] = ' <- '.join(parts)[-1200:]
            rec['exc_obj'] = e
            return e
        rec['ret_step'] = s.steps
        s.last_progress = s.steps
        rec['outcome'] = 'value'
        rec['value'] = v
        return v

    def quiesce(self, label: str) -> None:
        self.world.s.park('quiesce', lambda: False, label)
