"""C09 helpers: case recipes, workflows, in-worker probes, mapping oracles.

Everything a C09 case needs is a JSON-able *recipe* (so a witness can be
replayed): the logical circuit as a list of [gate name, location, params],
the machine (N, edges), the mapping workflow and its parameters.

The oracles here share no code with the mapping passes:

* `sanity_mappings`     injectivity / length / range of the three mappings,
* `connected_in`        brute-force connectivity of an induced subgraph,
* `coupling_violations` every multi-qudit operation on connected qudits,
* `strip_swaps`         swap-stripping translation validation,
* refsim.mapped_cost    (called from props/c09.py).

`RecordPass` is an ordinary pass put *between* the passes under observation
inside the workflow that the real Compiler executes: it snapshots PassData
(and, on request, a copy of the circuit) at pass boundaries and, on first use
in a worker process, wraps two methods of the real algorithm class
(`_uphill_swaps`, `_apply_swap`) with counting wrappers so that the check
knows whether the local-minimum escape path ran. It never changes the
circuit or the data the mapping passes read.

* `pam_walk`            block-level validation of permutation-aware routing
* `mapped_cost_of`      refsim.mapped_cost applied to the embedding isometry
"""
from __future__ import annotations

import functools
import itertools
from typing import Any
from typing import Sequence

import numpy as np

from bqskit.compiler.basepass import BasePass
from bqskit.compiler.machine import MachineModel
from bqskit.compiler.passdata import PassData
from bqskit.ir.circuit import Circuit
from bqskit.ir.gates import BarrierPlaceholder
from bqskit.ir.gates import CCPGate
from bqskit.ir.gates import CCXGate
from bqskit.ir.gates import CHGate
from bqskit.ir.gates import CircuitGate
from bqskit.ir.gates import ClockGate
from bqskit.ir.gates import CNOTGate
from bqskit.ir.gates import ConstantUnitaryGate
from bqskit.ir.gates import CPGate
from bqskit.ir.gates import CSUMGate
from bqskit.ir.gates import CZGate
from bqskit.ir.gates import HGate
from bqskit.ir.gates import ISwapGate
from bqskit.ir.gates import MargolusGate
from bqskit.ir.gates import RXGate
from bqskit.ir.gates import RXXGate
from bqskit.ir.gates import RYGate
from bqskit.ir.gates import RZGate
from bqskit.ir.gates import RZZGate
from bqskit.ir.gates import SGate
from bqskit.ir.gates import ShiftGate
from bqskit.ir.gates import SqrtISwapGate
from bqskit.ir.gates import SwapGate
from bqskit.ir.gates import SXGate
from bqskit.ir.gates import TGate
from bqskit.ir.gates import U1Gate
from bqskit.ir.gates import U2Gate
from bqskit.ir.gates import U3Gate
from bqskit.ir.gates import XGate
from bqskit.ir.gates import YGate
from bqskit.ir.gates import ZGate

# --------------------------------------------------------------- gate table
# name -> (factory(radix), arity, num_params); qubit-only gates ignore radix
_G: dict[str, tuple[Any, int]] = {
    'H': (lambda r: HGate(r), 1),
    'X': (lambda r: XGate(), 1),
    'Y': (lambda r: YGate(), 1),
    'Z': (lambda r: ZGate(), 1),
    'T': (lambda r: TGate(), 1),
    'S': (lambda r: SGate(), 1),
    'SX': (lambda r: SXGate(), 1),
    'U3': (lambda r: U3Gate(), 1),
    'U2': (lambda r: U2Gate(), 1),
    'U1': (lambda r: U1Gate(), 1),
    'RX': (lambda r: RXGate(), 1),
    'RY': (lambda r: RYGate(), 1),
    'RZ': (lambda r: RZGate(), 1),
    'SHIFT': (lambda r: ShiftGate(r), 1),
    'CLOCK': (lambda r: ClockGate(r), 1),
    'CX': (lambda r: CNOTGate(), 2),
    'CZ': (lambda r: CZGate(), 2),
    'CP': (lambda r: CPGate(), 2),
    'CH': (lambda r: CHGate(), 2),
    'RZZ': (lambda r: RZZGate(), 2),
    'RXX': (lambda r: RXXGate(), 2),
    'ISWAP': (lambda r: ISwapGate(), 2),
    'SQISW': (lambda r: SqrtISwapGate(), 2),
    'SWAP': (lambda r: SwapGate(r), 2),
    'CSUM': (lambda r: CSUMGate(r), 2),
    'CCX': (lambda r: CCXGate(), 3),
    'CCP': (lambda r: CCPGate(), 3),
    'MARG': (lambda r: MargolusGate(), 3),
}
QUBIT_1 = ['H', 'X', 'Y', 'Z', 'T', 'S', 'SX', 'U3', 'U2', 'U1', 'RX', 'RY', 'RZ']
QUBIT_2 = ['CX', 'CZ', 'CP', 'CH', 'RZZ', 'RXX', 'ISWAP', 'SQISW']
QUBIT_3 = ['CCX', 'CCP', 'MARG']
QUTRIT_1 = ['H', 'SHIFT', 'CLOCK']
QUTRIT_2 = ['CSUM']


def make_gate(name: str, radix: int) -> Any:
    return _G[name][0](radix)


def arity(name: str) -> int:
    return _G[name][1]


def num_params(name: str, radix: int = 2) -> int:
    return int(make_gate(name, radix).num_params)


def build_circuit(n: int, radix: int, ops: Sequence[Sequence[Any]]) -> Circuit:
    """Logical circuit from a recipe [[name, location, params], ...];
    name 'BARRIER' is a BarrierPlaceholder over `location`."""
    c = Circuit(n, [radix] * n)
    for name, loc, params in ops:
        loc = [int(q) for q in loc]
        if name == 'BARRIER':
            c.append_gate(BarrierPlaceholder(len(loc), [radix] * len(loc)), loc)
        else:
            c.append_gate(make_gate(name, radix), loc, [float(p) for p in params])
    return c


def build_model(N: int, radix: int, edges: Sequence[Sequence[int]]) -> MachineModel:
    return MachineModel(
        N, [(int(a), int(b)) for a, b in edges], radixes=[radix] * N,
    )


# ------------------------------------------------------------ graph oracles
def adjacency(N: int, edges: Sequence[Sequence[int]]) -> list[set[int]]:
    adj: list[set[int]] = [set() for _ in range(N)]
    for a, b in edges:
        adj[int(a)].add(int(b))
        adj[int(b)].add(int(a))
    return adj


def connected_in(adj: list[set[int]], nodes: Sequence[int]) -> bool:
    """Do `nodes` induce a connected subgraph (definition: flood fill)?"""
    nodes = [int(x) for x in nodes]
    if len(nodes) <= 1:
        return True
    allowed = set(nodes)
    seen = {nodes[0]}
    st = [nodes[0]]
    while st:
        x = st.pop()
        for y in adj[x]:
            if y in allowed and y not in seen:
                seen.add(y)
                st.append(y)
    return len(seen) == len(allowed)


def all_connected_graphs(n: int) -> list[list[tuple[int, int]]]:
    """All connected labelled graphs on n vertices."""
    out = []
    pairs = [(i, j) for i in range(n) for j in range(i + 1, n)]
    for mask in range(1 << len(pairs)):
        e = [pairs[k] for k in range(len(pairs)) if mask >> k & 1]
        if len(e) >= n - 1 and connected_in(adjacency(n, e), list(range(n))):
            out.append(e)
    return out


# ---------------------------------------------------------- operation keys
def gate_struct(g: Any) -> tuple:
    """Parameter-free identity of a gate (recursive for blocks)."""
    if isinstance(g, CircuitGate):
        return (
            'block', tuple(g.radixes),
            tuple((gate_struct(o.gate), tuple(o.location)) for o in g._circuit),
        )
    if isinstance(g, ConstantUnitaryGate):
        m = np.asarray(g.get_unitary())
        return ('const', tuple(g.radixes), m.round(12).tobytes())
    if isinstance(g, BarrierPlaceholder):
        return ('barrier', tuple(g.radixes))
    return (type(g).__name__, tuple(g.radixes), g.name)


def op_key(op: Any, loc: Sequence[int] | None = None) -> tuple:
    """Identity of an operation for sequence comparison: gate structure,
    radixes, exact parameters of the *operation*, location (possibly
    translated). Independent of Gate.__eq__. For a block only the structure
    of its circuit and the operation's own parameter vector count: the
    circuit object stored inside a CircuitGate may carry stale parameters
    (the operation's `params` are the authoritative ones)."""
    location = tuple(int(q) for q in (op.location if loc is None else loc))
    params = tuple(float(p) for p in op.params)
    return (gate_struct(op.gate), params, location)


def short_key(k: tuple) -> Any:
    """JSON-able abbreviation of an op_key for witnesses."""
    g = k[0]
    name = g[0] if g[0] != 'block' else 'block[%d ops]' % len(g[2])
    return [name, [round(p, 6) for p in k[1][:8]], list(k[2])]


def block_unitary(op: Any) -> np.ndarray:
    """refsim unitary of a block operation: the structure of its circuit with
    the operation's parameters."""
    from vlib import refsim
    c = op.gate._circuit.copy()
    c.set_params(list(op.params))
    return refsim.unitary(c)


def per_qudit_sequences(circuit: Circuit) -> list[list[tuple]]:
    seqs: list[list[tuple]] = [[] for _ in range(circuit.num_qudits)]
    for op in circuit:
        k = op_key(op)
        for q in op.location:
            seqs[q].append(k)
    return seqs


def has_swap(circuit: Circuit) -> bool:
    for op in circuit:
        if isinstance(op.gate, SwapGate):
            return True
        if isinstance(op.gate, CircuitGate):
            if has_swap(op.gate._circuit):
                return True
    return False


def block_has_multi(op: Any) -> bool:
    g = op.gate
    if isinstance(g, CircuitGate):
        return any(
            (o.num_qudits >= 2 and not isinstance(o.gate, BarrierPlaceholder))
            and (not isinstance(o.gate, CircuitGate) or block_has_multi(o))
            for o in g._circuit
        )
    return op.num_qudits >= 2


# ------------------------------------------------------------------ oracles
def sanity_mappings(
    n: int, N: int, placement: Any, im: Any, fm: Any,
) -> list[dict[str, Any]]:
    """Oracle (1) without the connectivity part."""
    bad = []
    for name, m, want_len in (
        ('initial_mapping', im, n), ('final_mapping', fm, n),
    ):
        if m is None:
            bad.append({'kind': 'mapping:missing', 'which': name})
            continue
        m = list(m)
        if len(m) != want_len:
            bad.append({'kind': 'mapping:length', 'which': name, 'got': m, 'want_len': want_len})
        if any((not isinstance(x, (int, np.integer))) or x < 0 or x >= N for x in m):
            bad.append({'kind': 'mapping:out_of_range', 'which': name, 'got': [int(x) for x in m], 'N': N})
        elif len(set(int(x) for x in m)) != len(m):
            bad.append({'kind': 'mapping:not_injective', 'which': name, 'got': [int(x) for x in m]})
    if placement is not None:
        p = list(placement)
        if any(x < 0 or x >= N for x in p):
            bad.append({'kind': 'mapping:out_of_range', 'which': 'placement', 'got': p, 'N': N})
        elif len(set(p)) != len(p):
            bad.append({'kind': 'mapping:not_injective', 'which': 'placement', 'got': p})
    return bad


def coupling_violations(
    out: Circuit, adj: list[set[int]],
) -> tuple[list[dict[str, Any]], dict[str, int]]:
    """Oracle (2): every multi-qudit operation on connected physical qudits;
    2-qudit operations on an edge (unordered pair). Barriers are fences, not
    operations; blocks that contain only single-qudit gates are not
    multi-qudit operations."""
    bad: list[dict[str, Any]] = []
    cnt = {'ops2': 0, 'ops3plus': 0, 'barriers': 0, 'blocks_1q_only': 0, 'swaps_out': 0}
    for cyc, op in out.operations_with_cycles():
        if op.num_qudits < 2:
            continue
        if isinstance(op.gate, BarrierPlaceholder):
            cnt['barriers'] += 1
            continue
        if isinstance(op.gate, CircuitGate) and not block_has_multi(op):
            cnt['blocks_1q_only'] += 1
            continue
        if isinstance(op.gate, SwapGate):
            cnt['swaps_out'] += 1
        loc = [int(q) for q in op.location]
        if op.num_qudits == 2:
            cnt['ops2'] += 1
            a, b = loc
            if b not in adj[a]:
                bad.append({
                    'kind': 'coupling:two_qudit_off_edge', 'cycle': int(cyc),
                    'gate': type(op.gate).__name__, 'location': loc,
                })
        else:
            cnt['ops3plus'] += 1
            if not connected_in(adj, loc):
                bad.append({
                    'kind': 'coupling:multi_qudit_disconnected', 'cycle': int(cyc),
                    'gate': type(op.gate).__name__, 'location': loc,
                })
    return bad, cnt


def strip_swaps(
    inp: Circuit, out: Circuit, im: Sequence[int], fm: Sequence[int],
) -> tuple[list[dict[str, Any]], dict[str, int]]:
    """Oracle (3): swap-stripping translation validation.

    Walk `out` in order starting from the occupancy given by `im`
    (physical qudit im[l] holds logical qudit l; every other physical qudit
    is empty). A SwapGate exchanges the contents of its two qudits; any other
    operation is translated back to logical qudits. The translated per-qudit
    operation sequences must equal the input's, no operation may touch an
    empty qudit, and the walk must end at `fm`.
    Precondition: `inp` contains no SwapGate.
    """
    bad: list[dict[str, Any]] = []
    cnt = {'swaps_stripped': 0, 'ops_unmapped': 0, 'swap_with_empty': 0}
    n = inp.num_qudits
    occ: dict[int, int] = {int(p): l for l, p in enumerate(im)}
    got: list[list[tuple]] = [[] for _ in range(n)]
    for cyc, op in out.operations_with_cycles():
        loc = [int(q) for q in op.location]
        if isinstance(op.gate, SwapGate):
            a, b = loc
            la, lb = occ.pop(a, None), occ.pop(b, None)
            if la is None or lb is None:
                cnt['swap_with_empty'] += 1
            if la is not None:
                occ[b] = la
            if lb is not None:
                occ[a] = lb
            cnt['swaps_stripped'] += 1
            continue
        if any(q not in occ for q in loc):
            bad.append({
                'kind': 'strip:operation_on_empty_qudit', 'cycle': int(cyc),
                'gate': type(op.gate).__name__, 'location': loc,
                'occupied': sorted(occ),
            })
            return bad, cnt
        lloc = [occ[q] for q in loc]
        k = op_key(op, lloc)
        for l in lloc:
            got[l].append(k)
        cnt['ops_unmapped'] += 1
    want = per_qudit_sequences(inp)
    for l in range(n):
        if got[l] != want[l]:
            i = 0
            while i < min(len(got[l]), len(want[l])) and got[l][i] == want[l][i]:
                i += 1
            bad.append({
                'kind': 'strip:sequence_differs', 'logical_qudit': l,
                'first_difference_at': i,
                'len_got': len(got[l]), 'len_want': len(want[l]),
                'got': short_key(got[l][i]) if i < len(got[l]) else None,
                'want': short_key(want[l][i]) if i < len(want[l]) else None,
            })
            break
    end = [None] * n
    for p, l in occ.items():
        end[l] = p
    if [int(x) for x in fm] != end:
        bad.append({
            'kind': 'strip:final_mapping_differs',
            'walk_ends_at': end, 'final_mapping': [int(x) for x in fm],
            'initial_mapping': [int(x) for x in im],
        })
    return bad, cnt


# ------------------------------------------------------- in-worker probes
_COUNTS: dict[str, int] = {}
_INSTALLED = False


def _install_probes() -> None:
    """Wrap two methods of the real algorithm class with counting wrappers
    (worker process only; they record and delegate, nothing else)."""
    global _INSTALLED
    if _INSTALLED:
        return
    from bqskit.passes.mapping.sabre import GeneralizedSabreAlgorithm as A

    orig_up = A._uphill_swaps
    orig_sw = A._apply_swap

    @functools.wraps(orig_up)
    def up(self: Any, *a: Any, **k: Any) -> Any:
        _COUNTS['uphill_calls'] = _COUNTS.get('uphill_calls', 0) + 1
        n = 0
        for s in orig_up(self, *a, **k):
            n += 1
            _COUNTS['uphill_swaps'] = _COUNTS.get('uphill_swaps', 0) + 1
            yield s

    @functools.wraps(orig_sw)
    def sw(self: Any, *a: Any, **k: Any) -> Any:
        _COUNTS['apply_swap'] = _COUNTS.get('apply_swap', 0) + 1
        return orig_sw(self, *a, **k)

    A._uphill_swaps = up  # type: ignore
    A._apply_swap = sw  # type: ignore
    _INSTALLED = True


class RecordPass(BasePass):
    """Snapshot PassData (and optionally the circuit) at a pass boundary."""

    key = '_verif_c09_rec'

    def __init__(
        self, tag: str, with_circuit: bool = False,
        grab: Sequence[str] = (),
    ) -> None:
        self.tag = tag
        self.with_circuit = with_circuit
        self.grab = list(grab)

    async def run(self, circuit: Circuit, data: PassData) -> None:
        _install_probes()
        rec = list(data[self.key]) if self.key in data else []
        snap: dict[str, Any] = {
            'tag': self.tag,
            'placement': [int(x) for x in data.placement],
            'initial_mapping': [int(x) for x in data.initial_mapping],
            'final_mapping': [int(x) for x in data.final_mapping],
            'num_qudits': int(circuit.num_qudits),
            'num_ops': int(circuit.num_operations),
            'counts': dict(_COUNTS),
        }
        if self.with_circuit:
            snap['circuit'] = circuit.copy()
        for k in self.grab:
            if k in data:
                snap[k] = data[k]
        rec.append(snap)
        data[self.key] = rec
        _COUNTS.clear()


def records(data: Any) -> dict[str, dict[str, Any]]:
    try:
        rec = data[RecordPass.key]
    except Exception:  # noqa
        return {}
    return {r['tag']: r for r in rec}


def seqpam_workflow(case: dict[str, Any], model: MachineModel) -> list[BasePass]:
    """compile.py's own two-stage SeqPAM workflow
    (build_seqpam_mapping_optimization_workflow: permutation-aware routing on
    the all-to-all relaxation, then ApplyPlacement + PAM layout + PAM routing
    on the real graph), preceded by SetModelPass. The only additions are
    recorders: at the start, after the first routing stage and at the end."""
    from bqskit.compiler.compile import build_seqpam_mapping_optimization_workflow
    from bqskit.compiler.workflow import Workflow
    from bqskit.passes.control.ifthenelse import IfThenElsePass
    from bqskit.passes.mapping.routing.pam import PAMRoutingPass
    from bqskit.passes.mapping.setmodel import SetModelPass
    wf = build_seqpam_mapping_optimization_workflow(
        int(case.get('optimization_level', 3)), float(case['eps']),
        int(case.get('num_layout_passes', 3)), int(case['block_size']),
    )
    outer = list(wf)
    assert len(outer) == 1 and isinstance(outer[0], IfThenElsePass)
    ite = outer[0]
    inner = list(ite.on_true)
    k = next(i for i, p_ in enumerate(inner) if isinstance(p_, PAMRoutingPass))
    inner.insert(k + 1, RecordPass('stage1'))
    on_false = list(ite.on_false) if ite.on_false is not None else None
    return [
        RecordPass('input', with_circuit=True), SetModelPass(model),
        IfThenElsePass(ite.condition, Workflow(inner), on_false),
        RecordPass('final'),
    ]


# --------------------------------------------------------------- workflows
SABRE_KEYS = (
    'decay_delta', 'decay_reset_interval', 'decay_reset_on_gate',
    'extended_set_size', 'extended_set_weight',
)


STATIC_TIMEOUT_S = 4.0


def placement_pass(kind: str) -> BasePass:
    from bqskit.passes.mapping.placement.greedy import GreedyPlacementPass
    from bqskit.passes.mapping.placement.static import StaticPlacementPass
    from bqskit.passes.mapping.placement.trivial import TrivialPlacementPass
    if kind == 'greedy':
        return GreedyPlacementPass()
    if kind == 'trivial':
        return TrivialPlacementPass()
    if kind == 'static':
        return StaticPlacementPass(timeout_sec=STATIC_TIMEOUT_S)
    raise ValueError(kind)


def sabre_workflow(case: dict[str, Any], model: MachineModel) -> list[BasePass]:
    from bqskit.passes.mapping.apply import ApplyPlacement
    from bqskit.passes.mapping.layout.sabre import GeneralizedSabreLayoutPass
    from bqskit.passes.mapping.routing.sabre import GeneralizedSabreRoutingPass
    from bqskit.passes.mapping.setmodel import SetModelPass
    from bqskit.passes.partitioning.quick import QuickPartitioner
    lay = case['layout']
    rou = case['routing']
    wf: list[BasePass] = []
    if case.get('partition', 0):
        wf.append(QuickPartitioner(int(case['partition'])))
    wf.append(RecordPass('input', with_circuit=True))
    wf.append(SetModelPass(model))
    wf.append(placement_pass(case['placement']))
    wf.append(RecordPass('placed'))
    if lay is not None:
        wf.append(
            GeneralizedSabreLayoutPass(
                int(lay['total_passes']), *[lay[k] for k in SABRE_KEYS],
            ),
        )
    wf.append(RecordPass('laid', with_circuit=True))
    wf.append(GeneralizedSabreRoutingPass(*[rou[k] for k in SABRE_KEYS]))
    wf.append(RecordPass('routed'))
    wf.append(ApplyPlacement())
    return wf


def placement_only_workflow(case: dict[str, Any], model: MachineModel) -> list[BasePass]:
    from bqskit.passes.mapping.setmodel import SetModelPass
    from bqskit.passes.partitioning.quick import QuickPartitioner
    wf: list[BasePass] = []
    if case.get('partition', 0):
        wf.append(QuickPartitioner(int(case['partition'])))
    wf.append(SetModelPass(model))
    wf.append(placement_pass(case['placement']))
    wf.append(RecordPass('placed', with_circuit=True))
    return wf


# --------------------------------------------------------------------- PAM
def pam_workflow(case: dict[str, Any], model: MachineModel) -> list[BasePass]:
    """The second (mapping) half of compile.py's SeqPAM workflow
    (variant 'compile': trivial placement applied before layout, as
    build_seqpam_mapping_optimization_workflow does) or the same with a
    GreedyPlacementPass and no early ApplyPlacement (variant 'placed')."""
    from bqskit.passes.control.foreach import ForEachBlockPass
    from bqskit.passes.mapping.apply import ApplyPlacement
    from bqskit.passes.mapping.embed import EmbedAllPermutationsPass
    from bqskit.passes.mapping.layout.pam import PAMLayoutPass
    from bqskit.passes.mapping.placement.greedy import GreedyPlacementPass
    from bqskit.passes.mapping.routing.pam import PAMRoutingPass
    from bqskit.passes.mapping.setmodel import SetModelPass
    from bqskit.passes.mapping.topology import SubtopologySelectionPass
    from bqskit.passes.mapping.verify import PAMVerificationSequence
    from bqskit.passes.partitioning.quick import QuickPartitioner
    from bqskit.passes.synthesis.qsearch import QSearchSynthesisPass
    from bqskit.passes.util.unfold import UnfoldPass
    bs = int(case['block_size'])
    lay, rou = case['layout'], case['routing']
    wf: list[BasePass] = [
        QuickPartitioner(bs), RecordPass('input', with_circuit=True),
        SetModelPass(model),
    ]
    if case['variant'] == 'placed':
        wf.append(GreedyPlacementPass())
    wf.append(RecordPass('placed'))
    wf.append(SubtopologySelectionPass(bs))
    wf.append(
        ForEachBlockPass(
            EmbedAllPermutationsPass(
                input_perm=bool(case['input_perm']),
                output_perm=bool(case['output_perm']),
                vary_topology=True,
                inner_synthesis=QSearchSynthesisPass(
                    success_threshold=float(case['eps']),
                ),
            ),
        ),
    )
    if case['variant'] == 'compile':
        wf.append(ApplyPlacement())
    wf.append(RecordPass('pre', with_circuit=True))
    wf.append(
        PAMLayoutPass(
            int(lay['total_passes']), float(lay['gate_count_weight']),
            *[lay[k] for k in SABRE_KEYS],
        ),
    )
    wf.append(RecordPass('laid', with_circuit=True))
    wf.append(
        PAMRoutingPass(
            float(rou['gate_count_weight']), *[rou[k] for k in SABRE_KEYS],
        ),
    )
    wf.append(
        RecordPass(
            'routed', with_circuit=True, grab=[PAMRoutingPass.out_data_key],
        ),
    )
    if case.get('verify'):
        wf.append(PAMVerificationSequence(8))
    wf.append(ApplyPlacement())
    wf.append(RecordPass('applied', with_circuit=True))
    wf.append(UnfoldPass())
    return wf


PAM_OUT_KEY = '_pam_routing_block_out_data'


def _cost_with_perms(
    U: np.ndarray, V: np.ndarray, pi_b: Sequence[int], pf_b: Sequence[int],
    radixes: Sequence[int],
) -> tuple[float, float]:
    from vlib import refsim
    return refsim.mapped_cost(U, V, pi_b, pf_b, radixes, radixes)


def pam_walk(
    inp: Circuit, routed: Circuit, out_data: dict[Any, Any],
    fm_before: Sequence[int], fm_after: Sequence[int], eps: float,
) -> tuple[list[dict[str, Any]], dict[str, Any]]:
    """Block-level translation validation of a permutation-aware routing.

    `inp` and `routed` have the same width W (the routing pass's local index
    space); logical qudit l starts on local qudit l. Top-level SwapGates
    exchange contents; a block moves the logical qudits it acts on according
    to the (pre_perm, post_perm) the pass recorded for it; every block must be
    the next input operation on each of its logical qudits, stem from that
    input block (recorded original unitary == the input block's unitary) and
    implement it as an isometry from where the qudits were to where the
    record says they go (refsim); barriers and any other operation must
    translate back to exactly the next input operation on their qudits.
    """
    from vlib import refsim
    bad: list[dict[str, Any]] = []
    info: dict[str, Any] = {
        'swaps': 0, 'blocks': 0, 'barriers': 0, 'plain': 0,
        'nonidentity_perms': 0, 'max_block_cost': 0.0,
        'blocks_synthesis_imprecise': 0,
    }
    W = inp.num_qudits
    if routed.num_qudits != W:
        bad.append({'kind': 'pam:width_changed', 'got': routed.num_qudits, 'want': W})
        return bad, info
    pos = list(range(W))           # logical -> local physical
    occ = list(range(W))           # local physical -> logical
    in_ops = [op for op in inp]
    per_q: list[list[int]] = [[] for _ in range(W)]
    for j, op in enumerate(in_ops):
        for q in op.location:
            per_q[q].append(j)
    ptr = [0] * W
    recs = {(int(k[0]), int(k[1])): v for k, v in (out_data or {}).items()}

    barriers_off = False   # set after the first misplaced barrier (below)

    def next_on(l: int) -> int | None:
        while barriers_off and ptr[l] < len(per_q[l]) and isinstance(
            in_ops[per_q[l][ptr[l]]].gate, BarrierPlaceholder,
        ):
            ptr[l] += 1
        return per_q[l][ptr[l]] if ptr[l] < len(per_q[l]) else None

    for cyc, op in routed.operations_with_cycles():
        PL = [int(q) for q in op.location]
        if isinstance(op.gate, SwapGate):
            a, b = PL
            la, lb = occ[a], occ[b]
            occ[a], occ[b] = lb, la
            pos[la], pos[lb] = b, a
            info['swaps'] += 1
            continue
        is_bar = isinstance(op.gate, BarrierPlaceholder)
        if is_bar and barriers_off:
            continue
        lset = [occ[p] for p in PL]
        nxt = {next_on(l) for l in lset}
        j = next(iter(nxt)) if len(nxt) == 1 else None
        if j is None or set(in_ops[j].location) != set(lset):
            want = [
                (type(in_ops[x].gate).__name__, list(in_ops[x].location)) if x is not None else None
                for x in sorted(nxt, key=lambda z: -1 if z is None else z)
            ]
            bad.append({
                'kind': 'pam:barrier_location' if is_bar else 'pam:operation_out_of_place',
                'cycle': int(cyc), 'gate': type(op.gate).__name__,
                'physical_location': PL, 'acts_on_logical': lset,
                'next_input_ops_on_those_qudits': want,
                'logical_to_physical_now': list(pos),
            })
            if is_bar:
                info['barriers'] += 1
                # one witness for the fence; keep validating blocks, swaps
                # and mappings with barriers ignored on both sides
                barriers_off = True
                continue
            return bad, info
        iop = in_ops[j]
        for l in lset:
            ptr[l] += 1
        if is_bar:
            info['barriers'] += 1
            if not isinstance(iop.gate, BarrierPlaceholder):
                bad.append({'kind': 'pam:operation_out_of_place', 'cycle': int(cyc), 'gate': 'BarrierPlaceholder', 'input_op': type(iop.gate).__name__})
                return bad, info
            continue
        key = (int(cyc), PL[0])
        if not isinstance(op.gate, CircuitGate) or key not in recs:
            # not a recorded block: must be the input operation itself
            info['plain'] += 1
            if op_key(op, lset) != op_key(iop):
                bad.append({'kind': 'pam:unrecorded_operation_differs', 'cycle': int(cyc), 'got': short_key(op_key(op, lset)), 'want': short_key(op_key(iop))})
                return bad, info
            continue
        info['blocks'] += 1
        d = recs[key]
        lp1 = [int(x) for x in d['pre_perm']]
        lp2 = [int(x) for x in d['post_perm']]
        L_in = [int(q) for q in iop.location]
        k = len(L_in)
        S = sorted(L_in)
        if sorted(lp1) != list(range(k)) or sorted(lp2) != list(range(k)):
            bad.append({'kind': 'pam:recorded_perm_invalid', 'pre_perm': lp1, 'post_perm': lp2})
            return bad, info
        U = np.asarray(iop.get_unitary())
        U0 = np.asarray(d['original_utry'])
        if U0.shape != U.shape or not np.allclose(U0, U, atol=1e-9):
            bad.append({'kind': 'pam:block_not_from_input', 'cycle': int(cyc), 'physical_location': PL, 'input_block': L_in})
            return bad, info
        pos1 = list(pos)
        for i in range(k):
            pos1[S[i]] = pos[S[lp1[i]]]
        if [pos1[q] for q in L_in] != PL:
            bad.append({
                'kind': 'pam:block_location_inconsistent', 'cycle': int(cyc),
                'physical_location': PL, 'input_block': L_in, 'pre_perm': lp1,
                'expected_location': [pos1[q] for q in L_in],
            })
            return bad, info
        pos2 = list(pos1)
        for i in range(k):
            pos2[S[i]] = pos1[S[lp2[i]]]
        if lp1 != list(range(k)) or lp2 != list(range(k)):
            info['nonidentity_perms'] += 1
        # the block as an isometry: qudit q enters at pos[q], leaves at pos2[q]
        V = block_unitary(op)
        rad = [int(r) for r in iop.radixes]
        pi_b = [PL.index(pos[q]) for q in L_in]
        pf_b = [PL.index(pos2[q]) for q in L_in]
        cost, leak = _cost_with_perms(U, V, pi_b, pf_b, rad)
        if cost > 4 * eps + 1e-10:
            # synthesis imprecision or wrong bookkeeping? the recorded pair
            # must at least be the best of all (entry, exit) assignments
            best = min(
                _cost_with_perms(U, V, a, b, rad)[0]
                for a in itertools.permutations(range(k))
                for b in itertools.permutations(range(k))
            )
            if cost > 10 * best + 1e-9 or cost > 1e-2:
                bad.append({
                    'kind': 'pam:block_permutation_wrong', 'cycle': int(cyc),
                    'physical_location': PL, 'input_block': L_in,
                    'pre_perm': lp1, 'post_perm': lp2, 'cost_recorded': cost,
                    'best_cost_over_all_assignments': best, 'budget': 4 * eps,
                })
                return bad, info
            info['blocks_synthesis_imprecise'] += 1
        info['max_block_cost'] = max(info['max_block_cost'], cost)
        pos = pos2
        for l in S:
            occ[pos[l]] = l
    left = [l for l in range(W) if next_on(l) is not None]
    if left:
        bad.append({'kind': 'pam:operations_missing', 'logical_qudits': left})
    want_fm = [pos[int(x)] for x in fm_before]
    if [int(x) for x in fm_after] != want_fm:
        bad.append({
            'kind': 'pam:final_mapping_differs', 'walk_ends_at': want_fm,
            'recorded': [int(x) for x in fm_after],
        })
    return bad, info


# ------------------------------------------------------------------ refsim
def mapped_cost_of(
    inp: Circuit, out: Circuit, pi: Sequence[int], pf: Sequence[int],
) -> tuple[float, float]:
    """refsim.mapped_cost without building the full physical unitary: the
    output's operations are applied to the embedding isometry E(pi) directly
    (D_phys x d_log instead of D_phys x D_phys). Same definition:
    V = U_out E(pi), W = E(pf) U_in, cost = 1 - |tr(V^H W)|/d,
    leakage = ||(1 - E(pf)E(pf)^H) V||_F / sqrt(d)."""
    from vlib import refsim
    lr = [int(r) for r in inp.radixes]
    pr = [int(r) for r in out.radixes]
    Ei = refsim.embedding(pi, lr, pr).astype(np.complex128)
    Ef = refsim.embedding(pf, lr, pr)
    V = Ei
    for m, loc in refsim.op_items(out):
        V = refsim.apply(m, loc, pr, V)
    U_in = refsim.unitary(inp)
    W = Ef @ U_in
    d = U_in.shape[0]
    c = 1.0 - abs(np.vdot(V.reshape(-1), W.reshape(-1))) / d
    inside = Ef @ (Ef.T @ V)
    leak = np.linalg.norm(V - inside) / np.sqrt(d)
    return float(max(0.0, c)), float(leak)
