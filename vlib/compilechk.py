"""Shared machinery of the end-to-end `bqskit.compile()` checks C01, C02, C03.

* JSON-able *case* descriptions (input circuit / unitary / state / state
  system / list, machine model, configuration) and their materialisation;
* seeded generators for such cases;
* the per-case subprocess runner (`python -m vlib.compilechk` reads one case
  on stdin, starts a private attached `Compiler`, calls `bqskit.compile`,
  *observes* the result with the independent simulator and prints one JSON
  line) and the parallel driver with per-case watchdogs;
* the oracles: `judge_c01`, `judge_c02`, `judge_c03` are pure functions from
  (case, observation) to a list of witnesses; budgets follow DESIGN 2.2.

Nothing here imports or calls `Compiler()` on the default port.
"""
from __future__ import annotations

import itertools
import json
import math
import os
import shutil
import signal
import subprocess
import sys
import tempfile
import time
import traceback
import warnings
from concurrent.futures import ThreadPoolExecutor
from typing import Any
from typing import Sequence

import numpy as np

ROOT = os.path.dirname(os.path.dirname(os.path.abspath(__file__)))
PY = sys.executable or '/venv/bin/python'
INJECT_DIR = os.path.join(ROOT, 'vlib', 'inject')

FLOOR_PER_OP = 1e-10
BUDGET_GRACE_S = 240.0
MAX_SIM_QUDITS = 9


# ====================================================================== gates
_GT: dict[str, Any] | None = None


def gate_table() -> dict[str, Any]:
    """name -> gate object. Names are what case files store."""
    global _GT
    if _GT is not None:
        return _GT
    from bqskit.ir import gates as G
    t: dict[str, Any] = {
        # 1-qubit
        'H': G.HGate(), 'X': G.XGate(), 'Y': G.YGate(), 'Z': G.ZGate(),
        'T': G.TGate(), 'S': G.SGate(), 'SX': G.SXGate(), 'U3': G.U3Gate(),
        'RZ': G.RZGate(), 'RX': G.RXGate(), 'RY': G.RYGate(),
        'U1': G.U1Gate(), 'U2': G.U2Gate(),
        # 2-qubit
        'CX': G.CNOTGate(), 'CZ': G.CZGate(), 'CP': G.CPGate(),
        'RZZ': G.RZZGate(), 'ISWAP': G.ISwapGate(),
        'SQISW': G.SqrtISwapGate(), 'SWAP': G.SwapGate(), 'CH': G.CHGate(),
        'RXX': G.RXXGate(), 'CY': G.CYGate(), 'CRZ': G.CRZGate(),
        # 3-qubit
        'CCX': G.CCXGate(), 'CCP': G.CCPGate(), 'MARG': G.MargolusGate(),
        'CSWAP': G.ControlledGate(G.SwapGate()),
        # qutrits
        'H3': G.HGate(3), 'X3': G.ShiftGate(3), 'Z3': G.ClockGate(3),
        'CSUM3': G.CSUMGate(3),
        'EU3_01': G.EmbeddedGate(G.U3Gate(), 3, [0, 1]),
        'EU3_02': G.EmbeddedGate(G.U3Gate(), 3, [0, 2]),
        'ECX_01': G.EmbeddedGate(G.CNOTGate(), 3, [0, 1]),
        'VU3': G.VariableUnitaryGate(1, [3]),
        # vendor single-qudit gates
        'U1QPI': G.U1qPiGate, 'U1QPI2': G.U1qPi2Gate,
        'PXZ': G.PhasedXZGate(), 'SYC': G.SycamoreGate(),
    }
    _GT = t
    return t


Q1_NAMES = ['H', 'X', 'Y', 'Z', 'T', 'S', 'SX', 'U3', 'RZ', 'RX', 'RY', 'U1', 'U2']
Q2_NAMES = ['CX', 'CZ', 'CP', 'RZZ', 'ISWAP', 'SQISW', 'SWAP', 'CH', 'RXX', 'CY', 'CRZ']
Q3_NAMES = ['CCX', 'CCP', 'MARG', 'CSWAP']
T1_NAMES = ['H3', 'X3', 'Z3', 'EU3_01', 'EU3_02', 'VU3']
T2_NAMES = ['CSUM3', 'ECX_01']

_GS: dict[str, tuple[str, ...]] = {
    'cx_u3': ('CX', 'U3'),
    'cz_u3': ('CZ', 'U3'),
    'cz_rz_sx': ('CZ', 'RZ', 'SX'),
    'cx_rz_sx': ('CX', 'RZ', 'SX'),
    'sqisw_u3': ('SQISW', 'U3'),
    'isw_rz_rx': ('ISWAP', 'RZ', 'RX'),
    'cx_cz_u3': ('CX', 'CZ', 'U3'),
    # vendor gate sets (bqskit.ext), restricted to small graphs
    'rigetti': ('SX', 'X', 'RZ', 'CZ'),
    'ankaa': ('SX', 'X', 'RZ', 'CZ', 'ISWAP'),
    'quantinuum': ('U1QPI', 'U1QPI2', 'RZ', 'RZZ'),
    # qutrits: GateSet.default_gate_set(3)
    'default3': ('VU3', 'CSUM3'),
}
QUBIT_GATESETS = [
    'cx_u3', 'cz_u3', 'cz_rz_sx', 'cx_rz_sx', 'sqisw_u3', 'isw_rz_rx',
    'cx_cz_u3',
]
ZX_GATESETS = ('cz_rz_sx', 'cx_rz_sx', 'rigetti', 'ankaa')


def gateset_gates(name: str) -> list[Any]:
    t = gate_table()
    return [t[g] for g in _GS[name]]


def check_gate_tables(vendor: bool = True) -> None:
    """The names above must denote the same sets as gen.GATE_SETS and the
    vendor models of bqskit.ext (guards against the table drifting)."""
    from vlib import gen
    for k, gs in gen.GATE_SETS.items():
        assert set(gs) == set(gateset_gates(k)), k
    if not vendor:
        return
    from bqskit.ext import Aspen11Model, ANKAA9Q3Model, H1_1Model
    assert set(Aspen11Model.gate_set) == set(gateset_gates('rigetti'))
    assert set(ANKAA9Q3Model.gate_set) == set(gateset_gates('ankaa'))
    assert set(H1_1Model.gate_set) == set(gateset_gates('quantinuum'))
    from bqskit.compiler.gateset import GateSet
    assert set(GateSet.default_gate_set([3, 3])) == set(gateset_gates('default3'))


# ============================================================ materialisation
def build_circuit(spec: dict[str, Any]) -> Any:
    """Circuit from {'radixes': [...], 'ops': [[name, loc, params, extra?]]}."""
    from bqskit.ir.circuit import Circuit
    from bqskit.ir.gates import BarrierPlaceholder
    from bqskit.ir.gates import CircuitGate
    from bqskit.ir.gates import MeasurementPlaceholder
    t = gate_table()
    rad = list(spec['radixes'])
    c = Circuit(len(rad), rad)
    for op in spec['ops']:
        name, loc, params = op[0], [int(q) for q in op[1]], list(op[2])
        extra = op[3] if len(op) > 3 else None
        if name == 'barrier':
            c.append_gate(BarrierPlaceholder(len(loc), [rad[q] for q in loc]), loc)
        elif name == 'measure':
            cregs = [(str(a), int(b)) for a, b in extra['cregs']]
            meas = {int(q): (str(v[0]), int(v[1])) for q, v in extra['meas']}
            c.append_gate(MeasurementPlaceholder(cregs, meas), loc)
        elif name == 'block':
            sub = build_circuit(extra)
            c.append_gate(CircuitGate(sub), loc, sub.params)
        else:
            c.append_gate(t[name], loc, params)
    return c


def spec_items(spec: dict[str, Any]) -> list[tuple[np.ndarray, tuple[int, ...]]]:
    """(matrix, location) list of a circuit spec for refsim, built from the
    gates' own matrices without going through `Circuit`; placeholders
    (barrier, measure) are skipped, blocks are expanded."""
    t = gate_table()
    out: list[tuple[np.ndarray, tuple[int, ...]]] = []
    for op in spec['ops']:
        name, loc, params = op[0], tuple(int(q) for q in op[1]), list(op[2])
        if name in ('barrier', 'measure'):
            continue
        if name == 'block':
            for m, l in spec_items(op[3]):
                out.append((m, tuple(loc[q] for q in l)))
            continue
        out.append((np.asarray(t[name].get_unitary(params)), loc))
    return out


def cplx(x: Any) -> np.ndarray:
    """[re, im] nested lists -> complex array."""
    return np.asarray(x[0], dtype=float) + 1j * np.asarray(x[1], dtype=float)


def uncplx(a: np.ndarray) -> list[Any]:
    a = np.asarray(a, dtype=np.complex128)
    return [a.real.tolist(), a.imag.tolist()]


def build_target(spec: dict[str, Any]) -> Any:
    from bqskit.qis.state.state import StateVector
    from bqskit.qis.state.system import StateSystem
    from bqskit.qis.unitary.unitarymatrix import UnitaryMatrix
    k = spec['kind']
    rad = list(spec['radixes'])
    if k == 'unitary':
        return UnitaryMatrix(cplx(spec['mat']), rad)
    if k == 'state':
        return StateVector(cplx(spec['vec']), rad)
    if k == 'system':
        V = cplx(spec['V'])
        W = cplx(spec['W'])
        return StateSystem({
            StateVector(V[:, i], rad): StateVector(W[:, i], rad)
            for i in range(V.shape[1])
        })
    raise ValueError(k)


def build_input(spec: dict[str, Any]) -> Any:
    if spec['kind'] == 'circuit':
        return build_circuit(spec)
    if spec['kind'] == 'list':
        return [build_input(s) for s in spec['items']]
    return build_target(spec)


def model_edges(m: dict[str, Any]) -> list[tuple[int, int]]:
    n = int(m['n'])
    if m.get('edges') is None:
        return [(i, j) for i in range(n) for j in range(i + 1, n)]
    return [(int(a), int(b)) for a, b in m['edges']]


def build_model(m: dict[str, Any] | None) -> Any:
    from bqskit.compiler.machine import MachineModel
    if m is None:
        return None
    n = int(m['n'])
    rad = [int(m.get('radix', 2))] * n
    gs = set(gateset_gates(m['gateset']))
    edges = None if m.get('edges') is None else [tuple(e) for e in model_edges(m)]
    if n == 1:
        edges = None
    return MachineModel(n, edges, gs, rad)


def input_width(spec: dict[str, Any]) -> int:
    return len(spec['radixes'])


# ============================================================== preconditions
def preconditions(case: dict[str, Any]) -> list[str]:
    """Re-implementation of the conditions under which compile() documents
    (or explicitly codes, in compile()/build_workflow) a ValueError. An empty
    list means: compile() must accept this input."""
    cfg = case['config']
    inp = case['input']
    m = case['model']
    why: list[str] = []
    lvl, mss, eps = cfg['level'], cfg['mss'], cfg['eps']
    if lvl not in (1, 2, 3, 4):
        why.append('optimization_level')
    if mss < 2:
        why.append('max_synthesis_size<2')
    if not (0 <= eps <= 1):
        why.append('synthesis_epsilon')
    et = cfg.get('error_threshold')
    if et is not None and not (0 <= et <= 1):
        why.append('error_threshold')
    if cfg.get('error_sim_size', 8) < mss:
        why.append('error_sim_size<max_synthesis_size')
    t = gate_table()
    if m is not None:
        gs = [t[g] for g in _GS[m['gateset']]]
        if mss < max(g.num_qudits for g in gs):
            why.append('max_synthesis_size<largest native gate')
    items = inp['items'] if inp['kind'] == 'list' else [inp]
    if inp['kind'] == 'list' and not items:
        why.append('empty iterable')
    for it in items:
        rad = list(it['radixes'])
        n = len(rad)
        if any(r != rad[0] for r in rad):
            why.append('mixed radix input')
        if m is not None:
            if int(m['n']) < n:
                why.append('machine too small')
            if int(m.get('radix', 2)) != rad[0]:
                why.append('radix mismatch')
            if not any(g.num_qudits >= 2 for g in gs) and n > 1:
                why.append('no entangling gates')
            if all(g.num_qudits > n for g in gs):
                why.append('all native gates larger than input')
        if it['kind'] == 'circuit':
            if n > mss:
                for op in it['ops']:
                    if op[0] in ('barrier', 'measure'):
                        continue
                    if len(op[1]) > mss:
                        why.append('gate larger than max_synthesis_size')
                        break
        else:
            if n > mss:
                why.append('target larger than max_synthesis_size')
            if it['kind'] == 'unitary' and et is not None and et < eps:
                why.append('error_threshold<synthesis_epsilon')
    return why


# ================================================================ observation
def is_placeholder(gate: Any) -> bool:
    from bqskit.ir.gates import BarrierPlaceholder
    from bqskit.ir.gates import MeasurementPlaceholder
    try:
        from bqskit.ir.gates import Reset  # type: ignore
        rs: tuple[Any, ...] = (Reset,)
    except Exception:  # noqa
        rs = ()
    return isinstance(gate, (BarrierPlaceholder, MeasurementPlaceholder) + rs)


def gate_name(gate: Any) -> str:
    t = gate_table()
    for k, g in t.items():
        try:
            if g == gate:
                return k
        except Exception:  # noqa
            pass
    return repr(gate)[:60]


def circuit_items(circ: Any) -> list[tuple[np.ndarray, tuple[int, ...]]]:
    out = []
    for op in circ:
        if is_placeholder(op.gate):
            continue
        out.append((np.asarray(op.get_unitary()), tuple(op.location)))
    return out


def describe_circuit(circ: Any, maxops: int = 400) -> dict[str, Any]:
    ops = []
    for op in circ:
        ops.append([
            gate_name(op.gate), [int(q) for q in op.location],
            [float(p) for p in op.params],
        ])
        if len(ops) >= maxops:
            ops.append(['...', [], []])
            break
    return {
        'radixes': [int(r) for r in circ.radixes],
        'num_ops': int(circ.num_operations), 'ops': ops,
    }


def measurement_view(circ: Any) -> dict[str, Any]:
    """What the circuit says about measurements: for every qudit the
    (register, bit) measured there, the declared registers, and whether
    anything (barriers aside) follows a measurement on a measured qudit."""
    from bqskit.ir.gates import BarrierPlaceholder
    from bqskit.ir.gates import MeasurementPlaceholder
    meas: dict[int, list[Any]] = {}
    cregs: dict[str, int] = {}
    problems: list[str] = []
    n_ph = 0
    measured_at: dict[int, int] = {}
    for idx, op in enumerate(circ):
        if isinstance(op.gate, MeasurementPlaceholder):
            n_ph += 1
            keys = [int(q) for q in op.gate.measurements.keys()]
            if sorted(keys) != sorted(int(q) for q in op.location):
                problems.append(
                    'placeholder location %s != measured qudits %s'
                    % (list(op.location), keys),
                )
            for q, (reg, bit) in op.gate.measurements.items():
                if int(q) in meas:
                    problems.append('qudit %d measured twice' % int(q))
                meas[int(q)] = [str(reg), int(bit)]
                measured_at[int(q)] = idx
            for name, size in op.gate.classical_regs:
                cregs[str(name)] = int(size)
        elif not isinstance(op.gate, BarrierPlaceholder):
            for q in op.location:
                if int(q) in measured_at:
                    problems.append(
                        'operation %s after the measurement of qudit %d'
                        % (gate_name(op.gate), int(q)),
                    )
    return {
        'meas': sorted([q, v[0], v[1]] for q, v in meas.items()),
        'cregs': sorted([k, v] for k, v in cregs.items()),
        'placeholders': n_ph, 'problems': problems,
    }


def spec_measurements(spec: dict[str, Any]) -> dict[str, Any]:
    """Same view, computed from an input spec (later measurement of the same
    qudit overrides, as a register bit written twice keeps the last value)."""
    meas: dict[int, list[Any]] = {}
    cregs: dict[str, int] = {}
    for op in spec['ops']:
        if op[0] == 'measure':
            for q, v in op[3]['meas']:
                meas[int(q)] = [str(v[0]), int(v[1])]
            for a, b in op[3]['cregs']:
                cregs.setdefault(str(a), int(b))
    return {
        'meas': sorted([q, v[0], v[1]] for q, v in meas.items()),
        'cregs': sorted([k, v] for k, v in cregs.items()),
    }


def indep_compat(
    circ: Any, m: dict[str, Any], placement: Sequence[int] | None = None,
    exact_width: bool = False, exempt_placeholders: bool = True,
) -> list[str]:
    """Independent compatibility checker (C02): returns the list of reasons
    why `circ` is not executable on model `m` (empty = compatible).
    Conditions: width, radixes, native gates, coupled pairs (unordered)."""
    n = int(m['n'])
    radix = int(m.get('radix', 2))
    why: list[str] = []
    if exact_width and circ.num_qudits != n:
        why.append('width:%d!=%d' % (circ.num_qudits, n))
    if circ.num_qudits > n:
        why.append('wider_than_model')
        return why
    pl = list(range(circ.num_qudits)) if placement is None else [int(p) for p in placement]
    if len(pl) < circ.num_qudits or any(p < 0 or p >= n for p in pl):
        why.append('bad_placement')
        return why
    for q, r in enumerate(circ.radixes):
        if int(r) != radix:
            why.append('radix:qudit%d' % q)
            break
    native = gateset_gates(m['gateset'])
    edges = {frozenset(e) for e in model_edges(m)}
    seen_g: set[str] = set()
    seen_e: set[tuple[int, int]] = set()
    for op in circ:
        ph = is_placeholder(op.gate)
        if ph and exempt_placeholders:
            continue
        if not any(g == op.gate for g in native):
            nm = gate_name(op.gate)
            if nm not in seen_g:
                seen_g.add(nm)
                why.append('gate:' + nm)
        if len(op.location) >= 2:
            for a, b in itertools.combinations(op.location, 2):
                pa, pb = pl[int(a)], pl[int(b)]
                if frozenset((pa, pb)) not in edges:
                    key = (min(pa, pb), max(pa, pb))
                    if key not in seen_e:
                        seen_e.add(key)
                        why.append('uncoupled:%d-%d' % key)
    return why


def exc_info(e: BaseException) -> dict[str, Any]:
    from vlib import core
    # the runtime re-raises worker errors as RuntimeError with the worker's
    # traceback text inside the message: extract the innermost site from it
    # (Compiler._send_recv wraps it once more: follow the cause chain)
    chain = [e]
    while chain[-1].__cause__ is not None and len(chain) < 6:
        chain.append(chain[-1].__cause__)  # type: ignore
    msg = str(e)
    for c in chain:
        if 'Traceback' in str(c) or 'File "' in str(c):
            msg = str(c)
            break
    else:
        if len(chain) > 1:
            msg = str(chain[-1]) or msg
    site = core.raising_site(e)
    frames = core.repo_frames(e)
    inner_exc = type(e).__name__
    inner_msg = msg.strip().splitlines()[-1][:300] if msg.strip() else ''
    lines = msg.splitlines()
    tb_sites = []
    last_file = -1
    for i, ln in enumerate(lines):
        s_ = ln.strip()
        if ln.startswith('  File "') and ', in ' in s_:
            try:
                path = s_.split('"')[1]
                fn = s_.rsplit(', in ', 1)[1].strip()
                tb_sites.append('%s:%s' % (os.path.basename(path), fn))
                last_file = i
            except Exception:  # noqa
                pass
    if tb_sites:
        site = tb_sites[-1]
        frames = [
            x for x in tb_sites
            if not x.startswith(('worker.py:', 'task.py:', 'mon_pass.py:'))
        ][-12:]
        for ln in lines[last_file + 1:]:
            if ln and not ln.startswith(' '):
                head, _, rest = ln.partition(':')
                if head.replace('.', '').replace('_', '').isalnum():
                    inner_exc = head.strip().split('.')[-1]
                    inner_msg = rest.strip()[:300]
                break
    return {
        'worker_traceback': bool(tb_sites),
        'chain': ['%s: %s' % (type(c).__name__, str(c).strip().splitlines()[-1][:120] if str(c).strip() else '') for c in chain],
        'exc': inner_exc, 'outer_exc': type(e).__name__, 'msg': inner_msg,
        'site': site, 'frames': frames,
    }


def read_monitor(logdir: str | None) -> dict[str, Any] | None:
    """Summarise the in-situ pass monitor's JSONL events (if it was on)."""
    if not logdir or not os.path.isdir(logdir):
        return None
    ev: list[dict[str, Any]] = []
    for fn in sorted(os.listdir(logdir)):
        if not fn.endswith('.jsonl'):
            continue
        try:
            with open(os.path.join(logdir, fn)) as f:
                for ln in f:
                    ln = ln.strip()
                    if ln:
                        try:
                            ev.append(json.loads(ln))
                        except ValueError:
                            pass
        except OSError:
            pass
    if not ev:
        return None
    ev.sort(key=lambda e: e.get('t', 0))
    passes: dict[str, int] = {}
    numeric = 0
    changed_numeric = 0
    max_numeric = 0.0
    mon_errors = 0
    worst: dict[str, Any] | None = None
    first_bad: dict[str, Any] | None = None
    for e in ev:
        if e.get('ev') == 'mon_error':
            # the monitor failed to describe this pass execution: count it
            # as a possible numerical rewrite (keeps the budget sound)
            mon_errors += 1
            changed_numeric += 1
            continue
        if e.get('ev') != 'pass':
            continue
        passes[e['name']] = passes.get(e['name'], 0) + 1
        if e.get('cls') == 'numeric':
            numeric += 1
            if e.get('changed'):
                changed_numeric += 1
                tc = [x for x in (e.get('cost'), e.get('tcost')) if x is not None]
                if tc:
                    max_numeric = max(max_numeric, min(tc))
        if e.get('blocks'):
            # permutation-aware routing substitutes one pre-synthesised
            # circuit per block
            changed_numeric += int(e['blocks'])
        if e.get('mon_error'):
            mon_errors += 1
        c = e.get('cost')
        if c is not None:
            if worst is None or c > worst['cost']:
                worst = {'name': e['name'], 'cost': c, 'width': e.get('n'), 'cls': e.get('cls')}
            if first_bad is None and e.get('bad'):
                first_bad = {
                    'name': e['name'], 'cost': c, 'width': e.get('n'),
                    'cls': e.get('cls'), 'limit': e.get('limit'),
                }
    return {
        'events': len(ev), 'passes': passes, 'numeric_runs': numeric,
        'numeric_changed': changed_numeric, 'worst': worst,
        'first_bad': first_bad, 'max_numeric_cost': max_numeric,
        'mon_errors': mon_errors,
        'pids': len({e.get('pid') for e in ev}),
    }


def observe_result(
    item: dict[str, Any], model: dict[str, Any] | None, res: Any,
    bq_model: Any,
) -> dict[str, Any]:
    """Everything the oracles need about one (input, returned value) pair."""
    from vlib import refsim
    ob: dict[str, Any] = {}
    if not (isinstance(res, tuple) and len(res) == 3):
        ob['shape_error'] = 'expected (circuit, initial, final), got %s' % type(res).__name__
        return ob
    out, pi, pf = res
    try:
        pi = [int(x) for x in pi]
        pf = [int(x) for x in pf]
    except Exception as e:  # noqa
        ob['shape_error'] = 'mappings not integer sequences: %r' % (e,)
        return ob
    ob['pi'], ob['pf'] = pi, pf
    ob['out'] = describe_circuit(out)
    ob['out_width'] = int(out.num_qudits)
    ob['out_radixes'] = [int(r) for r in out.radixes]
    ob['n_ops_out'] = int(out.num_operations)
    ob['n_multi_out'] = sum(1 for op in out if len(op.location) > 1 and not is_placeholder(op.gate))
    ob['meas_out'] = measurement_view(out)
    ob['n_barrier_out'] = sum(1 for op in out if type(op.gate).__name__ == 'BarrierPlaceholder')
    # ---- C02 observations
    eff_model = model
    if eff_model is None:
        eff_model = {
            'n': len(item['radixes']), 'radix': item['radixes'][0],
            'edges': None,
            'gateset': 'cx_u3' if item['radixes'][0] == 2 else 'default3',
        }
    ob['compat_strict'] = indep_compat(out, eff_model, None, exact_width=True)
    ob['compat_loose'] = indep_compat(out, eff_model, None, exact_width=False)
    ob['compat_literal'] = indep_compat(
        out, eff_model, None, exact_width=False, exempt_placeholders=False,
    )
    try:
        mm = bq_model if bq_model is not None else build_model(eff_model)
        ob['is_compatible'] = bool(mm.is_compatible(out))
    except Exception as e:  # noqa
        ob['is_compatible'] = 'raised:' + type(e).__name__
    # ---- semantics
    if out.num_qudits > MAX_SIM_QUDITS:
        ob['sim'] = 'skipped'
        return ob
    U_out = refsim.unitary_of_items(circuit_items(out), list(out.radixes))
    lr = list(item['radixes'])
    pr = list(out.radixes)
    nl = len(lr)
    sane = (
        len(pi) == nl and len(pf) == nl
        and len(set(pi)) == nl and len(set(pf)) == nl
        and all(0 <= p < out.num_qudits for p in pi + pf)
        and all(pr[p] == lr[i] for i, p in enumerate(pi))
        and all(pr[p] == lr[i] for i, p in enumerate(pf))
    )
    ob['mapping_sane'] = bool(sane)
    if not sane:
        if out.num_qudits != nl:
            return ob
        # judge the distance under the identity maps; the malformed
        # mappings are reported separately
        ob['mapping_fallback_identity'] = True
        pi = list(range(nl))
        pf = list(range(nl))
    kind = item['kind']
    ident = list(range(nl))
    if kind == 'circuit':
        U_in = refsim.unitary_of_items(spec_items(item), lr)
        c, leak = refsim.mapped_cost(U_in, U_out, pi, pf, lr, pr)
        ob['cost'], ob['leak'] = c, leak
    elif kind == 'unitary':
        T = cplx(item['mat'])
        c, leak = refsim.mapped_cost(T, U_out, pi, pf, lr, pr)
        ob['cost'], ob['leak'] = c, leak
        if out.num_qudits == nl:
            ob['cost_unmapped'] = refsim.cost1(T, U_out)
    elif kind == 'state':
        psi = cplx(item['vec']).reshape(-1)
        zero = np.zeros(U_out.shape[0], dtype=np.complex128)
        zero[0] = 1.0
        got = U_out @ zero
        Ef = refsim.embedding(pf, lr, pr)
        ob['cost'] = float(max(0.0, 1.0 - abs(np.vdot(Ef @ psi, got))))
        if out.num_qudits == nl:
            ob['cost_unmapped'] = float(max(0.0, 1.0 - abs(np.vdot(psi, got))))
    elif kind == 'system':
        V = cplx(item['V'])
        W = cplx(item['W'])
        m_ = V.shape[1]
        Ei = refsim.embedding(pi, lr, pr)
        Ef = refsim.embedding(pf, lr, pr)
        G = (Ef @ W).conj().T @ (U_out @ (Ei @ V))
        tr = np.trace(G)
        ob['cost'] = float(max(0.0, 1.0 - abs(tr) / m_))
        ph = tr / abs(tr) if abs(tr) > 1e-14 else 1.0
        ob['pair_dev'] = [float(1.0 - (np.conj(ph) * G[i, i]).real) for i in range(m_)]
        ob['pair_abs'] = [float(1.0 - abs(G[i, i])) for i in range(m_)]
        if out.num_qudits == nl:
            G0 = W.conj().T @ (U_out @ V)
            ob['cost_unmapped'] = float(max(0.0, 1.0 - abs(np.trace(G0)) / m_))
    ob['identity_maps'] = bool(pi == ident and pf == ident)
    return ob


def cross_costs(items: list[dict[str, Any]], results: list[Any]) -> list[list[float | None]]:
    """For list inputs: cost of result i against input j (same kind and
    width only), to detect reordered results."""
    from vlib import refsim
    n = len(items)
    M: list[list[float | None]] = [[None] * n for _ in range(n)]
    Us = []
    for r in results:
        try:
            out = r[0]
            Us.append(refsim.unitary_of_items(circuit_items(out), list(out.radixes)))
        except Exception:  # noqa
            Us.append(None)
    for i in range(n):
        for j in range(n):
            U = Us[i]
            it = items[j]
            if U is None:
                continue
            d = refsim.dim_of(it['radixes'])
            if U.shape[0] != d:
                continue
            if it['kind'] == 'unitary':
                M[i][j] = refsim.cost1(cplx(it['mat']), U)
            elif it['kind'] == 'state':
                M[i][j] = float(max(0.0, 1.0 - abs(np.vdot(cplx(it['vec']).reshape(-1), U[:, 0]))))
            elif it['kind'] == 'system':
                V, W = cplx(it['V']), cplx(it['W'])
                M[i][j] = float(max(0.0, 1.0 - abs(np.trace(W.conj().T @ U @ V)) / V.shape[1]))
            elif it['kind'] == 'circuit':
                M[i][j] = refsim.cost1(refsim.unitary_of_items(spec_items(it), it['radixes']), U)
    return M


# ================================================================ child side
def run_case(case: dict[str, Any]) -> dict[str, Any]:
    """Executed in the per-case subprocess."""
    from vlib import compiledrv
    res: dict[str, Any] = {'status': 'harness_error'}
    t0 = time.monotonic()
    inp = case['input']
    cfg = case['config']
    check_gate_tables(vendor=False)
    bq_in = build_input(inp)
    bq_model = build_model(case['model'])
    logdir = os.environ.get('VERIF_LOGDIR')
    env = None
    if logdir and cfg.get('monitor', True) and os.path.exists(os.path.join(INJECT_DIR, 'sitecustomize.py')):
        pp = INJECT_DIR + os.pathsep + ROOT
        if os.environ.get('PYTHONPATH'):
            pp += os.pathsep + os.environ['PYTHONPATH']
        env = {
            'PYTHONPATH': pp, 'VERIF_INJECT': '1', 'VERIF_MON': 'pass',
            'VERIF_LOGDIR': logdir,
            'VERIF_MON_EPS': repr(float(cfg['eps'])),
        }
    comp = compiledrv.new_compiler(int(cfg.get('workers', 2)), env=env)
    res['t_start'] = round(time.monotonic() - t0, 3)
    import bqskit
    res['bqskit'] = os.path.dirname(os.path.abspath(bqskit.__file__))
    caught: list[str] = []
    try:
        t1 = time.monotonic()
        try:
            with warnings.catch_warnings(record=True) as wl:
                warnings.simplefilter('always')
                kw: dict[str, Any] = dict(
                    optimization_level=cfg['level'],
                    max_synthesis_size=cfg['mss'],
                    synthesis_epsilon=cfg['eps'],
                    seed=cfg.get('seed'),
                    with_mapping=cfg.get('with_mapping', True),
                    compiler=comp,
                )
                if cfg.get('error_threshold') is not None:
                    kw['error_threshold'] = cfg['error_threshold']
                if 'error_sim_size' in cfg:
                    kw['error_sim_size'] = cfg['error_sim_size']
                ret = bqskit.compile(bq_in, bq_model, **kw)
            for w in wl:
                s = str(w.message)
                if 'Upper bound on error' in s:
                    caught.append(s[:200])
            res['status'] = 'ok'
        except BaseException as e:  # noqa
            if isinstance(e, (KeyboardInterrupt, SystemExit)):
                raise
            res['status'] = 'raised'
            res.update(exc_info(e))
            res['in_runtime'] = res.get('outer_exc') == 'RuntimeError' and res.get('site', '').split(':')[0] not in ('compile.py',)
        res['t_compile'] = round(time.monotonic() - t1, 3)
    finally:
        try:
            comp.close()
        except BaseException:  # noqa
            pass
    res['error_bound_warnings'] = caught
    res['monitor'] = read_monitor(logdir)
    if res['status'] != 'ok':
        return res
    with_mapping = cfg.get('with_mapping', True)
    if inp['kind'] == 'list':
        items = inp['items']
        if not isinstance(ret, list):
            res['list_error'] = 'expected list, got %s' % type(ret).__name__
            return res
        res['list_len'] = len(ret)
        if not with_mapping:
            ret = [
                (r, list(range(len(it['radixes']))), list(range(len(it['radixes']))))
                for r, it in zip(ret, items)
            ]
        res['obs'] = [observe_result(it, case['model'], r, bq_model) for it, r in zip(items, ret)]
        res['cross'] = cross_costs(items, ret[:len(items)])
    else:
        if not with_mapping:
            n = len(inp['radixes'])
            ret = (ret, list(range(n)), list(range(n)))
        res['obs'] = [observe_result(inp, case['model'], ret, bq_model)]
    res['t_total'] = round(time.monotonic() - t0, 3)
    return res


def child_main() -> int:
    sys.path.insert(0, ROOT)
    case = json.load(sys.stdin)
    try:
        with warnings.catch_warnings():
            warnings.simplefilter('ignore')
            res = run_case(case)
    except BaseException as e:  # noqa
        res = {
            'status': 'harness_error', 'exc': type(e).__name__,
            'msg': str(e)[:500], 'tb': traceback.format_exc()[-2000:],
        }
    sys.stdout.write('\n@@RESULT@@' + json.dumps(res) + '\n')
    sys.stdout.flush()
    return 0


# =============================================================== parent side
def _kill_group(p: subprocess.Popen) -> None:  # type: ignore
    try:
        os.killpg(p.pid, signal.SIGKILL)
    except (ProcessLookupError, PermissionError):
        pass
    try:
        p.kill()
    except Exception:  # noqa
        pass


def exec_case(
    case: dict[str, Any], timeout: float, hashseed: int = 0, _retry: bool = True,
) -> dict[str, Any]:
    """Run one case in its own process group with a watchdog."""
    logdir = tempfile.mkdtemp(prefix='comp-log-', dir='/tmp')
    env = dict(os.environ)
    env['PYTHONHASHSEED'] = str(hashseed)
    env['VERIF_LOGDIR'] = logdir
    env['PYTHONPATH'] = ROOT + (os.pathsep + env['PYTHONPATH'] if env.get('PYTHONPATH') else '')
    for v in ('OMP_NUM_THREADS', 'OPENBLAS_NUM_THREADS', 'MKL_NUM_THREADS'):
        env.setdefault(v, '1')
    t0 = time.monotonic()
    p = subprocess.Popen(
        [PY, '-m', 'vlib.compilechk', '--case', '-'],
        stdin=subprocess.PIPE, stdout=subprocess.PIPE, stderr=subprocess.PIPE,
        cwd=ROOT, env=env, start_new_session=True, text=True,
    )
    try:
        try:
            out, err = p.communicate(json.dumps(case), timeout=timeout)
        except subprocess.TimeoutExpired:
            _kill_group(p)
            try:
                p.communicate(timeout=10)
            except Exception:  # noqa
                pass
            return {
                'status': 'timeout', 'wall': round(time.monotonic() - t0, 1),
                'monitor': read_monitor(logdir),
            }
        finally:
            _kill_group(p)  # stray server / workers of a crashed child
        res = None
        for ln in out.splitlines():
            if ln.startswith('@@RESULT@@'):
                try:
                    res = json.loads(ln[len('@@RESULT@@'):])
                except ValueError:
                    res = None
        if (
            res is not None and res.get('status') == 'raised' and _retry
            and res.get('outer_exc') == 'RuntimeError'
            and 'connection' in str(res.get('msg', '')).lower()
            and not res.get('worker_traceback')
            and str(res.get('site', '')).startswith('compiler.py')
        ):
            # the private server vanished without reporting a task error
            # (killed from outside, port trouble): infrastructure, not a
            # verdict. Try once more; a second loss is inconclusive.
            again = exec_case(case, timeout, hashseed, _retry=False)
            if again.get('status') == 'raised' and str(again.get('site', '')).startswith('compiler.py'):
                again = {'status': 'connection_lost', 'chain': again.get('chain'), 'msg': again.get('msg')}
            again['retried_after_connection_loss'] = True
            return again
        if res is None:
            res = {
                'status': 'harness_error', 'exc': 'no result line',
                'msg': 'rc=%s stderr=%s' % (p.returncode, (err or '')[-600:]),
            }
        res['wall'] = round(time.monotonic() - t0, 1)
        return res
    finally:
        shutil.rmtree(logdir, ignore_errors=True)


def default_concurrency() -> int:
    try:
        return max(1, int(os.environ.get('VERIF_COMP_CONC', '4')))
    except ValueError:
        return 4


def exec_cases(
    cases: list[dict[str, Any]], timeouts: list[float], hashseed: int = 0,
    conc: int | None = None, deadline: float | None = None,
) -> list[dict[str, Any]]:
    """Run cases `conc` at a time (most expensive first); results in input
    order. Cases not started before `deadline` (monotonic) are 'skipped'."""
    conc = conc or default_concurrency()
    # every optimization level is spread evenly over the schedule (expensive
    # levels first within a round), so that a budget cut-off leaves a mix of
    # what was planned
    groups: dict[int, list[int]] = {}
    for i, c in enumerate(cases):
        groups.setdefault(int(c['config']['level']), []).append(i)
    keyed = []
    for lvl, idxs in groups.items():
        idxs = sorted(idxs, key=lambda i: -cases[i].get('est', 0))
        for pos, i in enumerate(idxs):
            keyed.append(((pos + 0.5) / len(idxs), -lvl, i))
    order = [i for _, _, i in sorted(keyed)]
    out: list[Any] = [None] * len(cases)

    def work(i: int) -> None:
        if deadline is not None and time.monotonic() > deadline:
            out[i] = {'status': 'skipped'}
            return
        try:
            eff = timeouts[i]
            if deadline is not None:
                # a case started close to the budget's end may overrun it by
                # at most BUDGET_GRACE_S; cut that way it counts as skipped
                eff = min(eff, max(60.0, deadline - time.monotonic() + BUDGET_GRACE_S))
            r = exec_case(cases[i], eff, hashseed)
            if r.get('status') == 'timeout' and eff < timeouts[i]:
                r = {'status': 'skipped', 'budget_cut': True, 'wall': r.get('wall')}
            out[i] = r
        except BaseException as e:  # noqa
            out[i] = {'status': 'harness_error', 'exc': type(e).__name__, 'msg': str(e)[:300]}

    with ThreadPoolExecutor(max_workers=conc) as ex:
        list(ex.map(work, order))
    return out


# ==================================================================== budgets
STAGES = {1: 3, 2: 4, 3: 8, 4: 10}


def count_k(case: dict[str, Any], res: dict[str, Any], ob: dict[str, Any]) -> tuple[int, str]:
    """Number of accepted numerical rewrites for the budget rule. Taken from
    the in-situ monitor when it ran; otherwise a conservative bound: every
    numerical stage of the level's workflow may rewrite one block per
    multi-qudit gate present before or after."""
    mon = res.get('monitor')
    if mon and mon.get('numeric_runs') is not None and mon.get('events', 0) > 0:
        return int(mon['numeric_changed']), 'monitor'
    inp = case['input']
    lvl = case['config']['level']
    if inp['kind'] == 'circuit':
        m_in = sum(
            (1 if len(op[1]) == 2 else 8) for op in inp['ops']
            if len(op[1]) > 1 and op[0] not in ('barrier', 'measure')
        ) + sum(len(op[3]['ops']) for op in inp['ops'] if op[0] == 'block')
        m_out = int(ob.get('n_multi_out', 0))
        return STAGES[lvl] * (max(m_in, m_out) + 1), 'fallback'
    # direct synthesis: synthesis + retarget + scan removals
    return 2 + int(ob.get('n_ops_out', 0)), 'fallback'


def budget_for(case: dict[str, Any], res: dict[str, Any], ob: dict[str, Any]) -> dict[str, Any]:
    eps = float(case['config']['eps'])
    # the single-qudit retargeting search always runs at its default 1e-8
    eps_eff = max(eps, 1e-8)
    k, src = count_k(case, res, ob)
    inp = case['input']
    n_in = len(inp.get('ops', [])) if inp['kind'] == 'circuit' else 1
    floor = FLOOR_PER_OP * (n_in + int(ob.get('n_ops_out', 0)) + 1)
    return {
        'k': k, 'k_source': src, 'eps': eps, 'floor': floor,
        'budget': max(floor, (k + 1) ** 2 * eps_eff),
    }


# ==================================================================== oracles
def _wit(kind: str, case: dict[str, Any], **kw: Any) -> dict[str, Any]:
    w = {'kind': kind, 'case': case}
    w.update(kw)
    return w


def judge_exception(pid: str, case: dict[str, Any], res: dict[str, Any]) -> list[dict[str, Any]]:
    """compile() raised: violation iff the preconditions held."""
    pre = preconditions(case)
    if pre:
        return []
    return [_wit(
        'raised:%s@%s' % (res.get('exc'), res.get('site')), case,
        exc=res.get('exc'), msg=res.get('msg'), site=res.get('site'),
        frames=res.get('frames'), outer_exc=res.get('outer_exc'), chain=res.get('chain'),
        input_kind=case['input']['kind'], level=case['config']['level'],
        radix=case['input'].get('radixes', [2])[0] if case['input']['kind'] != 'list' else None,
        expected='compile() accepts every input meeting its documented preconditions',
    )]


def judge_c01(case: dict[str, Any], res: dict[str, Any]) -> list[dict[str, Any]]:
    out: list[dict[str, Any]] = []
    inp = case['input']
    ob = res['obs'][0]
    if 'shape_error' in ob:
        return [_wit('return_shape', case, observed=ob['shape_error'])]
    nl = len(inp['radixes'])
    if not ob.get('mapping_sane', False) and ob.get('sim') != 'skipped':
        out.append(_wit(
            'mapping:not_injective_logical_length', case,
            observed={'pi': ob['pi'], 'pf': ob['pf'], 'out_width': ob['out_width']},
            expected='two injective maps of %d logical qudits into the %d machine qudits' % (nl, ob['out_width']),
        ))
        return out
    if ob.get('cost') is not None:
        b = budget_for(case, res, ob)
        if ob['cost'] > b['budget']:
            mon = res.get('monitor') or {}
            out.append(_wit(
                'semantics:mapped_cost', case,
                observed={'cost1': ob['cost'], 'leak': ob['leak'], 'pi': ob['pi'], 'pf': ob['pf']},
                expected={'budget': b}, out=ob['out'],
                blame=mon.get('first_bad') or mon.get('worst'),
                magnitude='gross' if ob['cost'] > 1e-2 else 'small',
            ))
        elif ob['leak'] > 2.0 * math.sqrt(b['budget']):
            out.append(_wit(
                'semantics:leakage', case,
                observed={'cost1': ob['cost'], 'leak': ob['leak']},
                expected={'budget': b}, out=ob['out'],
            ))
    # measurements
    want = spec_measurements(inp)
    got = ob['meas_out']
    pf = ob['pf']
    if want['meas'] or got['meas']:
        exp = sorted([pf[q], r, b_] for q, r, b_ in want['meas']) if ob.get('mapping_sane') else None
        if exp is not None and got['meas'] != exp:
            gset = {tuple(x) for x in got['meas']}
            eset = {tuple(x) for x in exp}
            unperm = sorted([q, r, b_] for q, r, b_ in want['meas'])
            sub = 'lost' if not gset else (
                'not_relocated_by_final_mapping' if got['meas'] == unperm and unperm != exp
                else 'invented' if gset - eset and not (eset - gset)
                else 'wrong_qudit_or_bit'
            )
            out.append(_wit(
                'measure:' + sub, case,
                observed=got, expected={'meas': exp, 'pf': pf}, out=ob['out'],
            ))
        if want['meas'] and got['cregs'] != want['cregs']:
            out.append(_wit('measure:cregs_changed', case, observed=got['cregs'], expected=want['cregs']))
        if got['problems']:
            p0 = got['problems'][0]
            sub = 'not_last' if 'after the measurement' in p0 else 'placeholder_malformed'
            out.append(_wit('measure:' + sub, case, observed=got['problems'][:5], out=ob['out']))
    return out


def judge_c02_output(case: dict[str, Any], res: dict[str, Any]) -> list[dict[str, Any]]:
    out: list[dict[str, Any]] = []
    items = case['input']['items'] if case['input']['kind'] == 'list' else [case['input']]
    for it, ob in zip(items, res['obs']):
        if 'shape_error' in ob:
            out.append(_wit('return_shape', case, observed=ob['shape_error']))
            continue
        strict = ob['compat_strict']
        if strict:
            cats = sorted({w.split(':')[0] for w in strict})
            gates = sorted(w[5:] for w in strict if w.startswith('gate:'))
            out.append(_wit(
                'output:' + '+'.join(cats) + ':' + it['kind'], case,
                input_kind=it['kind'], gateset=(case['model'] or {}).get('gateset'),
                nonnative=gates, observed=strict, level=case['config']['level'],
                width_in=len(it['radixes']), width_model=(case['model'] or {}).get('n'),
                expected='model width/radixes, native gates only, coupled pairs only',
                out=ob['out'],
            ))
        # second sentence: is_compatible must agree with the independent check
        ic = ob['is_compatible']
        want = not ob['compat_loose']
        if ic != want:
            has_ph = ob['compat_literal'] != ob['compat_loose']
            out.append(_wit(
                'is_compatible:disagrees' + (':placeholder' if has_ph and ic is False else ''), case,
                input_kind=it['kind'], observed={'is_compatible': ic},
                expected={'independent': ob['compat_loose'] or 'compatible', 'literal_incl_placeholders': ob['compat_literal']},
                out=ob['out'],
            ))
    return out


def judge_c03(case: dict[str, Any], res: dict[str, Any]) -> list[dict[str, Any]]:
    out: list[dict[str, Any]] = []
    inp = case['input']
    items = inp['items'] if inp['kind'] == 'list' else [inp]
    if inp['kind'] == 'list':
        if 'list_error' in res:
            return [_wit('list:not_a_list', case, observed=res['list_error'])]
        if res.get('list_len') != len(items):
            return [_wit('list:length', case, observed=res.get('list_len'), expected=len(items))]
    budgets = []
    for i, (it, ob) in enumerate(zip(items, res['obs'])):
        if 'shape_error' in ob:
            out.append(_wit('return_shape', case, observed=ob['shape_error'], index=i))
            continue
        if not ob.get('mapping_sane', False) and inp['kind'] == 'list' and it['kind'] != 'circuit' \
                and len(ob.get('pi') or []) == 1:
            # C03's statement says nothing about the mappings returned with
            # with_mapping=True; list mode submits Circuit(1) for non-circuit
            # inputs and returns length-1 maps. Noted, not a C03 violation.
            case.setdefault('_notes', []).append('mapping:wrong_length_in_list_mode')
        elif not ob.get('mapping_sane', False):
            out.append(_wit(
                'mapping:wrong_length_in_list_mode' if inp['kind'] == 'list' and it['kind'] != 'circuit'
                and len(ob.get('pi') or []) == 1 else 'mapping:not_injective_logical_length',
                case, index=i, input_kind=it['kind'],
                observed={'pi': ob.get('pi'), 'pf': ob.get('pf'), 'out_width': ob.get('out_width')},
                expected='mappings of logical length %d' % len(it['radixes']),
            ))
            if ob.get('cost') is None:
                continue
        b = budget_for(case, res, ob)
        budgets.append(b['budget'])
        if ob['cost'] > b['budget']:
            sub = it['kind']
            if 'cost_unmapped' in ob and ob['cost_unmapped'] <= b['budget']:
                sub += ':only_unmapped_matches'
            out.append(_wit(
                'target_missed:' + sub, case, index=i,
                observed={k: ob.get(k) for k in ('cost', 'cost_unmapped', 'pi', 'pf', 'pair_dev')},
                expected={'budget': b}, out=ob['out'],
                magnitude='gross' if ob['cost'] > 1e-2 else 'small',
            ))
        elif it['kind'] == 'system':
            lim = max(math.sqrt(b['budget']), len(ob['pair_dev']) * b['budget'])
            if max(ob['pair_dev']) > lim:
                out.append(_wit(
                    'target_missed:system_pair_phase', case, index=i,
                    observed={'pair_dev': ob['pair_dev'], 'pair_abs': ob['pair_abs']},
                    expected={'limit': lim}, out=ob['out'],
                ))
    if inp['kind'] == 'list' and res.get('cross'):
        # a missed target whose result reaches another input of the list is
        # an ordering failure, not a synthesis failure
        M = res['cross']
        bmax = max(max(budgets) if budgets else 1e-6, 1e-4)
        for w in out:
            i = w.get('index')
            if w['kind'].startswith('target_missed') and i is not None:
                js = [j for j in range(len(items)) if j != i and M[i][j] is not None and M[i][j] <= bmax]
                if js:
                    w['kind'] = 'list:result_matches_other_input'
                    w['matches_input'] = js
    if inp['kind'] == 'list' and not any(w['kind'].startswith(('target_missed', 'list:')) for w in out) and res.get('cross'):
        M = res['cross']
        bmax = max(budgets) if budgets else 1e-6
        for i in range(len(items)):
            for j in range(len(items)):
                if i != j and M[i][j] is not None and M[i][j] <= max(bmax, 1e-4):
                    out.append(_wit(
                        'list:result_matches_other_input', case,
                        observed={'result': i, 'matches_input': j, 'cost': M[i][j]},
                    ))
    return out


# ================================================================= generators
def gen_circuit_spec(
    rng: np.random.Generator, n: int, depth: int, radix: int = 2,
    p3: float = 0.12, p2: float = 0.45, force3: bool = False,
    barriers: int = 0, measure: str = '', block: bool = False,
    swaps: bool = True, param_style: str = '',
) -> dict[str, Any]:
    """Random circuit spec: non-adjacent / reversed locations, optional
    3-qudit gates, barriers, measurements ('end', 'split', 'mid') and one
    pre-blocked CircuitGate."""
    from vlib import gen
    t = gate_table()
    if radix == 2:
        p1n, p2n, p3n = list(Q1_NAMES), list(Q2_NAMES), list(Q3_NAMES)
        if not swaps:
            p2n.remove('SWAP')
    else:
        p1n, p2n, p3n = list(T1_NAMES), list(T2_NAMES), []
    ops: list[list[Any]] = []
    # a qudit kept idle for a mid-circuit measurement
    idle = int(rng.integers(n)) if (measure == 'mid' and n >= 2 and radix == 2) else None
    live = [q for q in range(n) if q != idle]

    def rand_op(pool_n: int) -> list[Any]:
        if pool_n == 3:
            nm = p3n[rng.integers(len(p3n))]
        elif pool_n == 2:
            nm = p2n[rng.integers(len(p2n))]
        else:
            nm = p1n[rng.integers(len(p1n))]
        g = t[nm]
        loc = [int(live[i]) for i in rng.choice(len(live), size=g.num_qudits, replace=False)]
        if nm == 'VU3':
            u = gen.haar(rng, [3]).numpy
            params = list(np.real(u).flatten()) + list(np.imag(u).flatten())
            params = [float(x) for x in params]
        else:
            params = gen.rand_params(rng, g.num_params, param_style)
        return [nm, loc, params]

    want3 = force3 and len(live) >= 3 and p3n
    pos3 = int(rng.integers(depth)) if want3 else -1
    for d in range(depth):
        r = rng.random()
        if d == pos3 or (r < p3 and len(live) >= 3 and p3n):
            ops.append(rand_op(3))
        elif r < p3 + p2 and len(live) >= 2:
            ops.append(rand_op(2))
        else:
            ops.append(rand_op(1))
    if block and len(live) >= 2:
        k = int(rng.integers(2, min(3, len(live)) + 1))
        sub = gen_circuit_spec(rng, k, int(rng.integers(2, 5)), radix, p3=0.0, p2=0.6, swaps=swaps)
        loc = [int(live[i]) for i in rng.choice(len(live), size=k, replace=False)]
        ops.insert(int(rng.integers(len(ops) + 1)), ['block', loc, [], {'radixes': [radix] * k, 'ops': sub['ops']}])
    for _ in range(barriers):
        k = int(rng.integers(1, n + 1))
        loc = [int(x) for x in rng.choice(n, size=k, replace=False)]
        if idle is not None and idle in loc:
            continue
        ops.insert(int(rng.integers(len(ops) + 1)), ['barrier', loc, []])
    if measure and radix == 2:
        if idle is not None:
            # the idle qudit is measured in the middle of the program
            ops.insert(
                int(rng.integers(1, len(ops) + 1)),
                ['measure', [idle], [], {'cregs': [['m', 1]], 'meas': [[idle, ['m', 0]]]}],
            )
        nm = int(rng.integers(1, len(live) + 1))
        qs = sorted(int(live[i]) for i in rng.choice(len(live), size=nm, replace=False))
        bits = [int(b) for b in rng.permutation(n)[:nm]]
        if measure == 'split' and nm >= 2:
            h = nm // 2
            parts = [(qs[:h], bits[:h], 'c'), (qs[h:], bits[h:], 'd')]
        else:
            parts = [(qs, bits, 'c')]
        for pq, pb, reg in parts:
            ops.append([
                'measure', list(pq), [],
                {'cregs': [[reg, n]], 'meas': [[q, [reg, b]] for q, b in zip(pq, pb)]},
            ])
    return {'kind': 'circuit', 'radixes': [radix] * n, 'ops': ops}


def gen_model_spec(
    rng: np.random.Generator, n: int, graph: str = '', gateset: str = '',
    radix: int = 2,
) -> dict[str, Any]:
    from vlib import gen
    graph = graph or str(rng.choice(gen.GRAPH_KINDS))
    if radix == 3:
        gateset = 'default3'
    gateset = gateset or str(rng.choice(QUBIT_GATESETS))
    edges = gen.graph_edges(graph, n, rng)
    if not gen.is_connected(n, edges):
        edges, graph = gen.graph_edges('line', n, rng), 'line'
    edges = sorted({(min(a, b), max(a, b)) for a, b in edges})
    full = len(edges) == n * (n - 1) // 2
    return {
        'n': n, 'radix': radix, 'graph': graph,
        'edges': None if (graph == 'all' or n == 1) else [list(e) for e in edges],
        'all_to_all': bool(full), 'gateset': gateset,
    }


def _haar(rng: np.random.Generator, d: int) -> np.ndarray:
    z = (rng.normal(size=(d, d)) + 1j * rng.normal(size=(d, d))) / np.sqrt(2)
    q, r = np.linalg.qr(z)
    return q * (np.diag(r) / np.abs(np.diag(r)))


UNITARY_LABELS = ['haar', 'identity', 'diagonal', 'permutation', 'clifford', 'near_identity']


def gen_unitary_spec(rng: np.random.Generator, label: str, radixes: Sequence[int]) -> dict[str, Any]:
    from vlib import refsim
    d = refsim.dim_of(radixes)
    n = len(radixes)
    if label == 'haar':
        U = _haar(rng, d)
    elif label == 'identity':
        U = np.eye(d, dtype=complex)
    elif label == 'diagonal':
        U = np.diag(np.exp(1j * rng.uniform(-np.pi, np.pi, d)))
    elif label == 'permutation':
        p = rng.permutation(d)
        if d > 1 and list(p) == list(range(d)):
            p = np.roll(p, 1)
        U = np.eye(d)[p].astype(complex)
    elif label == 'clifford':
        t = gate_table()
        if all(r == 2 for r in radixes):
            names1, names2 = ['H', 'S', 'X', 'Z'], ['CX', 'CZ']
        else:
            names1, names2 = ['H3', 'X3', 'Z3'], ['CSUM3']
        items = []
        for _ in range(4 * n + 2):
            if n >= 2 and rng.random() < 0.4:
                g = t[names2[rng.integers(len(names2))]]
                loc = tuple(int(x) for x in rng.choice(n, size=2, replace=False))
            else:
                g = t[names1[rng.integers(len(names1))]]
                loc = (int(rng.integers(n)),)
            items.append((np.asarray(g.get_unitary()), loc))
        U = refsim.unitary_of_items(items, list(radixes))
    elif label == 'near_identity':
        h = rng.normal(size=(d, d)) + 1j * rng.normal(size=(d, d))
        h = (h + h.conj().T) / 2
        w, v = np.linalg.eigh(h)
        U = (v * np.exp(1j * 1e-2 * w)) @ v.conj().T
    else:
        raise ValueError(label)
    return {'kind': 'unitary', 'label': label, 'radixes': [int(r) for r in radixes], 'mat': uncplx(U)}


STATE_LABELS = ['random', 'basis', 'ghz', 'w', 'product']


def gen_state_spec(rng: np.random.Generator, label: str, radixes: Sequence[int]) -> dict[str, Any]:
    from vlib import refsim
    d = refsim.dim_of(radixes)
    n = len(radixes)
    r0 = radixes[0]
    v = np.zeros(d, dtype=complex)
    if label == 'random':
        v = rng.normal(size=d) + 1j * rng.normal(size=d)
    elif label == 'basis':
        v[int(rng.integers(d))] = 1.0
    elif label == 'ghz':
        for x in range(r0):
            idx = 0
            for r in radixes:
                idx = idx * r + x
            v[idx] = 1.0
    elif label == 'w':
        for q in range(n):
            idx = 0
            for i, r in enumerate(radixes):
                idx = idx * r + (1 if i == q else 0)
            v[idx] = 1.0
    elif label == 'product':
        v = np.ones(1, dtype=complex)
        for r in radixes:
            a = rng.normal(size=r) + 1j * rng.normal(size=r)
            v = np.kron(v, a / np.linalg.norm(a))
    else:
        raise ValueError(label)
    v = v / np.linalg.norm(v)
    return {'kind': 'state', 'label': label, 'radixes': [int(r) for r in radixes], 'vec': uncplx(v)}


def gen_system_spec(
    rng: np.random.Generator, m: int, radixes: Sequence[int], orthogonal: bool = True,
) -> dict[str, Any]:
    """m (input, output) pairs with equal overlap matrices."""
    from vlib import refsim
    d = refsim.dim_of(radixes)
    m = max(1, min(m, d))
    A = _haar(rng, d)[:, :m]
    B = _haar(rng, d)[:, :m]
    if not orthogonal and m >= 2:
        M = np.eye(m) + 0.4 * (rng.normal(size=(m, m)) + 1j * rng.normal(size=(m, m)))
        M = M / np.linalg.norm(M, axis=0, keepdims=True)
        A, B = A @ M, B @ M
    return {
        'kind': 'system', 'label': 'sys%d%s' % (m, '' if orthogonal else 'n'),
        'radixes': [int(r) for r in radixes], 'V': uncplx(A), 'W': uncplx(B),
    }


def case_sig(case: dict[str, Any]) -> str:
    from vlib import core
    return core.sig_of({'i': case['input'], 'm': case['model'], 'c': {
        k: v for k, v in case['config'].items() if k in ('level', 'mss', 'eps', 'error_threshold')
    }})


def short_case(case: dict[str, Any]) -> dict[str, Any]:
    """Compact description of a case for evidence samples."""
    inp = case['input']
    d: dict[str, Any] = {'model': case['model'], 'config': case['config'], 'input_kind': inp['kind']}
    if inp['kind'] == 'circuit':
        d['input'] = {
            'radixes': inp['radixes'],
            'ops': [[o[0], o[1], [round(float(p), 4) for p in o[2]][:4]] for o in inp['ops']][:30],
        }
    elif inp['kind'] == 'list':
        d['input'] = [[it['kind'], it.get('label'), it['radixes']] for it in inp['items']]
    else:
        d['input'] = {'label': inp.get('label'), 'radixes': inp['radixes']}
    return d


# ===================================================================== driver
def drive(
    run: Any, cases: list[dict[str, Any]], timeouts: list[float],
    judge: Any, on_ok: Any = None, conc: int | None = None,
) -> list[dict[str, Any]]:
    """Execute the cases, classify every outcome into the Run. `judge(case,
    res)` returns the witnesses of an 'ok' compilation; `on_ok(case, res)`
    lets the property record its own counters. Returns the raw results."""
    check_gate_tables()
    only = os.environ.get('VERIF_CASES')
    if only:  # development aid: run a subset of the planned cases
        keep = {int(x) for x in only.split(',') if x.strip()}
        sel = [i for i in range(len(cases)) if i in keep]
        cases = [cases[i] for i in sel]
        timeouts = [timeouts[i] for i in sel]
        run.extra['subset_of_cases'] = sorted(keep)
    results = exec_cases(
        cases, timeouts, hashseed=run.seed % 4, conc=conc,
        deadline=run.deadline,
    )
    timeouts_seen = []
    # raw per-case outcomes for post-mortems (out/ is git-ignored)
    try:
        logdir = os.path.join(ROOT, 'out', 'logs')
        os.makedirs(logdir, exist_ok=True)
        with open(os.path.join(logdir, '%s-%s-seed%d.jsonl' % (run.pid, run.tier, run.seed)), 'w') as f:
            for idx, (case, res) in enumerate(zip(cases, results)):
                slim = {k: v for k, v in res.items() if k not in ('obs',)}
                slim['obs'] = [
                    {k: v for k, v in ob.items() if k not in ('out',)} for ob in res.get('obs', [])
                ]
                f.write(json.dumps({'index': idx, 'case': short_case(case), 'res': slim}) + '\n')
    except OSError:
        pass
    for idx, (case, res) in enumerate(zip(cases, results)):
        st = res.get('status')
        tag = 'L%d' % case['config']['level']
        if st == 'skipped':
            run.count('case_skipped_for_budget')
            continue
        if st == 'timeout':
            run.count('case_timeout')
            timeouts_seen.append({'index': idx, 'timeout_s': timeouts[idx], 'case': short_case(case)})
            continue
        if st == 'connection_lost':
            run.count('case_connection_lost')
            timeouts_seen.append({'index': idx, 'connection_lost': res.get('chain'), 'case': short_case(case)})
            continue
        if res.get('retried_after_connection_loss'):
            run.count('case_retried_after_connection_loss')
        if st == 'harness_error':
            run.count('case_harness_error')
            run.inconclusive_because(
                'harness error in case %d: %s %s' % (idx, res.get('exc'), str(res.get('msg'))[:160]),
            )
            continue
        pre = preconditions(case)
        nontrivial = bool(case.get('nontrivial', True))
        run.case(case_sig(case), nontrivial=nontrivial and not pre, sample=short_case(case) if idx % 3 == 0 else None)
        run.count('compile_calls')
        run.count('compile_' + tag)
        run.count('input_' + case['input']['kind'])
        mon = res.get('monitor')
        if mon:
            run.count('insitu_cases')
            run.count('insitu_pass_runs', int(sum(mon['passes'].values())))
            run.count('insitu_numeric_changed', int(mon['numeric_changed']))
            seen = run.extra.setdefault('insitu_passes_seen', {})
            for k, v in mon['passes'].items():
                seen[k] = seen.get(k, 0) + v
        if st == 'raised':
            if pre:
                run.count('rejected_input')
                if res.get('exc') != 'ValueError':
                    run.count('rejected_input_non_valueerror')
                continue
            run.count('compile_raised_on_accepted_input')
            for w in judge_exception(run.pid, case, res):
                run.violation(w)
            continue
        if pre:
            run.count('accepted_despite_precondition')
        run.count('compile_returned')
        if on_ok is not None:
            on_ok(case, res)
        for w in judge(case, res):
            run.violation(w)
    if timeouts_seen:
        run.extra['inconclusive_cases'] = timeouts_seen[:20]
        lim = max(1, len(cases) // 10)
        if len(timeouts_seen) > lim:
            run.inconclusive_because(
                '%d of %d cases hit their watchdog (limit %d)' % (len(timeouts_seen), len(cases), lim),
            )
    run.extra['case_wall_s'] = {
        'max': max([r.get('wall', 0) for r in results] + [0]),
        'sum': round(sum(r.get('wall', 0) for r in results), 1),
        'by_level': {
            'L%d' % l: round(float(np.mean([r.get('wall', 0) for c, r in zip(cases, results) if c['config']['level'] == l and r.get('wall')] or [0])), 1)
            for l in (1, 2, 3, 4)
        },
    }
    return results


def replay_case(run: Any, path: str, judge: Any, timeout: float = 1800.0) -> int:
    """--replay FILE: re-execute the recorded case and judge it again."""
    with open(path) as f:
        w = json.load(f)['witness']
    case = w.get('case')
    if not case:
        print('replay file has no case')
        return 2
    res = exec_case(case, timeout, run.seed % 4)
    run.case(case_sig(case))
    run.case('replay')
    print('replayed: status=%s wall=%s' % (res.get('status'), res.get('wall')))
    if res['status'] == 'raised':
        ws = judge_exception(run.pid, case, res)
    elif res['status'] == 'ok':
        ws = judge(case, res)
    else:
        run.inconclusive_because('replay did not complete: %s %s' % (res['status'], res.get('msg', '')))
        ws = []
    for x in ws:
        print('  witness kind=%s (recorded kind=%s)' % (x['kind'], w.get('kind')))
        run.violation(x)
    return run.finish(rule='replay of one recorded case', min_distinct=1)


if __name__ == '__main__':
    sys.exit(child_main())
