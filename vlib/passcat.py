"""C10 pass catalogue: per rewriting pass a domain generator, the constructor
option variants, the contract class and the advertised postconditions.

An `Entry` has
  * `domain(rng, tier) -> (Circuit, opts)`  -- opts is JSON-able and, with the
    circuit, fully determines the case (replay = unpickle circuit + opts);
  * `plan(circuit, opts) -> Plan`           -- the workflow to run through a
    real Compiler plus the contract (exact / numerical with the pass's own
    threshold) and the postcondition checkers.

Every name exported by `bqskit.passes.__all__` must be covered by an entry
(`Entry.covers`) or listed in `NOT_REWRITING` with a reason; `uncovered()`
returns what is in neither (the check turns that into INCONCLUSIVE).
"""
from __future__ import annotations

import base64
import pickle
import re
import signal
import time
from collections import Counter
from typing import Any
from typing import Callable
from typing import Iterator
from typing import Sequence

import numpy as np

from bqskit.compiler.machine import MachineModel
from bqskit.ir.circuit import Circuit
from bqskit.ir.gates import CCXGate
from bqskit.ir.gates import CHGate
from bqskit.ir.gates import CircuitGate
from bqskit.ir.gates import CNOTGate
from bqskit.ir.gates import ConstantUnitaryGate
from bqskit.ir.gates import CPGate
from bqskit.ir.gates import CRZGate
from bqskit.ir.gates import CSUMGate
from bqskit.ir.gates import CYGate
from bqskit.ir.gates import CZGate
from bqskit.ir.gates import GeneralGate
from bqskit.ir.gates import HGate
from bqskit.ir.gates import ISwapGate
from bqskit.ir.gates import MPRYGate
from bqskit.ir.gates import MPRZGate
from bqskit.ir.gates import PauliGate
from bqskit.ir.gates import PauliZGate
from bqskit.ir.gates import RXGate
from bqskit.ir.gates import RXXGate
from bqskit.ir.gates import RYGate
from bqskit.ir.gates import RZGate
from bqskit.ir.gates import RZZGate
from bqskit.ir.gates import SdgGate
from bqskit.ir.gates import SGate
from bqskit.ir.gates import SqrtISwapGate
from bqskit.ir.gates import SqrtXGate
from bqskit.ir.gates import SwapGate
from bqskit.ir.gates import SXGate
from bqskit.ir.gates import TGate
from bqskit.ir.gates import U1Gate
from bqskit.ir.gates import U2Gate
from bqskit.ir.gates import U3Gate
from bqskit.ir.gates import U8Gate
from bqskit.ir.gates import VariableUnitaryGate
from bqskit.ir.gates import XGate
from bqskit.ir.gates import YGate
from bqskit.ir.gates import ZGate
from bqskit.ir.operation import Operation
from vlib import gen
from vlib import refsim

# Whether "operations rejected by collection_filter are not removed" is
# treated as an advertised postcondition of the gate-removal passes (their
# docstrings promise it). Flip to False to make it an advisory counter only.
FILTER_IS_POSTCONDITION = False

# ------------------------------------------------------------- gate registry
GATES: dict[str, Any] = {
    'CNOT': CNOTGate(), 'CZ': CZGate(), 'CY': CYGate(), 'CH': CHGate(),
    'SWAP': SwapGate(), 'ISWAP': ISwapGate(), 'SQISW': SqrtISwapGate(),
    'CP': CPGate(), 'CRZ': CRZGate(), 'RZZ': RZZGate(), 'RXX': RXXGate(),
    'U3': U3Gate(), 'U2': U2Gate(), 'U1': U1Gate(), 'RX': RXGate(),
    'RY': RYGate(), 'RZ': RZGate(), 'SX': SXGate(), 'H': HGate(),
    'X': XGate(), 'Y': YGate(), 'Z': ZGate(), 'S': SGate(), 'T': TGate(),
    'SDG': SdgGate(), 'VU1': VariableUnitaryGate(1),
    'VU2': VariableUnitaryGate(2), 'VU1_3': VariableUnitaryGate(1, [3]),
    'U8': U8Gate(), 'CSUM': CSUMGate(), 'PAULI1': PauliGate(1),
    'PAULI2': PauliGate(2), 'PAULIZ1': PauliZGate(1), 'CCX': CCXGate(),
}


def gates_of(names: Sequence[str]) -> list[Any]:
    return [GATES[n] for n in names]


def make_model(n: int, gates: Sequence[str], edges: str = 'all',
               radix: int = 2) -> MachineModel:
    rng = np.random.default_rng(0)
    e = gen.graph_edges(edges, n, rng) if n > 1 else None
    return MachineModel(n, e, set(gates_of(gates)), [radix] * n)


# ----------------------------------------------------------- circuit helpers
def leaf_ops(circuit: Circuit) -> list[tuple[Any, tuple[int, ...], tuple[float, ...]]]:
    """Program-order list of (gate, location, params) with every CircuitGate
    recursively replaced by its body (own unfolding, not Circuit.unfold)."""
    out: list[tuple[Any, tuple[int, ...], tuple[float, ...]]] = []

    def rec(c: Circuit, lmap: Sequence[int]) -> None:
        for op in c:
            loc = tuple(lmap[q] for q in op.location)
            if isinstance(op.gate, CircuitGate):
                sub = op.gate._circuit.copy()
                sub.set_params(op.params)
                rec(sub, loc)
            else:
                out.append((op.gate, loc, tuple(float(p) for p in op.params)))
    rec(circuit, list(range(circuit.num_qudits)))
    return out


def top_ops(circuit: Circuit) -> list[tuple[Any, tuple[int, ...], tuple[float, ...]]]:
    return [
        (op.gate, tuple(op.location), tuple(float(p) for p in op.params))
        for op in circuit
    ]


def op_key(g: Any, loc: Sequence[int], params: Sequence[float]) -> tuple:
    return (repr(g), tuple(loc), tuple(round(float(p), 10) + 0.0 for p in params))


def qudit_sequences(
    ops: Sequence[tuple[Any, Sequence[int], Sequence[float]]], n: int,
    keep: Callable[[Any, Sequence[int]], bool] | None = None,
) -> list[list[tuple]]:
    """Per-qudit ordered operation keys (what program order means)."""
    seqs: list[list[tuple]] = [[] for _ in range(n)]
    for g, loc, params in ops:
        if keep is not None and not keep(g, loc):
            continue
        k = op_key(g, loc, params)
        for q in loc:
            seqs[q].append(k)
    return seqs


def gate_counter(ops: Sequence[tuple[Any, Any, Any]]) -> Counter:
    return Counter(g for g, _, _ in ops)


def circuit_sig(circuit: Circuit) -> str:
    from vlib import core
    return core.sig_of([
        [repr(g), list(loc), [round(p, 9) for p in params]]
        for g, loc, params in top_ops(circuit)
    ] + [list(circuit.radixes)])


def layout_sig(circuit: Circuit) -> list:
    return [
        [cyc, repr(op.gate), list(op.location), [round(float(p), 10) for p in op.params]]
        for cyc, op in circuit.operations_with_cycles()
    ]


def pickle_b64(obj: Any) -> str:
    return base64.b64encode(pickle.dumps(obj)).decode()


def unpickle_b64(s: str) -> Any:
    return pickle.loads(base64.b64decode(s.encode()))


def vu_params(u: Any) -> list[float]:
    m = np.asarray(u)
    return list(np.real(m).flatten()) + list(np.imag(m).flatten())


def random_loc(rng: np.random.Generator, n: int, k: int) -> tuple[int, ...]:
    return gen.rand_location(rng, n, k)


POOL1 = ['H', 'X', 'Y', 'Z', 'T', 'S', 'SX', 'U3', 'RZ', 'RX', 'RY', 'U1', 'U2']
POOL2 = ['CNOT', 'CZ', 'CP', 'RZZ', 'ISWAP', 'SQISW', 'SWAP', 'CH', 'RXX', 'CY']


def circuit_with(
    rng: np.random.Generator, n: int, depth: int, sources: Sequence[str],
    p_src: float = 0.35, pool1: Sequence[str] = POOL1,
    pool2: Sequence[str] = POOL2, p2: float = 0.3, p3: float = 0.05,
    blocks: bool = False, exclude_in_blocks: Sequence[str] = (),
) -> Circuit:
    """Random qubit circuit with the `sources` gates at random positions and
    orientations among other gates; optionally a few CircuitGate blocks."""
    c = Circuit(n)
    for _ in range(depth):
        r = rng.random()
        srcs = [GATES[s] for s in sources if GATES[s].num_qudits <= n]
        if srcs and r < p_src:
            g = srcs[int(rng.integers(len(srcs)))]
        else:
            r2 = rng.random()
            if blocks and r2 < 0.12 and n >= 1:
                k = int(rng.integers(1, min(n, 3) + 1))
                p2n = [x for x in pool2 if x not in exclude_in_blocks]
                sub = circuit_with(
                    rng, k, int(rng.integers(1, 4)), [], 0.0, pool1, p2n, p2, 0.0,
                )
                c.append_gate(CircuitGate(sub), random_loc(rng, n, k), sub.params)
                continue
            if r2 < p3 and n >= 3:
                g = GATES['CCX']
            elif r2 < p3 + p2 and n >= 2:
                g = GATES[pool2[int(rng.integers(len(pool2)))]]
            else:
                g = GATES[pool1[int(rng.integers(len(pool1)))]]
        c.append_gate(g, random_loc(rng, n, g.num_qudits), gen.rand_params(rng, g.num_params))
    return c


def special_unitary(rng: np.random.Generator, n: int, p_haar: float = 0.0) -> np.ndarray:
    """n-qubit unitaries: generic, and structured ones (identity, products,
    permutations, diagonal, controlled, shallow circuits)."""
    kind = 'haar' if rng.random() < p_haar else str(rng.choice([
        'haar', 'haar', 'haar', 'shallow', 'shallow', 'product', 'diag',
        'perm', 'identity', 'controlled', 'real',
    ]))
    d = 2 ** n
    if kind == 'haar':
        return np.asarray(gen.haar(rng, [2] * n))
    if kind == 'shallow':
        c = gen.qubit_circuit(rng, n, int(rng.integers(1, 3 * n + 1)))
        return refsim.unitary(c)
    if kind == 'product':
        u = np.array([[1.0 + 0j]])
        for _ in range(n):
            u = np.kron(u, np.asarray(gen.haar(rng, [2])))
        return u
    if kind == 'diag':
        ph = np.array(gen.rand_params(rng, d))
        return np.diag(np.exp(1j * ph))
    if kind == 'perm':
        p = rng.permutation(d)
        return np.eye(d, dtype=complex)[p]
    if kind == 'identity':
        return np.eye(d, dtype=complex) * np.exp(1j * float(rng.choice([0.0, 0.3, np.pi])))
    if kind == 'controlled':
        u = np.eye(d, dtype=complex)
        u[d // 2:, d // 2:] = np.asarray(gen.haar(rng, [2] * (n - 1))) if n > 1 else -1
        return u
    # real orthogonal
    q, _ = np.linalg.qr(rng.normal(size=(d, d)))
    return q.astype(complex)


# --------------------------------------------------------------------- plan
class Plan:
    def __init__(
        self, workflow: list[Any], contract: str, posts: Sequence[Callable[[Any], Iterator[tuple[str, dict]]]] = (),
        thr: float = 0.0, k: Any = 1, extra_budget: float = 0.0,
        data: dict[str, Any] | None = None, mode: str = 'plain',
        in_domain: bool = True, target: np.ndarray | None = None,
        documented_raise: Sequence[str] = (),
    ) -> None:
        self.workflow = workflow
        self.contract = contract          # 'exact' | 'numerical'
        self.posts = list(posts)
        self.thr = thr
        self.k = k                        # int or f(ctx) -> int
        self.extra_budget = extra_budget
        self.data = data
        self.mode = mode                  # 'plain' | 'mapped'
        self.in_domain = in_domain        # False: documented precondition violated
        self.target = target
        self.documented_raise = tuple(documented_raise)


class Ctx:
    def __init__(self, before: Circuit, after: Circuit, data: Any, opts: dict) -> None:
        self.before = before
        self.after = after
        self.data = data
        self.opts = opts
        self.b_leaf = leaf_ops(before)
        self.a_leaf = leaf_ops(after)
        self.b_top = top_ops(before)
        self.a_top = top_ops(after)


class Entry:
    def __init__(
        self, name: str, covers: Sequence[str], domain: Callable, plan: Callable,
        quick: int, thorough: int, weight: float = 1.0, timeout: int = 180,
    ) -> None:
        self.name = name
        self.covers = list(covers)
        self.domain = domain
        self.plan = plan
        self.quick = quick
        self.thorough = thorough
        self.weight = weight              # rough seconds per case (for balancing)
        self.timeout = timeout


CATALOGUE: dict[str, Entry] = {}


def register(e: Entry) -> None:
    assert e.name not in CATALOGUE
    CATALOGUE[e.name] = e


# --------------------------------------------------- generic postconditions
def post_absent(names: Sequence[str]) -> Callable:
    def f(ctx: Ctx) -> Iterator[tuple[str, dict]]:
        left = [repr(g) for g in gate_counter(ctx.a_leaf) if g in gates_of(names)]
        if left:
            yield 'source_gate_left', {'left': left}
    return f


def post_introduced_subset(allowed: Callable[[Ctx], Sequence[Any]] | Sequence[str]) -> Callable:
    def f(ctx: Ctx) -> Iterator[tuple[str, dict]]:
        al = list(allowed(ctx)) if callable(allowed) else gates_of(allowed)
        intro = [g for g in gate_counter(ctx.a_leaf) if g not in gate_counter(ctx.b_leaf)]
        bad = [repr(g) for g in intro if g not in al]
        if bad:
            yield 'introduced_outside_target_set', {'introduced': bad, 'allowed': [repr(g) for g in al]}
    return f


def post_no_count_increase(ctx: Ctx) -> Iterator[tuple[str, dict]]:
    b, a = gate_counter(ctx.b_top), gate_counter(ctx.a_top)
    inc = {repr(g): [b.get(g, 0), a[g]] for g in a if a[g] > b.get(g, 0)}
    if inc or len(ctx.a_top) > len(ctx.b_top):
        yield 'gate_count_increased', {'increased': inc, 'ops': [len(ctx.b_top), len(ctx.a_top)]}


def post_radixes_same(ctx: Ctx) -> Iterator[tuple[str, dict]]:
    if tuple(ctx.before.radixes) != tuple(ctx.after.radixes):
        yield 'radixes_changed', {'before': list(ctx.before.radixes), 'after': list(ctx.after.radixes)}


# ------------------------------------------------------------ filters (must
# live in an importable module: they are shipped to the runtime workers)
def filter_two_qudit(op: Operation) -> bool:
    return op.num_qudits == 2


def filter_one_qudit(op: Operation) -> bool:
    return op.num_qudits == 1


def filter_u3(op: Operation) -> bool:
    return isinstance(op.gate, U3Gate)


def filter_cnot(op: Operation) -> bool:
    return isinstance(op.gate, CNOTGate)


def filter_ccx(op: Operation) -> bool:
    return isinstance(op.gate, CCXGate)


def filter_none(op: Operation) -> bool:
    return False


FILTERS: dict[str, Any] = {
    'all': None, 'two': filter_two_qudit, 'one': filter_one_qudit,
    'u3': filter_u3, 'cnot': filter_cnot, 'ccx': filter_ccx,
    'none': filter_none,
}


def score_neg_ops(circuit: Circuit) -> float:
    return -float(circuit.num_operations)


# ------------------------------------------------------------- rule passes
def _rule_entry(
    cls_name: str, module: str, source: str, target: Sequence[str],
    quick: int = 40, thorough: int = 1500,
) -> None:
    def domain(rng: np.random.Generator, tier: str) -> tuple[Circuit, dict]:
        n = int(rng.choice([1, 2, 2, 3, 3, 4, 5]))
        depth = int(rng.integers(1, 14))
        blocks = bool(rng.random() < 0.25)
        c = circuit_with(
            rng, n, depth, [source], p_src=float(rng.choice([0.0, 0.3, 0.5, 0.9])),
            blocks=blocks, exclude_in_blocks=[source],
        )
        return c, {}

    def plan(circuit: Circuit, opts: dict) -> Plan:
        import importlib
        cls = getattr(importlib.import_module(module), cls_name)
        return Plan(
            [cls()], 'exact',
            [post_absent([source]), post_introduced_subset(target), post_radixes_same],
        )
    register(Entry(cls_name, [cls_name], domain, plan, quick, thorough, 0.15))


_rule_entry('CHToCNOTPass', 'bqskit.passes.rules.ch2cnot', 'CH', ['CNOT', 'RY'])
_rule_entry('CNOTToCHPass', 'bqskit.passes.rules.cnot2ch', 'CNOT', ['CH', 'RY'])
_rule_entry('CNOTToCYPass', 'bqskit.passes.rules.cnot2cy', 'CNOT', ['CY', 'S', 'SDG'])
_rule_entry('CNOTToCZPass', 'bqskit.passes.rules.cnot2cz', 'CNOT', ['CZ', 'H'])
_rule_entry('CYToCNOTPass', 'bqskit.passes.rules.cy2cnot', 'CY', ['CNOT', 'S', 'SDG'])
_rule_entry('CZToCNOTPass', 'bqskit.passes.rules.cz2cnot', 'CZ', ['CNOT', 'H'])
_rule_entry('SwapToCNOTPass', 'bqskit.passes.rules.swap2cnot', 'SWAP', ['CNOT'])


def _sq_circuit(rng: np.random.Generator, radix: int = 2) -> Circuit:
    c = Circuit(1, [radix])
    depth = int(rng.integers(1, 7))
    for _ in range(depth):
        if radix == 2:
            r = rng.random()
            if r < 0.15:
                c.append_gate(gen.random_unitary_gate(rng, [2]), 0)
            elif r < 0.25:
                c.append_gate(VariableUnitaryGate(1), 0, vu_params(gen.haar(rng, [2])))
            else:
                g = GATES[POOL1[int(rng.integers(len(POOL1)))]]
                c.append_gate(g, 0, gen.rand_params(rng, g.num_params))
        else:
            if rng.random() < 0.5:
                c.append_gate(gen.random_unitary_gate(rng, [radix]), 0)
            else:
                c.append_gate(VariableUnitaryGate(1, [radix]), 0, vu_params(gen.haar(rng, [radix])))
    return c


def _post_single_op(gate_names: Sequence[str]) -> Callable:
    def f(ctx: Ctx) -> Iterator[tuple[str, dict]]:
        if len(ctx.a_top) != 1 or ctx.a_top[0][0] not in gates_of(gate_names):
            yield 'not_single_target_gate', {'after': [repr(g) for g, _, _ in ctx.a_top], 'want': list(gate_names)}
    return f


def _u3_domain(rng: np.random.Generator, tier: str) -> tuple[Circuit, dict]:
    r = rng.random()
    if r < 0.06:
        return _sq_circuit(rng, 3), {'bad': 'qutrit'}
    if r < 0.12:
        return circuit_with(rng, 2, 3, []), {'bad': 'two_qudits'}
    return _sq_circuit(rng), {}


def _u3_plan(circuit: Circuit, opts: dict) -> Plan:
    from bqskit.passes.rules.u3 import U3Decomposition
    return Plan(
        [U3Decomposition()], 'exact', [_post_single_op(['U3']), post_radixes_same],
        in_domain='bad' not in opts, documented_raise=['ValueError'],
    )


register(Entry('U3Decomposition', ['U3Decomposition'], _u3_domain, _u3_plan, 50, 2000, 0.12))


def _zxzxz_domain(rng: np.random.Generator, tier: str) -> tuple[Circuit, dict]:
    opts: dict[str, Any] = {
        'always_use_rx': bool(rng.random() < 0.35),
        'always_use_u1': bool(rng.random() < 0.35),
        'gateset': str(rng.choice(['default', 'rz_sx_cx', 'rz_rx_cx', 'u1_sx_cx', 'u1_rx_cx', 'all4'])),
    }
    r = rng.random()
    if r < 0.05:
        opts['bad'] = 'qutrit'
        return _sq_circuit(rng, 3), opts
    return _sq_circuit(rng), opts


_ZX_SETS = {
    'rz_sx_cx': ['RZ', 'SX', 'CNOT'], 'rz_rx_cx': ['RZ', 'RX', 'CNOT'],
    'u1_sx_cx': ['U1', 'SX', 'CNOT'], 'u1_rx_cx': ['U1', 'RX', 'CNOT'],
    'all4': ['U1', 'RZ', 'RX', 'SX', 'CNOT'],
}


def _zxzxz_plan(circuit: Circuit, opts: dict) -> Plan:
    from bqskit.passes.rules.zxzxz import ZXZXZDecomposition
    gs = _ZX_SETS.get(opts['gateset'])
    in_set = set(gs) if gs else {'CNOT', 'U3'}
    use_rx = opts['always_use_rx'] or ('RX' in in_set and 'SX' not in in_set)
    use_u1 = opts['always_use_u1'] or ('U1' in in_set and 'RZ' not in in_set)
    want = ['U1' if use_u1 else 'RZ', 'RX' if use_rx else 'SX']

    def post(ctx: Ctx) -> Iterator[tuple[str, dict]]:
        names = [repr(g) for g, _, _ in ctx.a_top]
        z, x = GATES[want[0]], GATES[want[1]]
        seq = [g for g, _, _ in ctx.a_top]
        if seq != [z, x, z, x, z]:
            yield 'not_zxzxz_sequence', {'after': names, 'want': want}
    data = {'model': make_model(1, gs)} if gs else None
    return Plan(
        [ZXZXZDecomposition(opts['always_use_rx'], opts['always_use_u1'])],
        'exact', [post, post_radixes_same], data=data,
        in_domain='bad' not in opts, documented_raise=['ValueError'],
    )


register(Entry('ZXZXZDecomposition', ['ZXZXZDecomposition'], _zxzxz_domain, _zxzxz_plan, 60, 2400, 0.12))


# ----------------------------------------------------------------- retarget
def _gsq_domain(rng: np.random.Generator, tier: str) -> tuple[Circuit, dict]:
    kind = str(rng.choice(['u3', 'u3', 'u3', 'u3', 'vu', 'vu', 'pauli', 'pauli', 'qutrit_vu', 'qutrit_u8', 'none']))
    opts = {'gateset': kind}
    if kind.startswith('qutrit'):
        return _sq_circuit(rng, 3), opts
    return _sq_circuit(rng), opts


_GSQ = {
    'u3': (['U3', 'CNOT'], 2, 'U3'), 'vu': (['VU1', 'CNOT'], 2, 'VU1'),
    'pauli': (['PAULI1', 'CNOT'], 2, 'PAULI1'),
    'qutrit_vu': (['VU1_3', 'CSUM'], 3, 'VU1_3'),
    'qutrit_u8': (['U8', 'CSUM'], 3, 'U8'),
    'none': (['RZ', 'SX', 'CNOT'], 2, None),
}


def _gsq_plan(circuit: Circuit, opts: dict) -> Plan:
    from bqskit.passes.retarget.general import GeneralSQDecomposition
    gs, radix, want = _GSQ[opts['gateset']]
    posts = [_post_single_op([want]), post_radixes_same] if want else []
    return Plan(
        [GeneralSQDecomposition()], 'exact', posts,
        data={'model': make_model(1, gs, radix=radix)},
        in_domain=want is not None, documented_raise=['ValueError'],
    )


register(Entry('GeneralSQDecomposition', ['GeneralSQDecomposition'], _gsq_domain, _gsq_plan, 40, 1200, 0.12))


def _rebase_circuit(rng: np.random.Generator, srcs: Sequence[str], tier: str) -> Circuit:
    n = int(rng.choice([2, 2, 3] if tier == 'quick' else [2, 2, 3, 3, 4]))
    c = Circuit(n)
    nsrc = int(rng.integers(1, 4))
    for q in range(n):
        if rng.random() < 0.6:
            c.append_gate(U3Gate(), q, gen.rand_params(rng, 3))
    for _ in range(nsrc):
        g = GATES[srcs[int(rng.integers(len(srcs)))]]
        c.append_gate(g, random_loc(rng, n, 2), gen.rand_params(rng, g.num_params))
        for q in range(n):
            if rng.random() < 0.4:
                g1 = GATES[str(rng.choice(['U3', 'RZ', 'H', 'T', 'RX']))]
                c.append_gate(g1, q, gen.rand_params(rng, g1.num_params))
    return c


_REBASE_PAIRS = [
    (['CNOT'], ['CZ']), (['CZ'], ['CNOT']), (['CNOT'], ['SQISW']),
    (['SWAP'], ['CNOT']), (['CNOT', 'CZ'], ['ISWAP']), (['ISWAP'], ['CZ']),
    (['CP'], ['CNOT']), (['CH', 'CY'], ['CZ']), (['RZZ'], ['CNOT', 'CZ']),
]


def _rebase_domain(rng: np.random.Generator, tier: str) -> tuple[Circuit, dict]:
    src, new = _REBASE_PAIRS[int(rng.integers(len(_REBASE_PAIRS)))]
    opts = {
        'src': src, 'new': new,
        'thr': float(rng.choice([1e-8, 1e-8, 1e-6, 1e-4])),
        'max_retries': int(rng.choice([-1, -1, 1, 3])),
        'max_depth': 3, 'seed': int(rng.integers(1 << 30)),
    }
    return _rebase_circuit(rng, src, tier), opts


def _rebase_plan(circuit: Circuit, opts: dict) -> Plan:
    from bqskit.passes.retarget.two import Rebase2QuditGatePass
    src = opts['src'] if len(opts['src']) > 1 else opts['src'][0]
    new = opts['new'] if len(opts['new']) > 1 else opts['new'][0]
    p = Rebase2QuditGatePass(
        gates_of(src) if isinstance(src, list) else GATES[src],
        gates_of(new) if isinstance(new, list) else GATES[new],
        max_depth=opts['max_depth'], max_retries=opts['max_retries'],
        success_threshold=opts['thr'],
    )
    return Plan(
        [p], 'numerical',
        [post_absent(opts['src']), post_introduced_subset(list(opts['new']) + ['U3']), post_radixes_same],
        thr=opts['thr'], k=1, data={'seed': opts['seed']},
    )


register(Entry('Rebase2QuditGatePass', ['Rebase2QuditGatePass'], _rebase_domain, _rebase_plan, 16, 400, 4.0, 600))

_AUTO_SETS = {
    'cz_u3': ['CZ', 'U3'], 'cx_u3': ['CNOT', 'U3'], 'isw_u3': ['ISWAP', 'U3'],
    'sqisw_u3': ['SQISW', 'U3'], 'cx_cz_u3': ['CNOT', 'CZ', 'U3'],
}


def _auto_domain(rng: np.random.Generator, tier: str) -> tuple[Circuit, dict]:
    gs = str(rng.choice(list(_AUTO_SETS)))
    native = [x for x in _AUTO_SETS[gs] if GATES[x].num_qudits == 2]
    srcs = [x for x in ['CNOT', 'CZ', 'SWAP', 'CP', 'ISWAP', 'CH', 'RZZ'] if x not in native]
    k = int(rng.integers(1, 3))
    pick = [str(x) for x in rng.choice(srcs, size=k, replace=False)]
    if rng.random() < 0.3:
        pick.append(native[0])
    opts = {
        'gateset': gs, 'thr': float(rng.choice([1e-8, 1e-8, 1e-6])),
        'max_retries': int(rng.choice([-1, 2])), 'seed': int(rng.integers(1 << 30)),
    }
    return _rebase_circuit(rng, pick, tier), opts


def _auto_plan(circuit: Circuit, opts: dict) -> Plan:
    from bqskit.passes.retarget.auto import AutoRebase2QuditGatePass
    gs = _AUTO_SETS[opts['gateset']]
    native2 = [g for g in gates_of(gs) if g.num_qudits == 2]
    sq = [g for g in gates_of(gs) if g.num_qudits == 1]

    def post(ctx: Ctx) -> Iterator[tuple[str, dict]]:
        bad = [repr(g) for g in gate_counter(ctx.a_leaf) if g.num_qudits == 2 and g not in native2]
        if bad:
            yield 'source_gate_left', {'left': bad, 'native': [repr(g) for g in native2]}
    p = AutoRebase2QuditGatePass(3, opts['max_retries'], opts['thr'])
    return Plan(
        [p], 'numerical',
        [post, post_introduced_subset(lambda ctx: native2 + sq), post_radixes_same],
        thr=opts['thr'], k=1,
        data={'model': make_model(circuit.num_qudits, gs), 'seed': opts['seed']},
    )


register(Entry('AutoRebase2QuditGatePass', ['AutoRebase2QuditGatePass'], _auto_domain, _auto_plan, 12, 300, 5.0, 600))


# ================================================================== runner
class CaseTimeout(BaseException):   # not an Exception: Compiler.compile must not swallow it
    pass


def _alarm(signum: int, frame: Any) -> None:
    raise CaseTimeout()


_TB_FILE = re.compile(r'File "([^"]+)", line (\d+), in (\S+)')


def parse_remote_error(e: BaseException) -> dict[str, Any]:
    """The Compiler re-raises a worker's failure as RuntimeError(<traceback
    text>) (wrapped once more when it closes the connection). Extract
    exception type, message, raising site and the repository frames."""
    texts = []
    x: BaseException | None = e
    while x is not None and len(texts) < 6:
        texts.append(str(x))
        x = x.__cause__ or x.__context__
    tb = next((t for t in texts if 'Traceback (most recent call last)' in t), None)
    if tb is None:
        return {
            'exc': type(e).__name__, 'msg': str(e)[:300], 'site': '?', 'frames': [], 'remote': False,
            'pass_site': '?',
        }
    frames = []
    for m in _TB_FILE.finditer(tb):
        fn, _, func = m.groups()
        frames.append((fn, func))
    lines = tb.rstrip().splitlines()
    # the exception header is the first unindented line after the last frame
    last_file = max((i for i, ln in enumerate(lines) if ln.startswith('  File ')), default=-1)
    hdr = next((i for i in range(last_file + 1, len(lines)) if lines[i] and not lines[i].startswith(' ')), len(lines) - 1)
    mm = re.match(r'^([A-Za-z_][\w\.]*)(?::\s*(.*))?$', lines[hdr])
    exc = mm.group(1).split('.')[-1] if mm else 'Unknown'
    msg = ((mm.group(2) or '') if mm else lines[hdr])
    if hdr + 1 < len(lines):
        msg += ' | ' + ' | '.join(x.strip() for x in lines[hdr + 1:] if x.strip())
    import os
    site = '?'
    if frames:
        site = '%s:%s' % (os.path.basename(frames[-1][0]), frames[-1][1])
    psite = [
        '%s:%s' % (os.path.basename(f), fn) for f, fn in frames
        if '/bqskit/passes/' in f and '/passes/control/' not in f
    ]
    repo = ['%s:%s' % (os.path.basename(f), fn) for f, fn in frames if '/bqskit/' in f]
    repo = [r for r in repo if not r.startswith(('worker.py', 'task.py:step', 'task.py:run'))]
    return {
        'exc': exc, 'msg': msg[:300], 'site': site, 'frames': repo[-8:], 'remote': True,
        'pass_site': psite[-1] if psite else '?',
    }


def case_timeout(entry: Entry, tier: str) -> int:
    import os
    scale = float(os.environ.get('VERIF_TIMEOUT_SCALE', '1'))
    base = entry.timeout if tier == 'thorough' else max(60, entry.timeout // 3)
    return int(base * scale)


def budget_of(plan: Plan, ctx: Ctx) -> tuple[float, int]:
    ops = max(len(ctx.b_leaf), len(ctx.a_leaf))
    floor = 1e-10 * (ops + 1)
    if plan.contract == 'exact':
        return max(floor, plan.extra_budget), 0
    k = plan.k(ctx) if callable(plan.k) else int(plan.k)
    return max(floor, (k + 1) ** 2 * plan.thr, plan.extra_budget), k


def run_case(
    get_comp: Callable[[], Any], drop_comp: Callable[[], None],
    entry: Entry, circuit: Circuit, opts: dict, ident: dict,
) -> dict[str, Any]:
    """Run one catalogue case through a real compiler and judge it.
    Returns a picklable/JSON-able result record."""
    from vlib import core
    res: dict[str, Any] = {
        'entry': entry.name, 'ident': ident, 'opts': opts, 'status': 'ok',
        'changed': False, 'witnesses': [], 'counters': {},
        'sig': core.sig_of([entry.name, opts, circuit_sig(circuit)]),
    }

    def cnt(k: str, n: int = 1) -> None:
        res['counters'][k] = res['counters'].get(k, 0) + n

    def witness(kind: str, **kw: Any) -> None:
        w = {
            'kind': '%s:%s' % (entry.name, kind), 'entry': entry.name,
            'pass': (entry.covers or [entry.name])[0], 'mechanism': kind.split(':')[0],
            'opts': opts, 'ident': ident,
            'circuit': gen.circuit_desc(circuit, 60),
            'circuit_pickle_b64': pickle_b64(circuit),
        }
        w.update(kw)
        res['witnesses'].append(core.jsonable(w))

    try:
        plan: Plan = entry.plan(circuit, opts)
    except Exception as e:  # harness problem, not a verdict
        res['status'] = 'harness_error'
        res['error'] = 'plan: %r' % (e,)
        return res
    before = circuit.copy()
    try:
        U0 = refsim.unitary(before) if plan.target is None else plan.target
    except Exception as e:
        res['status'] = 'harness_error'
        res['error'] = 'refsim(before): %r' % (e,)
        return res

    try:
        comp = get_comp()      # start-up (and warm-up) is not part of the case watchdog
    except Exception as e:
        res['status'] = 'harness_error'
        res['error'] = 'compile: could not start a compiler: %r' % (e,)
        return res
    old = signal.signal(signal.SIGALRM, _alarm)
    signal.alarm(case_timeout(entry, ident.get('tier', 'quick')))
    try:
        out, data = comp.compile(circuit.copy(), plan.workflow, request_data=True, data=plan.data)
    except CaseTimeout:
        signal.alarm(0)
        drop_comp()
        res['status'] = 'timeout'
        return res
    except Exception as e:
        signal.alarm(0)
        drop_comp()
        info = parse_remote_error(e)
        if not info['remote']:
            res['status'] = 'harness_error'
            res['error'] = 'compile: %s %s' % (info['exc'], info['msg'])
            return res
        res['status'] = 'raised'
        cnt('raised:' + info['exc'])
        if (not plan.in_domain) and info['exc'] in plan.documented_raise:
            res['status'] = 'rejected_input'
            cnt('rejected_input')
            return res
        if not plan.in_domain:
            res['status'] = 'rejected_input'
            cnt('rejected_input_undocumented_exception')
            return res
        where = info['pass_site'] if info['pass_site'] != '?' else info['site']
        witness(
            'raised:%s@%s' % (info['exc'], where), exc=info['exc'], msg=info['msg'],
            site=info['site'], frames=info['frames'], pass_site=info['pass_site'],
            observed='exception on an input satisfying the documented preconditions',
            expected='pass completes and preserves the unitary',
        )
        return res
    finally:
        signal.alarm(0)
        signal.signal(signal.SIGALRM, old)

    if not plan.in_domain:
        cnt('outside_domain_not_rejected')
        res['status'] = 'outside_domain'
        return res
    try:
        ctx = Ctx(before, out, data, opts)
        U1 = refsim.unitary(out)
        if plan.mode == 'mapped':
            pi = [int(x) for x in data.initial_mapping]
            pf = [int(x) for x in data.final_mapping]
            cost, leak = refsim.mapped_cost(U0, U1, pi, pf, list(before.radixes), list(out.radixes))
            res['mapping'] = [pi, pf]
            cnt('mapped_compare')
            if pi != sorted(pi) or pf != sorted(pf):
                cnt('mapped_nontrivial')
            if sorted(pi) != list(range(len(pi))) or sorted(pf) != list(range(len(pf))):
                witness('mapping_not_permutation', observed=[pi, pf], expected='permutations')
        elif U0.shape != U1.shape:
            cost = 1.0
            witness(
                'dimension_changed', observed=list(U1.shape), expected=list(U0.shape),
                after=gen.circuit_desc(out, 60),
            )
        else:
            cost = refsim.cost1(U0, U1)
        budget, k = budget_of(plan, ctx)
        res['cost'] = cost
        res['budget'] = budget
        res['k'] = k
        cnt('unitary_compare:' + plan.contract)
        changed = layout_sig(before) != layout_sig(out)
        res['changed'] = changed
        if changed:
            cnt('circuit_changed')
        if not (cost <= budget):
            witness(
                'unitary_changed' if plan.contract == 'exact' else 'unitary_outside_threshold_budget',
                observed={'cost1': cost, 'mapping': res.get('mapping')},
                expected={'budget': budget, 'contract': plan.contract, 'threshold': plan.thr, 'k': k},
                after=gen.circuit_desc(out, 60),
            )
        for post in plan.posts:
            cnt('postcondition_checks')
            for kind, detail in post(ctx):
                if kind.startswith('advisory:'):
                    cnt(kind + ':' + entry.name)
                    continue
                witness(
                    kind, observed=detail, expected='advertised postcondition',
                    after=gen.circuit_desc(out, 60),
                )
        res['sample'] = {
            'entry': entry.name, 'opts': opts, 'before': gen.circuit_desc(before, 12),
            'after': gen.circuit_desc(out, 12), 'cost1': cost, 'budget': budget,
        }
    except Exception as e:
        import traceback
        res['status'] = 'harness_error'
        res['error'] = 'judge: ' + traceback.format_exc()[-600:]
    return res


def make_case(entry: Entry, seed: int, eidx: int, idx: int, tier: str) -> tuple[Circuit, dict]:
    from vlib import core
    rng = core.rng_for(seed, 'C10', eidx, idx)
    return entry.domain(rng, tier)


def run_batch(arg: tuple[int, str, list[tuple[str, int]]]) -> list[dict[str, Any]]:
    """Worker-process body: one real Compiler reused for the whole batch,
    rebuilt after a raising / timed-out case, closed in finally."""
    import os
    from vlib.compiledrv import new_compiler
    seed, tier, items = arg
    names = list(CATALOGUE)
    state: dict[str, Any] = {'comp': None}
    env = {'PYTHONPATH': os.pathsep.join(
        [os.path.dirname(os.path.dirname(os.path.abspath(__file__)))]
        + ([os.environ['PYTHONPATH']] if os.environ.get('PYTHONPATH') else []),
    )}

    def get_comp() -> Any:
        if state['comp'] is None:
            from bqskit.passes.noop import NOOPPass
            c = new_compiler(1, env=env)
            try:
                c.compile(Circuit(1), [NOOPPass()])   # warm-up: worker imports
            except Exception:
                try:
                    c.close()
                finally:
                    raise
            state['comp'] = c
        return state['comp']

    def drop_comp() -> None:
        c = state['comp']
        state['comp'] = None
        if c is not None:
            try:
                c.close()
            except Exception:
                pass
            try:
                if getattr(c, 'p', None) is not None:
                    c.p.kill()
            except Exception:
                pass

    out = []
    try:
        for name, idx in items:
            entry = CATALOGUE[name]
            try:
                circuit, opts = make_case(entry, seed, names.index(name), idx, tier)
            except Exception as e:
                import traceback
                out.append({
                    'entry': name, 'ident': {'seed': seed, 'idx': idx}, 'status': 'harness_error',
                    'error': 'domain: ' + traceback.format_exc()[-600:], 'witnesses': [], 'counters': {},
                    'opts': {}, 'sig': '', 'changed': False,
                })
                continue
            ident = {'seed': seed, 'idx': idx, 'tier': tier}
            t0 = time.monotonic()
            r = run_case(get_comp, drop_comp, entry, circuit, opts, ident)
            if r['status'] == 'harness_error' and str(r.get('error', '')).startswith('compile:'):
                # transient infrastructure failure (server lost): one retry
                # on a fresh compiler; a second failure stays a harness error
                drop_comp()
                first = r['error']
                r = run_case(get_comp, drop_comp, entry, circuit, opts, ident)
                r['counters']['harness_retry'] = 1
                if r['status'] == 'harness_error':
                    r['error'] = '%s (first attempt: %s)' % (r.get('error'), first)
            r['wall'] = round(time.monotonic() - t0, 3)
            out.append(r)
    finally:
        drop_comp()
    return out


# =============================================================== processing
def _redundant_circuit(rng: np.random.Generator, n: int, max_ops: int) -> Circuit:
    """Small circuit with removable material: gate/inverse pairs, runs of
    general single-qudit gates, cancelling entangler pairs, identity-valued
    parameters (removal needs the neighbours to absorb the removed gate
    including its global phase, so plain random circuits are irreducible)."""
    c = Circuit(n)
    two = [GATES[x] for x in ('CNOT', 'CNOT', 'CZ')]
    while c.num_operations < max_ops:
        r = rng.random()
        q = int(rng.integers(n))
        if r < 0.2:
            g = GATES[str(rng.choice(['U3', 'U3', 'RZ', 'RX', 'H', 'T']))]
            style = str(rng.choice(['generic', 'zeros', 'special']))
            c.append_gate(g, q, gen.rand_params(rng, g.num_params, style))
        elif r < 0.4:
            t, p, l = gen.rand_params(rng, 3, 'generic')
            c.append_gate(U3Gate(), q, [t, p, l])
            c.append_gate(U3Gate(), q, [-t, -l, -p])
        elif r < 0.5:
            a = gen.rand_params(rng, 1, 'generic')[0]
            g = RZGate() if rng.random() < 0.5 else RXGate()
            c.append_gate(g, q, [a])
            c.append_gate(g, q, [-a])
        elif r < 0.6:
            for _ in range(int(rng.integers(2, 4))):
                c.append_gate(U3Gate(), q, gen.rand_params(rng, 3))
        elif n >= 2:
            g = two[int(rng.integers(len(two)))]
            loc = random_loc(rng, n, 2)
            c.append_gate(g, loc)
            if rng.random() < 0.6:
                c.append_gate(g, loc)
        else:
            c.append_gate(U3Gate(), 0, gen.rand_params(rng, 3))
    return c


def _rejected_multiset(circuit: Circuit, fname: str) -> Counter:
    f = FILTERS[fname]
    out: Counter = Counter()
    if f is None:
        return out
    for op in circuit:
        if not f(op):
            out[(repr(op.gate), tuple(op.location))] += 1
    return out


def _post_filter(ctx: Ctx) -> Iterator[tuple[str, dict]]:
    fname = ctx.opts.get('filter', 'all')
    if fname == 'all':
        return
    b = _rejected_multiset(ctx.before, fname)
    a = _rejected_multiset(ctx.after, fname)
    if a != b:
        lost = {str(k): [b[k], a.get(k, 0)] for k in b if a.get(k, 0) != b[k]}
        kind = 'filter_ignored' if FILTER_IS_POSTCONDITION else 'advisory:filter_ignored'
        yield kind, {'filter': fname, 'rejected_ops_changed': lost}


def _scan_opts(rng: np.random.Generator) -> dict[str, Any]:
    return {
        'left': bool(rng.random() < 0.5),
        'thr': float(rng.choice([1e-8, 1e-8, 1e-6, 1e-4, 1e-10])),
        'filter': str(rng.choice(['all', 'all', 'two', 'one', 'u3'])),
        'seed': int(rng.integers(1 << 30)),
    }


def _scan_domain(rng: np.random.Generator, tier: str) -> tuple[Circuit, dict]:
    n = int(rng.choice([1, 2, 2, 3]))
    return _redundant_circuit(rng, n, int(rng.integers(2, 9 if n < 3 else 8))), _scan_opts(rng)


def _scan_plan(circuit: Circuit, opts: dict) -> Plan:
    from bqskit.passes.processing.scan import ScanningGateRemovalPass
    p = ScanningGateRemovalPass(
        opts['left'], opts['thr'], collection_filter=FILTERS[opts['filter']],
    )
    return Plan(
        [p], 'numerical', [post_no_count_increase, _post_filter, post_radixes_same],
        thr=opts['thr'], k=1, data={'seed': opts['seed']},
    )


register(Entry('ScanningGateRemovalPass', ['ScanningGateRemovalPass'], _scan_domain, _scan_plan, 24, 800, 1.0, 400))


def _tree_domain(rng: np.random.Generator, tier: str) -> tuple[Circuit, dict]:
    c, o = _scan_domain(rng, tier)
    o['tree_depth'] = int(rng.choice([1, 2, 2, 3]))
    return c, o


def _tree_plan(circuit: Circuit, opts: dict) -> Plan:
    from bqskit.passes.processing.treescan import TreeScanningGateRemovalPass
    p = TreeScanningGateRemovalPass(
        opts['left'], opts['thr'], tree_depth=opts['tree_depth'],
        collection_filter=FILTERS[opts['filter']],
    )
    return Plan(
        [p], 'numerical', [post_no_count_increase, _post_filter, post_radixes_same],
        thr=opts['thr'], k=1, data={'seed': opts['seed']},
    )


register(Entry('TreeScanningGateRemovalPass', ['TreeScanningGateRemovalPass'], _tree_domain, _tree_plan, 20, 600, 1.5, 400))


def _exh_domain(rng: np.random.Generator, tier: str) -> tuple[Circuit, dict]:
    n = int(rng.choice([1, 2, 2]))
    c = _redundant_circuit(rng, n, int(rng.integers(2, 6)))
    o = _scan_opts(rng)
    del o['left']
    o['scoring'] = str(rng.choice(['default', 'neg_ops']))
    return c, o


def _exh_plan(circuit: Circuit, opts: dict) -> Plan:
    from bqskit.passes.processing.exhaustive import ExhaustiveGateRemovalPass
    p = ExhaustiveGateRemovalPass(
        opts['thr'], collection_filter=FILTERS[opts['filter']],
        scoring_fn=score_neg_ops if opts['scoring'] == 'neg_ops' else None,
    )
    return Plan(
        [p], 'numerical', [post_no_count_increase, _post_filter, post_radixes_same],
        thr=opts['thr'], k=1, data={'seed': opts['seed']},
    )


register(Entry('ExhaustiveGateRemovalPass', ['ExhaustiveGateRemovalPass'], _exh_domain, _exh_plan, 14, 400, 3.0, 600))


def _iter_domain(rng: np.random.Generator, tier: str) -> tuple[Circuit, dict]:
    o = _scan_opts(rng)
    o['filter'] = str(rng.choice(['all', 'all', 'two']))
    if rng.random() < 0.5:
        o['width_to_partition'], o['block_size'] = 5, 3
        n = int(rng.choice([2, 3]))
    else:
        o['width_to_partition'], o['block_size'] = 3, 2
        n = int(rng.choice([3, 4]))
    return _redundant_circuit(rng, n, int(rng.integers(3, 9))), o


def _iter_plan(circuit: Circuit, opts: dict) -> Plan:
    from bqskit.passes.processing.iterative import IterativeScanningGateRemovalPass
    p = IterativeScanningGateRemovalPass(
        opts['width_to_partition'], opts['block_size'],
        start_from_left=opts['left'], success_threshold=opts['thr'],
        collection_filter=FILTERS[opts['filter']],
    )

    def k(ctx: Ctx) -> int:
        # every accepted removal deletes exactly one operation
        return max(1, len(ctx.b_leaf) - len(ctx.a_leaf))

    def post_no_increase_leaf(ctx: Ctx) -> Iterator[tuple[str, dict]]:
        b, a = gate_counter(ctx.b_leaf), gate_counter(ctx.a_leaf)
        inc = {repr(g): [b.get(g, 0), a[g]] for g in a if a[g] > b.get(g, 0)}
        if inc:
            yield 'gate_count_increased', {'increased': inc}
    return Plan(
        [p], 'numerical', [post_no_increase_leaf, post_radixes_same],
        thr=opts['thr'], k=k, data={'seed': opts['seed']},
    )


register(Entry('IterativeScanningGateRemovalPass', ['IterativeScanningGateRemovalPass'], _iter_domain, _iter_plan, 14, 400, 3.0, 600))


def _subst_domain(rng: np.random.Generator, tier: str) -> tuple[Circuit, dict]:
    mode = str(rng.choice(['u3_to_rz', 'u3_to_rz', 'ccx_to_cnot', 'cnot_to_cz']))
    o: dict[str, Any] = {'mode': mode, 'thr': float(rng.choice([1e-8, 1e-6, 1e-4])), 'seed': int(rng.integers(1 << 30))}
    if mode == 'u3_to_rz':
        n = int(rng.choice([1, 2, 3]))
        c = Circuit(n)
        for _ in range(int(rng.integers(2, 8))):
            r = rng.random()
            q = int(rng.integers(n))
            if r < 0.35:  # a U3 that is a pure Z rotation (up to phase)
                c.append_gate(U3Gate(), q, [0.0, float(rng.uniform(-3, 3)), float(rng.uniform(-3, 3))])
            elif r < 0.6:
                c.append_gate(U3Gate(), q, gen.rand_params(rng, 3))
            elif r < 0.8 and n >= 2:
                c.append_gate(CNOTGate(), random_loc(rng, n, 2))
            else:
                c.append_gate(HGate(), q)
        return c, o
    if mode == 'ccx_to_cnot':
        c = Circuit(3)
        for _ in range(int(rng.integers(1, 5))):
            r = rng.random()
            if r < 0.4:
                c.append_gate(CCXGate(), random_loc(rng, 3, 3))
            elif r < 0.7:
                c.append_gate(U3Gate(), int(rng.integers(3)), gen.rand_params(rng, 3))
            else:
                c.append_gate(CNOTGate(), random_loc(rng, 3, 2))
        return c, o
    n = int(rng.choice([2, 3]))
    c = Circuit(n)
    for q in range(n):
        c.append_gate(U3Gate(), q, gen.rand_params(rng, 3))
    for _ in range(int(rng.integers(1, 4))):
        loc = random_loc(rng, n, 2)
        c.append_gate(CNOTGate(), loc)
        for q in loc:
            c.append_gate(U3Gate(), q, gen.rand_params(rng, 3))
    return c, o


_SUBST = {'u3_to_rz': ('u3', 'RZ'), 'ccx_to_cnot': ('ccx', 'CNOT'), 'cnot_to_cz': ('cnot', 'CZ')}


def _subst_plan(circuit: Circuit, opts: dict) -> Plan:
    from bqskit.passes.processing.substitute import SubstitutePass
    fname, gname = _SUBST[opts['mode']]
    p = SubstitutePass(FILTERS[fname], GATES[gname], opts['thr'])

    def post(ctx: Ctx) -> Iterator[tuple[str, dict]]:
        if len(ctx.a_top) != len(ctx.b_top):
            yield 'operation_count_changed', {'ops': [len(ctx.b_top), len(ctx.a_top)]}
        # operations outside the filter keep their gate and location
        b = _rejected_multiset(ctx.before, fname)
        a = _rejected_multiset(ctx.after, fname)
        missing = {str(k): [v, a.get(k, 0)] for k, v in b.items() if a.get(k, 0) < v}
        if missing:
            yield 'unfiltered_operation_changed', {'missing': missing}
    return Plan(
        [p], 'numerical', [post, post_introduced_subset([gname]), post_radixes_same],
        thr=opts['thr'], k=1, data={'seed': opts['seed']},
    )


register(Entry('SubstitutePass', ['SubstitutePass'], _subst_domain, _subst_plan, 16, 500, 2.0, 400))


def _mpr_params(rng: np.random.Generator, k: int) -> list[float]:
    return gen.rand_params(rng, k)


def _extract_domain(rng: np.random.Generator, tier: str) -> tuple[Circuit, dict]:
    """The shape QSD/BlockZXZ hand to the pass: two-qubit VariableUnitary
    gates on one fixed pair, separated only by operations that commute with
    diagonals on that pair (multiplexed rotations controlled by it)."""
    n = 3
    c = Circuit(n)
    pair = (1, 2)
    m = int(rng.integers(2, 5))
    for i in range(m):
        u = special_unitary(rng, 2) if rng.random() < 0.3 else np.asarray(gen.haar(rng, [2, 2]))
        c.append_gate(VariableUnitaryGate(2), pair, vu_params(u))
        if i < m - 1:
            g = MPRZGate(3, 0) if rng.random() < 0.5 else MPRYGate(3, 0)
            c.append_gate(g, (0, 1, 2), _mpr_params(rng, 4))
            if rng.random() < 0.3:
                c.append_gate(HGate(), 0)
    return c, {'thr': 1e-8}


def _extract_plan(circuit: Circuit, opts: dict) -> Plan:
    from bqskit.passes.processing.extract_diagonal import ExtractDiagonalPass
    nvu = sum(1 for g, _, _ in top_ops(circuit) if isinstance(g, VariableUnitaryGate))
    return Plan(
        [ExtractDiagonalPass(2, opts['thr'])], 'numerical',
        [post_introduced_subset(['VU1', 'CNOT']), post_radixes_same],
        thr=opts['thr'], k=max(1, nvu - 1),
    )


register(Entry('ExtractDiagonalPass', [], _extract_domain, _extract_plan, 5, 60, 4.0, 400))


# ================================================================ synthesis
def _vu_circuit(
    rng: np.random.Generator, widths: Sequence[int], n_max: int, max_blocks: int = 2,
    p_haar: float = 0.0,
) -> Circuit:
    """Circuit holding VariableUnitaryGates of the given widths at random
    (unsorted) locations among ordinary gates."""
    w0 = int(rng.choice(widths))
    n = int(rng.integers(w0, max(w0, n_max) + 1))
    c = Circuit(n)
    nb = int(rng.integers(1, max_blocks + 1))
    for b in range(nb):
        if rng.random() < 0.5:
            for _ in range(int(rng.integers(0, 3))):
                g = GATES[str(rng.choice(['H', 'U3', 'CNOT', 'RZ', 'CZ']))]
                if g.num_qudits <= n:
                    c.append_gate(g, random_loc(rng, n, g.num_qudits), gen.rand_params(rng, g.num_params))
        w = w0 if b == 0 else int(rng.choice([x for x in widths if x <= n]))
        c.append_gate(VariableUnitaryGate(w), random_loc(rng, n, w), vu_params(special_unitary(rng, w, p_haar)))
    return c


def _max_width(ops: Sequence[tuple[Any, Any, Any]], cls: Any) -> int:
    ws = [g.num_qudits for g, _, _ in ops if isinstance(g, cls)]
    return max(ws) if ws else 0


def _post_vu_width(limit: Callable[[Ctx], int]) -> Callable:
    def f(ctx: Ctx) -> Iterator[tuple[str, dict]]:
        lim = limit(ctx)
        got = _max_width(ctx.a_leaf, VariableUnitaryGate)
        if got > lim:
            yield 'wide_unitary_left', {'max_width_after': got, 'limit': lim}
    return f


def _qsd_domain(rng: np.random.Generator, tier: str) -> tuple[Circuit, dict]:
    widths = [2, 3, 3] if tier == 'quick' else [2, 3, 3, 4]
    c = _vu_circuit(rng, widths, 5 if tier != 'quick' else 4)
    w = _max_width(top_ops(c), VariableUnitaryGate)
    return c, {'min_qudit_size': max(1, int(rng.choice([w - 1, w - 1, w - 2, w])))}


def _qsd_plan(circuit: Circuit, opts: dict) -> Plan:
    from bqskit.passes.synthesis.qsd import QSDPass
    m = opts['min_qudit_size']
    return Plan(
        [QSDPass(m)], 'exact',
        [
            _post_vu_width(lambda ctx: max(m, _max_width(ctx.b_leaf, VariableUnitaryGate) - 1)),
            post_introduced_subset(lambda ctx: [
                g for g, _, _ in ctx.a_leaf
                if isinstance(g, (VariableUnitaryGate, MPRYGate, MPRZGate))
            ]),
            post_radixes_same,
        ],
    )


register(Entry('QSDPass', ['QSDPass'], _qsd_domain, _qsd_plan, 30, 900, 0.4))


def _mgd_domain(rng: np.random.Generator, tier: str) -> tuple[Circuit, dict]:
    n = int(rng.integers(2, 6 if tier != 'quick' else 5))
    c = Circuit(n)
    for _ in range(int(rng.integers(1, 4))):
        w = int(rng.integers(2, min(n, 4) + 1))
        tq = int(rng.integers(w))
        g = MPRYGate(w, tq) if rng.random() < 0.5 else MPRZGate(w, tq)
        c.append_gate(g, random_loc(rng, n, w), gen.rand_params(rng, g.num_params))
        if rng.random() < 0.5:
            g1 = GATES[str(rng.choice(['H', 'U3', 'CNOT']))]
            c.append_gate(g1, random_loc(rng, n, g1.num_qudits), gen.rand_params(rng, g1.num_params))
    return c, {'decompose_twice': bool(rng.random() < 0.5)}


def _mgd_plan(circuit: Circuit, opts: dict) -> Plan:
    from bqskit.passes.synthesis.qsd import MGDPass

    def post(ctx: Ctx) -> Iterator[tuple[str, dict]]:
        b = _max_width(ctx.b_leaf, (MPRYGate, MPRZGate))
        a = _max_width(ctx.a_leaf, (MPRYGate, MPRZGate))
        if b > 0 and a >= b:
            yield 'multiplexor_not_decomposed', {'max_width': [b, a]}
    return Plan(
        [MGDPass(opts['decompose_twice'])], 'exact',
        [
            post,
            post_introduced_subset(lambda ctx: [
                g for g, _, _ in ctx.a_leaf
                if isinstance(g, (MPRYGate, MPRZGate, RYGate, RZGate, CNOTGate))
            ]),
            post_radixes_same,
        ],
    )


register(Entry('MGDPass', ['MGDPass'], _mgd_domain, _mgd_plan, 40, 1200, 0.2))


def _fullqsd_domain(rng: np.random.Generator, tier: str) -> tuple[Circuit, dict]:
    scan = bool(rng.random() < 0.1)
    widths = [3, 3, 3, 3, 2] if (scan or tier == 'quick') else [2, 3, 3, 3, 4]
    n = int(rng.choice(widths))
    c = Circuit(n)
    c.append_gate(VariableUnitaryGate(n), random_loc(rng, n, n), vu_params(special_unitary(rng, n)))
    o = {
        'min_qudit_size': int(rng.choice([1, 2, 2])), 'perform_scan': scan,
        'left': bool(rng.random() < 0.5), 'tree_depth': int(rng.choice([0, 0, 1, 2])),
        'seed': int(rng.integers(1 << 30)),
    }
    return c, o


def _fullqsd_plan(circuit: Circuit, opts: dict) -> Plan:
    from bqskit.passes.synthesis.qsd import FullQSDPass
    m = opts['min_qudit_size']
    p = FullQSDPass(m, opts['perform_scan'], opts['left'], opts['tree_depth'])
    rounds = max(0, circuit.num_qudits - m)
    return Plan(
        [p], 'numerical' if opts['perform_scan'] else 'exact',
        [_post_vu_width(lambda ctx: max(m, 1)), post_radixes_same],
        thr=1e-8, k=max(1, rounds), data={'seed': opts['seed']},
    )


register(Entry('FullQSDPass', ['FullQSDPass'], _fullqsd_domain, _fullqsd_plan, 16, 400, 3.0, 600))


def _bzxz_domain(rng: np.random.Generator, tier: str) -> tuple[Circuit, dict]:
    widths = [3, 3] if tier == 'quick' else [3, 3, 4]
    c = _vu_circuit(rng, widths, 5 if tier != 'quick' else 4, p_haar=0.7)
    w = _max_width(top_ops(c), VariableUnitaryGate)
    return c, {'min_qudit_size': max(2, int(rng.choice([w - 1, w - 1, w - 2, w])))}


def _bzxz_plan(circuit: Circuit, opts: dict) -> Plan:
    from bqskit.passes.synthesis.bzxz import BlockZXZPass
    m = opts['min_qudit_size']
    return Plan(
        [BlockZXZPass(m)], 'exact',
        [
            _post_vu_width(lambda ctx: max(m, _max_width(ctx.b_leaf, VariableUnitaryGate) - 1)),
            post_radixes_same,
        ],
    )


register(Entry('BlockZXZPass', ['BlockZXZPass'], _bzxz_domain, _bzxz_plan, 30, 900, 0.4))


def _fullbzxz_domain(rng: np.random.Generator, tier: str) -> tuple[Circuit, dict]:
    scan = bool(rng.random() < 0.1)
    widths = [3] if (scan or tier == 'quick') else [3, 3, 4]
    n = int(rng.choice(widths))
    c = Circuit(n)
    c.append_gate(VariableUnitaryGate(n), random_loc(rng, n, n), vu_params(special_unitary(rng, n, 0.75)))
    o = {
        'min_qudit_size': 2, 'perform_scan': scan, 'left': bool(rng.random() < 0.5),
        'tree_depth': int(rng.choice([0, 0, 1])), 'perform_extract': bool(rng.random() < 0.2),
        'seed': int(rng.integers(1 << 30)),
    }
    return c, o


def _fullbzxz_plan(circuit: Circuit, opts: dict) -> Plan:
    from bqskit.passes.synthesis.bzxz import FullBlockZXZPass
    m = opts['min_qudit_size']
    p = FullBlockZXZPass(m, opts['perform_scan'], opts['left'], opts['tree_depth'], opts['perform_extract'])
    n = circuit.num_qudits
    numerical = opts['perform_scan'] or opts['perform_extract']

    def k(ctx: Ctx) -> int:
        kk = 0
        if opts['perform_scan']:
            kk += max(0, n - m) + (n - 1)
        if opts['perform_extract']:
            kk += 4 ** max(0, n - m)        # two-qubit unitaries handed to the extraction
        return max(1, kk)
    return Plan(
        [p], 'numerical' if numerical else 'exact',
        [_post_vu_width(lambda ctx: m), post_radixes_same],
        thr=1e-8, k=k, data={'seed': opts['seed']},
    )


register(Entry('FullBlockZXZPass', ['FullBlockZXZPass'], _fullbzxz_domain, _fullbzxz_plan, 12, 300, 6.0, 900))


def _walsh_domain(rng: np.random.Generator, tier: str) -> tuple[Circuit, dict]:
    n = int(rng.integers(1, 6 if tier != 'quick' else 5))
    d = 2 ** n
    kind = str(rng.choice(['phases', 'phases', 'gates', 'sparse', 'special']))
    if kind == 'gates':
        c = Circuit(n)
        pool = ['RZ', 'Z', 'S', 'T', 'U1'] + (['CZ', 'CP', 'RZZ', 'CRZ'] if n >= 2 else [])
        for _ in range(int(rng.integers(1, 10))):
            g = GATES[str(rng.choice(pool))]
            c.append_gate(g, random_loc(rng, n, g.num_qudits), gen.rand_params(rng, g.num_params))
    else:
        if kind == 'phases':
            ph = rng.uniform(-np.pi, np.pi, d)
        elif kind == 'special':
            ph = rng.choice([0.0, np.pi, np.pi / 2, -np.pi / 2, np.pi / 4], size=d)
        else:
            # few Pauli-Z strings
            ph = np.zeros(d)
            for _ in range(int(rng.integers(1, 4))):
                mask = int(rng.integers(1, d))
                a = float(rng.uniform(-1.5, 1.5))
                for x in range(d):
                    ph[x] += a * (-1) ** bin(x & mask).count('1')
        c = Circuit(n)
        c.append_gate(ConstantUnitaryGate(np.diag(np.exp(1j * ph))), list(range(n)))
    return c, {'precision': float(rng.choice([1e-8, 1e-8, 1e-5, 1e-3]))}


def _walsh_plan(circuit: Circuit, opts: dict) -> Plan:
    from bqskit.passes.synthesis.diagonal import WalshDiagonalSynthesisPass
    m = 2 ** circuit.num_qudits
    return Plan(
        [WalshDiagonalSynthesisPass(opts['precision'])], 'exact',
        [_post_only(lambda ctx: gates_of(['CNOT', 'RZ'])), post_radixes_same],
        extra_budget=(m * opts['precision']) ** 2,
    )


register(Entry('WalshDiagonalSynthesisPass', ['WalshDiagonalSynthesisPass'], _walsh_domain, _walsh_plan, 40, 1500, 0.3))


def _shallow_target(rng: np.random.Generator, n: int, max2q: int) -> Circuit:
    c = Circuit(n)
    for q in range(n):
        c.append_gate(U3Gate(), q, gen.rand_params(rng, 3))
    for _ in range(int(rng.integers(0, max2q + 1))):
        if n < 2:
            break
        loc = random_loc(rng, n, 2)
        g = GATES[str(rng.choice(['CNOT', 'CNOT', 'CZ', 'ISWAP']))]
        c.append_gate(g, loc)
        for q in loc:
            c.append_gate(U3Gate(), q, gen.rand_params(rng, 3))
    return c


def _post_only(gates: Callable[[Ctx], Sequence[Any]]) -> Callable:
    def f(ctx: Ctx) -> Iterator[tuple[str, dict]]:
        al = list(gates(ctx))
        bad = [repr(g) for g in gate_counter(ctx.a_leaf) if g not in al]
        if bad:
            yield 'introduced_outside_target_set', {'gates': bad, 'allowed': [repr(g) for g in al]}
    return f


def _qfast_domain(rng: np.random.Generator, tier: str) -> tuple[Circuit, dict]:
    n = int(rng.choice([2, 2, 3]))
    c = _shallow_target(rng, n, 1 if n == 3 else 2)
    return c, {
        'gate': 'PAULI2',
        'thr': float(rng.choice([1e-8, 1e-6, 1e-4])), 'seed': int(rng.integers(1 << 30)),
    }


def _qfast_plan(circuit: Circuit, opts: dict) -> Plan:
    from bqskit.passes.synthesis.qfast import QFASTDecompositionPass
    p = QFASTDecompositionPass(GATES[opts['gate']], opts['thr'])
    return Plan(
        [p], 'numerical', [_post_only(lambda ctx: [GATES[opts['gate']]]), post_radixes_same],
        thr=opts['thr'], k=1, data={'seed': opts['seed']},
    )


register(Entry('QFASTDecompositionPass', ['QFASTDecompositionPass'], _qfast_domain, _qfast_plan, 10, 240, 6.0, 900))


def _qpredict_domain(rng: np.random.Generator, tier: str) -> tuple[Circuit, dict]:
    n = int(rng.choice([2, 3, 3]))
    return _shallow_target(rng, n, 1), {
        'thr': float(rng.choice([1e-8, 1e-6, 1e-4])), 'seed': int(rng.integers(1 << 30)),
    }


def _qpredict_plan(circuit: Circuit, opts: dict) -> Plan:
    from bqskit.passes.synthesis.qpredict import QPredictDecompositionPass
    p = QPredictDecompositionPass(success_threshold=opts['thr'])
    return Plan(
        [p], 'numerical',
        [_post_only(lambda ctx: [g for g, _, _ in ctx.a_leaf if isinstance(g, (VariableUnitaryGate, ConstantUnitaryGate))]),
         post_radixes_same],
        thr=opts['thr'], k=1, data={'seed': opts['seed']},
    )


register(Entry('QPredictDecompositionPass', ['QPredictDecompositionPass'], _qpredict_domain, _qpredict_plan, 10, 240, 5.0, 900))

_SYN_SETS = {
    'cx_u3': ['CNOT', 'U3'], 'cz_u3': ['CZ', 'U3'], 'isw_u3': ['ISWAP', 'U3'],
    'sqisw_u3': ['SQISW', 'U3'],
}


def _search_domain(rng: np.random.Generator, tier: str) -> tuple[Circuit, dict]:
    o: dict[str, Any] = {
        'gateset': str(rng.choice(list(_SYN_SETS))),
        'thr': float(rng.choice([1e-8, 1e-8, 1e-6, 1e-4])), 'seed': int(rng.integers(1 << 30)),
    }
    # multi-qudit targets only: the layer generators refuse to expand a
    # single-qudit circuit, so a one-qudit target is outside their domain
    # unless the first layer already succeeds (kept: one exact qutrit case)
    r = rng.random()
    if r < 0.1:
        o['gateset'] = 'qutrit'
        c = Circuit(1, [3])
        c.append_gate(VariableUnitaryGate(1, [3]), 0, vu_params(gen.haar(rng, [3])))
        return c, o
    n = int(rng.choice([2, 2, 2, 3]))
    return _shallow_target(rng, n, 2 if n < 3 else 1), o


def _syn_model(n: int, opts: dict) -> MachineModel:
    if opts['gateset'] == 'qutrit':
        return make_model(n, ['VU1_3', 'CSUM'], radix=3)
    return make_model(n, _SYN_SETS[opts['gateset']])


def _post_mq_native(ctx: Ctx) -> Iterator[tuple[str, dict]]:
    native = list(ctx.data.model.gate_set)
    bad = [repr(g) for g in gate_counter(ctx.a_leaf) if g.num_qudits >= 2 and g not in native]
    if bad:
        yield 'introduced_outside_target_set', {'gates': bad, 'allowed': [repr(g) for g in native]}


def _qsearch_plan(circuit: Circuit, opts: dict) -> Plan:
    from bqskit.passes.synthesis.qsearch import QSearchSynthesisPass
    return Plan(
        [QSearchSynthesisPass(success_threshold=opts['thr'])], 'numerical',
        [_post_mq_native, post_radixes_same], thr=opts['thr'], k=1,
        data={'model': _syn_model(circuit.num_qudits, opts), 'seed': opts['seed']},
    )


def _leap_plan(circuit: Circuit, opts: dict) -> Plan:
    from bqskit.passes.synthesis.leap import LEAPSynthesisPass
    return Plan(
        [LEAPSynthesisPass(success_threshold=opts['thr'], min_prefix_size=opts.get('min_prefix_size', 3))],
        'numerical', [_post_mq_native, post_radixes_same], thr=opts['thr'], k=1,
        data={'model': _syn_model(circuit.num_qudits, opts), 'seed': opts['seed']},
    )


def _leap_domain(rng: np.random.Generator, tier: str) -> tuple[Circuit, dict]:
    c, o = _search_domain(rng, tier)
    o['min_prefix_size'] = int(rng.choice([1, 2, 3]))
    return c, o


register(Entry('QSearchSynthesisPass', ['QSearchSynthesisPass'], _search_domain, _qsearch_plan, 12, 300, 4.0, 900))
register(Entry('LEAPSynthesisPass', ['LEAPSynthesisPass'], _leap_domain, _leap_plan, 12, 300, 4.0, 900))


def _pas_domain(rng: np.random.Generator, tier: str) -> tuple[Circuit, dict]:
    n = int(rng.choice([2, 3, 3]))
    c = _shallow_target(rng, n, 2 if n == 2 else 1)
    # append a permutation so that a non-trivial mapping is the cheapest
    if rng.random() < 0.8 and n >= 2:
        perm = [int(x) for x in rng.permutation(n)]
        at_end = bool(rng.random() < 0.5)
    else:
        perm, at_end = None, True
    both = rng.random()
    o = {
        'input_perm': bool(both < 0.3 or both > 0.85), 'output_perm': bool(both > 0.25),
        'inner': str(rng.choice(['qsearch', 'leap'])), 'gateset': str(rng.choice(['cx_u3', 'cz_u3'])),
        'thr': float(rng.choice([1e-8, 1e-6])), 'seed': int(rng.integers(1 << 30)),
    }
    if n == 3 and o['input_perm'] and o['output_perm']:
        o['input_perm'] = False  # 36 syntheses of 3 qubits: too slow for a check
    if perm is not None:
        from bqskit.ir.gates import PermutationGate
        if o['input_perm'] != o['output_perm']:
            at_end = o['output_perm']   # put the permutation where PAS may absorb it
        if at_end:
            c.append_gate(PermutationGate(n, perm), list(range(n)))
        else:
            c.insert_gate(0, PermutationGate(n, perm), list(range(n)))
    return c, o


def _pas_plan(circuit: Circuit, opts: dict) -> Plan:
    from bqskit.passes.synthesis.leap import LEAPSynthesisPass
    from bqskit.passes.synthesis.pas import PermutationAwareSynthesisPass
    from bqskit.passes.synthesis.qsearch import QSearchSynthesisPass
    inner = (QSearchSynthesisPass if opts['inner'] == 'qsearch' else LEAPSynthesisPass)(success_threshold=opts['thr'])
    p = PermutationAwareSynthesisPass(opts['input_perm'], opts['output_perm'], inner)
    return Plan(
        [p], 'numerical', [_post_mq_native, post_radixes_same], thr=opts['thr'], k=1,
        data={'model': _syn_model(circuit.num_qudits, opts), 'seed': opts['seed']}, mode='mapped',
    )


register(Entry('PermutationAwareSynthesisPass', ['PermutationAwareSynthesisPass'], _pas_domain, _pas_plan, 10, 240, 8.0, 900))


# ===================================================================== util
def _general_mix_circuit(rng: np.random.Generator, tier: str, qutrits: bool) -> Circuit:
    n = int(rng.integers(1, 5))
    radixes = [int(rng.choice([2, 2, 3])) if qutrits else 2 for _ in range(n)]
    c = Circuit(n, radixes)
    for _ in range(int(rng.integers(1, 12))):
        q = int(rng.integers(n))
        r = rng.random()
        if radixes[q] == 3:
            if r < 0.4:
                c.append_gate(VariableUnitaryGate(1, [3]), q, vu_params(gen.haar(rng, [3])))
            elif r < 0.7:
                c.append_gate(U8Gate(), q, gen.rand_params(rng, 8))
            else:
                c.append_gate(gen.random_unitary_gate(rng, [3]), q)
            continue
        if r < 0.2:
            c.append_gate(VariableUnitaryGate(1), q, vu_params(gen.haar(rng, [2])))
        elif r < 0.35:
            c.append_gate(PauliGate(1), q, gen.rand_params(rng, 4))
        elif r < 0.45:
            c.append_gate(PauliZGate(1), q, gen.rand_params(rng, 2))
        elif r < 0.6:
            c.append_gate(U3Gate(), q, gen.rand_params(rng, 3))
        elif r < 0.8:
            g = GATES[POOL1[int(rng.integers(len(POOL1)))]]
            c.append_gate(g, q, gen.rand_params(rng, g.num_params))
        else:
            qs = [x for x in range(n) if radixes[x] == 2]
            if len(qs) >= 2:
                loc = [int(x) for x in rng.choice(qs, size=2, replace=False)]
                g = GATES[str(rng.choice(['CNOT', 'CZ', 'RZZ']))]
                c.append_gate(g, loc, gen.rand_params(rng, g.num_params))
            else:
                c.append_gate(gen.random_unitary_gate(rng, [radixes[q]]), q)
    return c


def _tou3_domain(rng: np.random.Generator, tier: str) -> tuple[Circuit, dict]:
    return _general_mix_circuit(rng, tier, bool(rng.random() < 0.4)), {'convert_all': bool(rng.random() < 0.5)}


def _post_converted(target_is: Callable[[Any], bool], qubit_only: bool) -> Callable:
    def f(ctx: Ctx) -> Iterator[tuple[str, dict]]:
        conv_all = ctx.opts['convert_all']
        if len(ctx.a_top) != len(ctx.b_top):
            yield 'operation_count_changed', {'ops': [len(ctx.b_top), len(ctx.a_top)]}
            return
        for (g0, l0, _), (g1, l1, _) in zip(ctx.b_top, ctx.a_top):
            if l0 != l1:
                yield 'operation_moved', {'before': [repr(g0), l0], 'after': [repr(g1), l1]}
                return
            eligible = g0.num_qudits == 1 and (not qubit_only or tuple(g0.radixes) == (2,)) \
                and (conv_all or isinstance(g0, GeneralGate))
            if eligible and not target_is(g1):
                yield 'not_converted', {'before': repr(g0), 'after': repr(g1), 'location': l0}
                return
            if not eligible and g1 != g0:
                yield 'converted_unasked', {'before': repr(g0), 'after': repr(g1), 'location': l0}
                return
    return f


def _tou3_plan(circuit: Circuit, opts: dict) -> Plan:
    from bqskit.passes.util.converttou3 import ToU3Pass
    return Plan(
        [ToU3Pass(opts['convert_all'])], 'exact',
        [_post_converted(lambda g: isinstance(g, U3Gate), True), post_radixes_same],
    )


register(Entry('ToU3Pass', ['ToU3Pass'], _tou3_domain, _tou3_plan, 40, 1500, 0.12))


def _tovar_plan(circuit: Circuit, opts: dict) -> Plan:
    from bqskit.passes.util.converttovar import ToVariablePass
    return Plan(
        [ToVariablePass(opts['convert_all'])], 'exact',
        [_post_converted(lambda g: isinstance(g, VariableUnitaryGate), False), post_radixes_same],
    )


register(Entry('ToVariablePass', ['ToVariablePass'], _tou3_domain, _tovar_plan, 40, 1500, 0.12))


def _block_circuit(rng: np.random.Generator, tier: str) -> Circuit:
    n = int(rng.integers(1, 5))
    radixes = [int(rng.choice([2, 2, 2, 3])) for _ in range(n)]
    c = Circuit(n, radixes)
    for _ in range(int(rng.integers(1, 8))):
        k = int(rng.integers(1, min(n, 3) + 1))
        loc = random_loc(rng, n, k)
        lr = [radixes[q] for q in loc]
        if refsim.dim_of(lr) > 12:
            k, loc = 1, loc[:1]
            lr = lr[:1]
        r = rng.random()
        if r < 0.3:
            c.append_gate(VariableUnitaryGate(k, lr), loc, vu_params(gen.haar(rng, lr)))
        elif r < 0.55:
            c.append_gate(gen.random_unitary_gate(rng, lr), loc)
        elif r < 0.8:
            sub = gen.mixed_radix_circuit(rng, lr, int(rng.integers(1, 4)), max_arity=2, nest=1)
            c.append_gate(CircuitGate(sub), loc, sub.params)
        elif all(x == 2 for x in lr) and k <= 2:
            g = GATES[str(rng.choice(['U3', 'H']))] if k == 1 else GATES[str(rng.choice(['CNOT', 'RZZ']))]
            c.append_gate(g, loc, gen.rand_params(rng, g.num_params))
        else:
            c.append_gate(gen.random_unitary_gate(rng, lr), loc)
    return c


def _conv_domain(rng: np.random.Generator, tier: str) -> tuple[Circuit, dict]:
    return _block_circuit(rng, tier), {
        'target': str(rng.choice(['variable', 'constant'])),
        'convert_variable': bool(rng.random() < 0.7), 'convert_constant': bool(rng.random() < 0.7),
        'convert_circuitgates': bool(rng.random() < 0.7),
    }


def _conv_plan(circuit: Circuit, opts: dict) -> Plan:
    from bqskit.passes.util.conversion import BlockConversionPass
    p = BlockConversionPass(
        opts['target'], opts['convert_variable'], opts['convert_constant'], opts['convert_circuitgates'],
    )
    tgt = VariableUnitaryGate if opts['target'] == 'variable' else ConstantUnitaryGate

    def kind_of(g: Any) -> str:
        if isinstance(g, VariableUnitaryGate):
            return 'variable'
        if isinstance(g, ConstantUnitaryGate):
            return 'constant'
        if isinstance(g, CircuitGate):
            return 'circuitgate'
        return 'other'

    def post(ctx: Ctx) -> Iterator[tuple[str, dict]]:
        if len(ctx.a_top) != len(ctx.b_top):
            yield 'operation_count_changed', {'ops': [len(ctx.b_top), len(ctx.a_top)]}
            return
        flag = {
            'variable': opts['convert_variable'], 'constant': opts['convert_constant'],
            'circuitgate': opts['convert_circuitgates'], 'other': False,
        }
        for (g0, l0, _), (g1, l1, _) in zip(ctx.b_top, ctx.a_top):
            k0 = kind_of(g0)
            if l0 != l1:
                yield 'operation_moved', {'before': [repr(g0)[:40], l0], 'after': [repr(g1)[:40], l1]}
                return
            want = flag[k0] and k0 != opts['target']
            if want and not isinstance(g1, tgt):
                yield 'not_converted:' + k0, {'before': k0, 'after': kind_of(g1), 'target': opts['target'], 'location': l0}
                return
            if not want and kind_of(g1) != k0:
                yield 'converted_unasked:' + k0, {'before': k0, 'after': kind_of(g1), 'target': opts['target'], 'location': l0}
                return
    return Plan([p], 'exact', [post, post_radixes_same])


register(Entry('BlockConversionPass', ['BlockConversionPass'], _conv_domain, _conv_plan, 40, 1500, 0.15))


def _blocked_qubit_circuit(rng: np.random.Generator, n: int, sizes: Sequence[int]) -> Circuit:
    c = Circuit(n)
    for _ in range(int(rng.integers(1, 8))):
        r = rng.random()
        if r < 0.65:
            k = int(rng.choice([s for s in sizes if s <= n]))
            sub = circuit_with(rng, k, int(rng.integers(1, 4)), [], 0.0, p3=0.0)
            c.append_gate(CircuitGate(sub), random_loc(rng, n, k), sub.params)
        else:
            g = GATES[str(rng.choice(['U3', 'H', 'CNOT', 'CZ']))]
            if g.num_qudits <= n:
                c.append_gate(g, random_loc(rng, n, g.num_qudits), gen.rand_params(rng, g.num_params))
    return c


def _extend_domain(rng: np.random.Generator, tier: str) -> tuple[Circuit, dict]:
    n = int(rng.integers(1, 6))
    o: dict[str, Any] = {
        'minimum_size': [None, 2, 2, 3][int(rng.integers(4))],
        'edges': str(rng.choice(['all', 'line', 'ring', 'star'])),
        'gateset': str(rng.choice(['cx_u3', 'ccx_u3'])),
    }
    if o['minimum_size'] is not None and o['minimum_size'] > n and rng.random() < 0.8:
        o['minimum_size'] = None if n < 2 else 2
    return _blocked_qubit_circuit(rng, n, [1, 1, 2, 3]), o


def _extend_plan(circuit: Circuit, opts: dict) -> Plan:
    from bqskit.passes.util.extend import ExtendBlockSizePass
    n = circuit.num_qudits
    gs = ['CNOT', 'U3'] if opts['gateset'] == 'cx_u3' else ['CCX', 'U3']
    msize = opts['minimum_size']
    eff = msize if msize is not None else (2 if opts['gateset'] == 'cx_u3' else 3)
    in_domain = n == 1 or eff <= n

    def post(ctx: Ctx) -> Iterator[tuple[str, dict]]:
        if n == 1:
            return
        small = [[repr(g)[:30], loc] for g, loc, _ in ctx.a_top if isinstance(g, CircuitGate) and g.num_qudits < eff]
        if small:
            yield 'block_below_minimum_size', {'minimum': eff, 'small': small[:4]}
        if qudit_sequences(ctx.b_leaf, n) != qudit_sequences(ctx.a_leaf, n):
            yield 'program_order_changed', {}
        nb = [g for g, _, _ in ctx.b_top if not isinstance(g, CircuitGate)]
        na = [g for g, _, _ in ctx.a_top if not isinstance(g, CircuitGate)]
        if Counter(nb) != Counter(na) or len(ctx.a_top) != len(ctx.b_top):
            yield 'non_block_operations_changed', {'ops': [len(ctx.b_top), len(ctx.a_top)]}
    return Plan(
        [ExtendBlockSizePass(msize)], 'exact', [post, post_radixes_same],
        data={'model': make_model(n, gs, opts['edges'])},
        in_domain=in_domain, documented_raise=['RuntimeError'],
    )


register(Entry('ExtendBlockSizePass', ['ExtendBlockSizePass'], _extend_domain, _extend_plan, 40, 1500, 0.15))


def _fill_domain(rng: np.random.Generator, tier: str) -> tuple[Circuit, dict]:
    qutrit = bool(rng.random() < 0.15)
    if qutrit:
        n = int(rng.integers(1, 4))
        c = Circuit(n, [3] * n)
        for _ in range(int(rng.integers(1, 8))):
            if rng.random() < 0.5 or n < 2:
                q = int(rng.integers(n))
                if rng.random() < 0.5:
                    c.append_gate(gen.random_unitary_gate(rng, [3]), q)
                else:
                    c.append_gate(VariableUnitaryGate(1, [3]), q, vu_params(gen.haar(rng, [3])))
            else:
                c.append_gate(CSUMGate(), random_loc(rng, n, 2))
        return c, {'gateset': 'qutrit'}
    n = int(rng.integers(1, 6))
    c = circuit_with(rng, n, int(rng.integers(1, 14)), [], 0.0, p2=float(rng.choice([0.2, 0.5, 0.8])), p3=0.08)
    return c, {'gateset': str(rng.choice(['cx_u3', 'cz_vu', 'cx_rz_sx']))}


_FILL_SETS = {
    'cx_u3': (['CNOT', 'U3'], 'U3'), 'cz_vu': (['CZ', 'VU1'], 'VU1'),
    'cx_rz_sx': (['CNOT', 'RZ', 'SX'], 'U3'),
}


def _fill_plan(circuit: Circuit, opts: dict) -> Plan:
    from bqskit.passes.util.fill import FillSingleQuditGatesPass
    n = circuit.num_qudits
    if opts['gateset'] == 'qutrit':
        model, sq = make_model(n, ['VU1_3', 'CSUM'], radix=3), GATES['VU1_3']
    else:
        gs, sqn = _FILL_SETS[opts['gateset']]
        model, sq = make_model(n, gs), GATES[sqn]

    def post(ctx: Ctx) -> Iterator[tuple[str, dict]]:
        multi = lambda g, loc: len(loc) >= 2  # noqa
        b = [(repr(g), tuple(loc)) for g, loc, _ in ctx.b_top if len(loc) >= 2]
        if qudit_sequences(ctx.b_top, n, multi) != qudit_sequences(ctx.a_top, n, multi):
            yield 'multi_qudit_gates_not_preserved', {'before': b[:6]}
        wrong = [repr(g) for g, loc, _ in ctx.a_top if len(loc) == 1 and g != sq]
        if wrong:
            yield 'single_qudit_gate_not_general', {'gates': sorted(set(wrong)), 'want': repr(sq)}
        # a single-qudit gate directly before and after every multi-qudit gate
        per_q: list[list[int]] = [[] for _ in range(n)]
        for g, loc, _ in ctx.a_top:
            for q in loc:
                per_q[q].append(len(loc))
        for q, seq in enumerate(per_q):
            for i, w in enumerate(seq):
                if w >= 2:
                    if i == 0 or seq[i - 1] != 1 or i == len(seq) - 1 or seq[i + 1] != 1:
                        yield 'multi_qudit_gate_not_surrounded', {'qudit': q, 'arity_sequence': seq}
                        return
    return Plan([FillSingleQuditGatesPass()], 'exact', [post, post_radixes_same], data={'model': model})


register(Entry('FillSingleQuditGatesPass', ['FillSingleQuditGatesPass'], _fill_domain, _fill_plan, 40, 1500, 0.15))


def _group_domain(rng: np.random.Generator, tier: str) -> tuple[Circuit, dict]:
    if rng.random() < 0.2:
        n = int(rng.integers(1, 4))
        radixes = [int(rng.choice([2, 3])) for _ in range(n)]
        return gen.mixed_radix_circuit(rng, radixes, int(rng.integers(1, 10)), max_arity=2), {}
    n = int(rng.integers(1, 6))
    return circuit_with(rng, n, int(rng.integers(1, 16)), [], 0.0, p2=float(rng.choice([0.1, 0.3, 0.6])), blocks=bool(rng.random() < 0.2)), {}


def _group_plan(circuit: Circuit, opts: dict) -> Plan:
    from bqskit.passes.partitioning.single import GroupSingleQuditGatePass
    n = circuit.num_qudits

    def post(ctx: Ctx) -> Iterator[tuple[str, dict]]:
        if qudit_sequences(ctx.b_leaf, n) != qudit_sequences(ctx.a_leaf, n):
            yield 'program_order_changed', {}
        per_q: list[list[tuple[int, bool]]] = [[] for _ in range(n)]
        for g, loc, _ in ctx.a_top:
            for q in loc:
                per_q[q].append((len(loc), isinstance(g, CircuitGate)))
        for q, seq in enumerate(per_q):
            for i, (w, isblock) in enumerate(seq):
                if w == 1 and not isblock:
                    yield 'single_qudit_gate_not_grouped', {'qudit': q, 'sequence': seq}
                    return
                if w == 1 and i > 0 and seq[i - 1][0] == 1:
                    yield 'consecutive_single_qudit_groups', {'qudit': q, 'sequence': seq}
                    return
        multi_b = [op_key(g, l, p) for g, l, p in ctx.b_top if len(l) >= 2]
        multi_a = [op_key(g, l, p) for g, l, p in ctx.a_top if len(l) >= 2]
        if Counter(multi_b) != Counter(multi_a):
            yield 'multi_qudit_operations_changed', {}
    return Plan([GroupSingleQuditGatePass()], 'exact', [post, post_radixes_same])


register(Entry('GroupSingleQuditGatePass', ['GroupSingleQuditGatePass'], _group_domain, _group_plan, 40, 1500, 0.15))


def _loose_circuit(rng: np.random.Generator) -> Circuit:
    """A circuit whose cycle layout is not compact (operations inserted at
    late cycles, operations popped from the middle)."""
    n = int(rng.integers(1, 6))
    c = circuit_with(rng, n, int(rng.integers(2, 14)), [], 0.0, blocks=bool(rng.random() < 0.15))
    for _ in range(int(rng.integers(0, 5))):
        if c.num_operations <= 1:
            break
        ops = list(c.operations_with_cycles())
        cyc, op = ops[int(rng.integers(len(ops)))]
        c.pop((cyc, op.location[0]))
    for _ in range(int(rng.integers(0, 5))):
        g = GATES[str(rng.choice(['H', 'U3', 'CNOT', 'T']))]
        if g.num_qudits > n:
            continue
        cyc = int(rng.integers(0, c.num_cycles + 1))
        c.insert_gate(cyc, g, random_loc(rng, n, g.num_qudits), gen.rand_params(rng, g.num_params))
    return c


def _compress_plan(circuit: Circuit, opts: dict) -> Plan:
    from bqskit.passes.util.compress import CompressPass
    n = circuit.num_qudits

    def post(ctx: Ctx) -> Iterator[tuple[str, dict]]:
        if qudit_sequences(ctx.b_top, n) != qudit_sequences(ctx.a_top, n):
            yield 'program_order_changed', {}
        a = ctx.after
        for cyc in range(a.num_cycles):
            if all(a.is_point_idle((cyc, q)) for q in range(n)):
                yield 'idle_cycle_left', {'cycle': cyc, 'num_cycles': a.num_cycles}
                return
        if a.num_cycles > ctx.before.num_cycles:
            yield 'cycle_count_increased', {'cycles': [ctx.before.num_cycles, a.num_cycles]}
    return Plan([CompressPass()], 'exact', [post, post_radixes_same])


register(Entry('CompressPass', ['CompressPass'], lambda rng, tier: (_loose_circuit(rng), {}), _compress_plan, 40, 1500, 0.12))


def _unfold_domain(rng: np.random.Generator, tier: str) -> tuple[Circuit, dict]:
    n = int(rng.integers(1, 5))
    radixes = [int(rng.choice([2, 2, 2, 3])) for _ in range(n)]
    return gen.mixed_radix_circuit(rng, radixes, int(rng.integers(1, 9)), max_arity=min(3, n), nest=int(rng.choice([1, 2, 3]))), {}


def _unfold_plan(circuit: Circuit, opts: dict) -> Plan:
    from bqskit.passes.util.unfold import UnfoldPass
    n = circuit.num_qudits

    def post(ctx: Ctx) -> Iterator[tuple[str, dict]]:
        left = [repr(g)[:40] for g, _, _ in ctx.a_top if isinstance(g, CircuitGate)]
        if left:
            yield 'circuit_gate_left', {'left': left[:4]}
        if qudit_sequences(ctx.b_leaf, n) != qudit_sequences(ctx.a_top, n):
            yield 'program_order_changed', {}
    return Plan([UnfoldPass()], 'exact', [post, post_radixes_same])


register(Entry('UnfoldPass', ['UnfoldPass'], _unfold_domain, _unfold_plan, 40, 1500, 0.12))


# ================================================ exported but not rewriting
_CTRL = 'control-flow pass: has no contract of its own, its body has (C11)'
_PRED = 'predicate: reads the circuit, never changes it (C11)'
_PART = 'partitioner: regroups without rewriting (C08)'
_MAP = 'placement / layout / routing / mapping bookkeeping (C09)'
_IO = 'logging / IO / bookkeeping pass that does not change the circuit'
_SEARCH = 'search-layer component (layer generator / heuristic / frontier), not a pass'
NOT_REWRITING: dict[str, str] = {
    'DoWhileLoopPass': _CTRL, 'ForEachBlockPass': _CTRL, 'IfThenElsePass': _CTRL,
    'WhileLoopPass': _CTRL, 'DoThenDecide': _CTRL, 'ParallelDo': _CTRL,
    'PassAlias': _CTRL, 'PassGroup': _CTRL, 'ClearAllBlockData': _IO,
    'NOOPPass': 'does nothing by definition',
    'PassPredicate': _PRED, 'ChangePredicate': _PRED, 'GateCountPredicate': _PRED,
    'NotPredicate': _PRED, 'WidthPredicate': _PRED, 'PhysicalPredicate': _PRED,
    'SinglePhysicalPredicate': _PRED, 'MultiPhysicalPredicate': _PRED,
    'ManyQuditGatesPredicate': _PRED, 'NoSingleQuditGatesInModel': _PRED,
    'HasGeneralSingleQuditGate': _PRED, 'ZXGatePredicate': _PRED,
    'AllConstantSingleQuditGates': _PRED,
    'ClusteringPartitioner': _PART, 'GreedyPartitioner': _PART, 'ScanPartitioner': _PART,
    'QuickPartitioner': _PART, 'GTQCPartitioner': _PART, 'TDAGPartitioner': _PART,
    'SynthesisPass': 'abstract base class of the synthesis passes',
    'SetTargetPass': 'sets PassData.target, does not touch the circuit (C03)',
    'RecordStatsPass': _IO, 'SetRandomSeedPass': _IO, 'UpdateDataPass': _IO,
    'LogPass': _IO, 'LogErrorPass': _IO, 'StructureAnalysisPass': _IO,
    'LoadCheckpointPass': _IO, 'SaveCheckpointPass': _IO,
    'SaveIntermediatePass': _IO, 'RestoreIntermediatePass': _IO,
    'DiscreteLayerGenerator': _SEARCH, 'SimpleLayerGenerator': _SEARCH,
    'AStarHeuristic': _SEARCH, 'GreedyHeuristic': _SEARCH, 'DijkstraHeuristic': _SEARCH,
    'Frontier': _SEARCH, 'LayerGenerator': _SEARCH, 'HeuristicFunction': _SEARCH,
    'SeedLayerGenerator': _SEARCH, 'StairLayerGenerator': _SEARCH,
    'SingleQuditLayerGenerator': _SEARCH, 'MiddleOutLayerGenerator': _SEARCH,
    'FourParamGenerator': _SEARCH, 'WideLayerGenerator': _SEARCH,
    'SetModelPass': _MAP, 'GeneralizedSabreLayoutPass': _MAP, 'GreedyPlacementPass': _MAP,
    'TrivialPlacementPass': _MAP, 'StaticPlacementPass': _MAP,
    'GeneralizedSabreRoutingPass': _MAP, 'ApplyPlacement': _MAP, 'PAMLayoutPass': _MAP,
    'PAMRoutingPass': _MAP, 'EmbedAllPermutationsPass': _MAP,
    'SubtopologySelectionPass': _MAP, 'ExtractModelConnectivityPass': _MAP,
    'RestoreModelConnectivityPass': _MAP, 'TagPAMBlockDataPass': _MAP,
    'CalculatePAMErrorsPass': _MAP, 'UnTagPAMBlockDataPass': _MAP,
    'PAMVerificationSequence': _MAP,
    'ExtractMeasurements': 'moves MeasurementPlaceholder pseudo-operations only; no unitary semantics (C01)',
    'RestoreMeasurements': 'moves MeasurementPlaceholder pseudo-operations only; no unitary semantics (C01)',
}


def covered_names() -> set[str]:
    out: set[str] = set()
    for e in CATALOGUE.values():
        out.update(e.covers)
    return out


def uncovered() -> list[str]:
    """Names exported by bqskit.passes that are neither in the catalogue nor
    explicitly listed as not rewriting."""
    import bqskit.passes as bp
    cov = covered_names()
    return sorted({n for n in bp.__all__ if n not in cov and n not in NOT_REWRITING})


def unscanned_rewriters() -> list[str]:
    """BasePass subclasses defined under the anchored rewriting packages that
    the catalogue does not exercise (even if not exported)."""
    import importlib
    import inspect
    import pkgutil
    from bqskit.compiler.basepass import BasePass
    names = set()
    for pkg in ('bqskit.passes.rules', 'bqskit.passes.retarget', 'bqskit.passes.processing'):
        m = importlib.import_module(pkg)
        for info in pkgutil.iter_modules(m.__path__):
            mod = importlib.import_module(pkg + '.' + info.name)
            for n, obj in inspect.getmembers(mod, inspect.isclass):
                if issubclass(obj, BasePass) and obj.__module__ == mod.__name__:
                    names.add(n)
    have = set(CATALOGUE) | covered_names()
    return sorted(n for n in names if n not in have)
