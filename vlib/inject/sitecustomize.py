"""Import-time monitor injection into child interpreters (DESIGN 2.3).

Inert unless VERIF_INJECT=1. VERIF_MON is a comma-separated list of monitor
names; for each name N the module `mon_N.py` next to this file is imported and
its `install()` is called. Monitors must only observe: they never raise into
the code they wrap. A failure to install is reported on stderr and otherwise
ignored (the checks notice a silent monitor through their counters).
"""
import os
import sys


def _boot() -> None:
    if os.environ.get('VERIF_INJECT') != '1':
        return
    here = os.path.dirname(os.path.abspath(__file__))
    names = [x.strip() for x in os.environ.get('VERIF_MON', '').split(',') if x.strip()]
    if not names:
        return
    import importlib.util
    for n in names:
        path = os.path.join(here, 'mon_%s.py' % n)
        if not os.path.exists(path):
            continue
        try:
            spec = importlib.util.spec_from_file_location('verif_mon_' + n, path)
            mod = importlib.util.module_from_spec(spec)  # type: ignore
            sys.modules['verif_mon_' + n] = mod
            spec.loader.exec_module(mod)  # type: ignore
            mod.install()
        except Exception as e:  # noqa
            sys.stderr.write('verif sitecustomize: monitor %s failed: %r\n' % (n, e))


_boot()
