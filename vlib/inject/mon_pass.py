"""In-situ pass monitor (DESIGN 2.4), injected into the runtime's workers.

Wraps `run` of every `BasePass` subclass at class-creation time (through
`BasePass.__init_subclass__`, installed right after
`bqskit.compiler.basepass` is executed) with an `async def` that awaits the
original. For circuits of <= VERIF_MON_MAXQ (6) qudits it snapshots the
independent simulator's unitary before and after and appends one JSON line
per pass execution to $VERIF_LOGDIR/pass-<pid>.jsonl:

  name, cls (numeric | structural | mapping | control | target | measure),
  n (width), ops0/ops1, changed (operation list differs), cost (degree-1 cost
  between before and after; for routing the mapped cost under the change of
  final_mapping), tcost (cost of the result against data.target when that is a
  unitary of the same dimension), limit, bad.

The events give the count k of accepted numerical rewrites for the budget
rule, the blame for an end-to-end alarm, and in-situ coverage. They never
decide a verdict on their own and the wrapper never raises.
"""
from __future__ import annotations

import functools
import importlib.abc
import importlib.machinery
import json
import os
import sys
import time

MAXQ = int(os.environ.get('VERIF_MON_MAXQ', '6'))
try:
    EPS = float(os.environ.get('VERIF_MON_EPS', '1e-8'))
except ValueError:
    EPS = 1e-8

NUMERIC_BASES = {
    'SynthesisPass', 'ScanningGateRemovalPass', 'Rebase2QuditGatePass',
    'ExhaustiveGateRemovalPass', 'SubstitutePass', 'QSDPass', 'FullQSDPass',
    'MGDPass', 'BlockZXZPass', 'FullBlockZXZPass', 'ExtractDiagonalPass',
}
MAPPING = {
    'GreedyPlacementPass', 'GeneralizedSabreLayoutPass',
    'GeneralizedSabreRoutingPass', 'PAMLayoutPass', 'PAMRoutingPass',
    'ApplyPlacement', 'SubtopologySelectionPass', 'StaticPlacementPass',
    'TrivialPlacementPass', 'EmbedAllPermutationsPass',
}
CONTROL = {
    'ForEachBlockPass', 'IfThenElsePass', 'WhileLoopPass', 'DoWhileLoopPass',
    'DoThenDecide', 'ParallelDo', 'PassGroup', 'Workflow', 'PassAlias',
    'PAMVerificationSequence', 'IterativeScanningGateRemovalPass',
}
MEASURE = {'ExtractMeasurements', 'RestoreMeasurements'}
TARGET = {'SetTargetPass', 'SetModelPass'}

_fd = None
_fd_pid = None
_inflight: set = set()


def _emit(ev: dict) -> None:
    global _fd, _fd_pid
    d = os.environ.get('VERIF_LOGDIR')
    if not d:
        return
    pid = os.getpid()
    if _fd is None or _fd_pid != pid:  # lazily, after fork
        _fd = os.open(
            os.path.join(d, 'pass-%d.jsonl' % pid),
            os.O_WRONLY | os.O_CREAT | os.O_APPEND, 0o644,
        )
        _fd_pid = pid
    ev['pid'] = pid
    ev['t'] = time.monotonic_ns()
    os.write(_fd, (json.dumps(ev) + '\n').encode())


def _classify(klass: type) -> str:
    names = [c.__name__ for c in klass.__mro__]
    if names[0] in CONTROL or any(n in ('Workflow', 'PassAlias') for n in names):
        return 'control'
    if names[0] in MAPPING:
        return 'mapping'
    if names[0] in MEASURE:
        return 'measure'
    if names[0] in TARGET:
        return 'target'
    if any(n in NUMERIC_BASES for n in names):
        return 'numeric'
    return 'structural'


def _is_placeholder(g: object) -> bool:
    return type(g).__name__ in ('BarrierPlaceholder', 'MeasurementPlaceholder', 'Reset')


def _snap(circuit: object, data: object) -> dict:
    s: dict = {'n': circuit.num_qudits, 'ops': circuit.num_operations}  # type: ignore
    sig = []
    items = []
    small = circuit.num_qudits <= MAXQ  # type: ignore
    for op in circuit:  # type: ignore
        sig.append((repr(op.gate), tuple(op.location), tuple(round(float(p), 12) for p in op.params)))
        if small and not _is_placeholder(op.gate):
            import numpy as np
            items.append((np.asarray(op.get_unitary()), tuple(op.location)))
    s['sig'] = sig
    s['radixes'] = [int(r) for r in circuit.radixes]  # type: ignore
    if small:
        from vlib import refsim
        s['U'] = refsim.unitary_of_items(items, s['radixes'])
    try:
        s['fm'] = [int(x) for x in data.final_mapping]  # type: ignore
        s['im'] = [int(x) for x in data.initial_mapping]  # type: ignore
        s['pl'] = [int(x) for x in data.placement]  # type: ignore
    except Exception:  # noqa
        pass
    return s


def _event(name: str, cls: str, s0: dict, s1: dict, data: object, dt: float) -> dict:
    ev: dict = {
        'ev': 'pass', 'name': name, 'cls': cls, 'n': s0['n'], 'n1': s1['n'],
        'ops0': s0['ops'], 'ops1': s1['ops'], 'changed': s0['sig'] != s1['sig'],
        'dt': round(dt, 4),
    }
    cost = None
    tcost = None
    try:
        from vlib import refsim
        if 'U' in s0 and 'U' in s1 and s0['radixes'] == s1['radixes']:
            if cls == 'mapping' and s0.get('fm') != s1.get('fm'):
                f0, f1 = s0['fm'], s1['fm']
                n = s0['n']
                if sorted(f0) == list(range(n)) and sorted(f1) == list(range(n)):
                    pi = [0] * n
                    for a, b in zip(f0, f1):
                        pi[a] = b
                    cost = refsim.mapped_cost(
                        s0['U'], s1['U'], list(range(n)), pi, s0['radixes'], s0['radixes'],
                    )[0]
                    ev['routed'] = True
            elif name == 'ApplyPlacement' and s0.get('pl') is not None and len(s0['pl']) == s0['n']:
                # same width: the circuit is re-embedded along the placement
                cost = refsim.mapped_cost(
                    s0['U'], s1['U'], s0['pl'], s0['pl'], s0['radixes'], s0['radixes'],
                )[0]
            elif cls == 'mapping' and (s0.get('pl') != s1.get('pl') or s0.get('im') != s1.get('im')):
                cost = None   # no contract written down for this change
            else:
                cost = refsim.cost1(s0['U'], s1['U'])
        if 'U' in s1 and cls in ('numeric',):
            tgt = getattr(data, '_target', None)
            if type(tgt).__name__ == 'UnitaryMatrix' and tgt.shape == s1['U'].shape:
                import numpy as np
                tcost = refsim.cost1(np.asarray(tgt), s1['U'])
    except Exception as e:  # noqa
        ev['mon_error'] = repr(e)[:120]
    ev['cost'] = cost
    ev['tcost'] = tcost
    if cls == 'numeric':
        limit = max(EPS, 1e-8) * 1.0001 + 1e-12
        c = [x for x in (cost, tcost) if x is not None]
        ev['limit'] = limit
        ev['bad'] = bool(c and min(c) > limit)
    elif cls in ('structural', 'mapping', 'measure', 'target'):
        limit = 1e-10 * (s0['ops'] + s1['ops'] + 1)
        ev['limit'] = limit
        ev['bad'] = bool(cost is not None and cost > limit)
    if name == 'PAMRoutingPass':
        ev['blocks'] = sum(1 for x in s0['sig'] if x[0].startswith('CircuitGate'))
    try:
        ev['fm_changed'] = s0.get('fm') != s1.get('fm')
        ev['pl_changed'] = s0.get('pl') != s1.get('pl')
    except Exception:  # noqa
        pass
    return ev


def _wrap(klass: type, fn):  # type: ignore
    if getattr(fn, '_verif_wrapped', False):
        return fn

    @functools.wraps(fn)
    async def run(self, circuit, data):  # type: ignore
        key = (id(self), id(circuit))
        if key in _inflight or not os.environ.get('VERIF_LOGDIR'):
            return await fn(self, circuit, data)
        _inflight.add(key)
        s0 = None
        try:
            try:
                cls = _classify(type(self))
                if cls != 'control':
                    s0 = _snap(circuit, data)
            except Exception:  # noqa
                s0 = None
                cls = 'unknown'
            t0 = time.monotonic()
            ret = await fn(self, circuit, data)
            try:
                name = type(self).__name__
                if cls == 'control' or s0 is None:
                    _emit({'ev': 'pass', 'name': name, 'cls': cls, 'n': circuit.num_qudits})
                else:
                    s1 = _snap(circuit, data)
                    _emit(_event(name, cls, s0, s1, data, time.monotonic() - t0))
            except Exception as e:  # noqa
                try:
                    _emit({'ev': 'mon_error', 'name': type(self).__name__, 'err': repr(e)[:200]})
                except Exception:  # noqa
                    pass
            return ret
        finally:
            _inflight.discard(key)

    run._verif_wrapped = True  # type: ignore
    return run


def _patch_basepass(mod: object) -> None:
    BasePass = mod.BasePass  # type: ignore
    if getattr(BasePass, '_verif_patched', False):
        return

    orig = BasePass.__dict__.get('__init_subclass__')

    def __init_subclass__(cls, **kw):  # type: ignore
        if orig is not None:
            orig.__func__(cls, **kw)
        else:
            super(BasePass, cls).__init_subclass__(**kw)
        try:
            f = cls.__dict__.get('run')
            if f is not None and callable(f):
                setattr(cls, 'run', _wrap(cls, f))
        except Exception:  # noqa
            pass

    BasePass.__init_subclass__ = classmethod(__init_subclass__)  # type: ignore
    BasePass._verif_patched = True


class _Finder(importlib.abc.MetaPathFinder):
    target = 'bqskit.compiler.basepass'

    def find_spec(self, name, path, target=None):  # type: ignore
        if name != self.target:
            return None
        for f in sys.meta_path:
            if f is self:
                continue
            try:
                spec = f.find_spec(name, path, target)  # type: ignore
            except Exception:  # noqa
                spec = None
            if spec is not None and spec.loader is not None:
                loader = spec.loader
                orig_exec = loader.exec_module

                def exec_module(module, _orig=orig_exec):  # type: ignore
                    _orig(module)
                    try:
                        _patch_basepass(module)
                    except Exception as e:  # noqa
                        sys.stderr.write('verif mon_pass: patch failed %r\n' % (e,))

                try:
                    loader.exec_module = exec_module  # type: ignore
                except Exception:  # noqa
                    return None
                return spec
        return None


def install() -> None:
    if 'bqskit.compiler.basepass' in sys.modules:
        _patch_basepass(sys.modules['bqskit.compiler.basepass'])
        return
    sys.meta_path.insert(0, _Finder())
