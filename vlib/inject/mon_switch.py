"""Stress plugin for real runtime processes: sets the interpreter's thread
switch interval (VERIF_SWITCHINT seconds) so the two threads of a worker and
the two threads of a server change places far more often than with the
default 5 ms. Observes nothing and changes no behaviour the language does not
already allow."""
from __future__ import annotations

import os
import sys


def install() -> None:
    v = os.environ.get('VERIF_SWITCHINT')
    if v:
        sys.setswitchinterval(float(v))
