"""Child process of a real-process stress case (C07): owns the client, starts
a real runtime on private ports, submits the trees of the case in waves of
`wave` concurrent compilations and fetches their results; reports one JSON
line per event on stdout. The parent watches for hangs from outside."""
from __future__ import annotations

import json
import os
import sys
import time
from typing import Any

ROOT = os.path.dirname(os.path.dirname(os.path.abspath(__file__)))
sys.path.insert(0, ROOT)


def emit(**kw: Any) -> None:
    sys.stdout.write(json.dumps(kw, default=repr) + '\n')
    sys.stdout.flush()


def main() -> None:
    case = json.load(open(sys.argv[1]))
    from bqskit.ir.circuit import Circuit

    from vlib import compiledrv
    from vlib import procnet as P
    from vlib.simnet import workloads as WL
    env = dict(case.get('env') or {})
    if case['topology'] == 'attached':
        comp = compiledrv.new_compiler(int(case['workers']), env=env)
        roots = [comp.p.pid]
    else:
        det = P.Detached(list(case['managers']), env=env)
        roots = [p.pid for p in det.procs]
        emit(ev='spawned', roots=roots)
        try:
            comp = det.connect(120)
        except BaseException:
            det.kill_all()
            raise
    emit(ev='up', roots=roots)
    try:
        out = comp.compile(Circuit(1), [WL.ProbePass()], True)
        emit(ev='probe', switch_interval=out[1].get('switch_interval', None))
    except BaseException as e:  # noqa
        emit(ev='probe', error=P.exc_text(e)[-300:])
    trees = case['trees']
    wave = max(1, int(case.get('wave', 1)))
    cancel = set(case.get('cancel') or [])
    i = 0
    while i < len(trees):
        chunk = list(range(i, min(len(trees), i + wave)))
        i += wave
        emit(ev='calling', label='wave@%d' % chunk[0])
        ids = {}
        try:
            if len(chunk) == 1:
                k = chunk[0]
                out = comp.compile(Circuit(1), [WL.TreePass(trees[k])], True)
                emit(ev='ret', idx=k, outcome='value', value=out[1].get('tree_result', None))
            else:
                for k in chunk:
                    ids[k] = comp.submit(Circuit(1), [WL.TreePass(trees[k])], True)
                order = chunk if not case.get('reverse_fetch') else chunk[::-1]
                dropped = [k for k in order if k in cancel]
                if dropped and case.get('cancel_delay'):
                    time.sleep(float(case['cancel_delay']))
                for k in dropped:
                    comp.cancel(ids[k])
                    emit(ev='cancelled', idx=k)
                order = [k for k in order if k not in cancel]
                for k in order:
                    out = comp.result(ids[k])
                    emit(ev='ret', idx=k, outcome='value', value=out[1].get('tree_result', None))
        except BaseException as e:  # noqa
            emit(ev='ret', idx=chunk[0], outcome='raise', msg=P.exc_text(e)[-600:])
            break
    if case.get('probe_tables'):
        # the client has every answer it is going to get: the system is idle
        # as far as this client can tell. CANCELs still travel, so probe a
        # few times; only a table entry present in every probe is stale.
        for attempt in range(int(case.get('probe_attempts', 4))):
            time.sleep(0.5 if attempt == 0 else 1.5)
            emit(ev='calling', label='probe')
            try:
                out = comp.compile(Circuit(1), [WL.TableProbePass(int(case['probe_tables']))], True)
                t = out[1].get('tables', None)
                emit(ev='tables', attempt=attempt, tables=t)
                if t and all(x[1] == 0 and x[4] == 0 and x[3] == (1 if x[0] == t['root_worker'] else 0) for x in t['leaves']):
                    break
            except BaseException as e:  # noqa
                emit(ev='tables', attempt=attempt, error=P.exc_text(e)[-400:])
                break
    emit(ev='calling', label='close')
    try:
        comp.close()
        emit(ev='closed')
    except BaseException as e:  # noqa
        emit(ev='closed', error=P.exc_text(e)[-200:])


if __name__ == '__main__':
    main()
