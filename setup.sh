#!/bin/sh
# Offline setup: nothing to build. The checks are Python run by /venv/bin/python,
# which has /repo installed editable, so they always execute /repo's working tree.
set -e
cd "$(dirname "$0")"
mkdir -p evidence out/replays
/venv/bin/python -c "import bqskit, numpy, scipy, networkx, jsonschema, dill; print('deps ok', bqskit.__file__)"
chmod +x check
