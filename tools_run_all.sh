#!/bin/sh
# Runs every claimed check (quick by default) against /repo's working tree and
# leaves the evidence files it rewrote in evidence/. Usage: ./tools_run_all.sh [quick|thorough] [seed]
cd "$(dirname "$0")"
mkdir -p out
TIER=${1:-quick}
SEED=${2:-0}
rc=0
for id in $(/venv/bin/python -c "import json;print(' '.join(c['property_id'] for c in json.load(open('MANIFEST.json'))['checks']))"); do
  start=$(date +%s)
  VERIF_SEED=$SEED PYTHONHASHSEED=0 ./check $id --tier $TIER > out/last_$id.log 2>&1
  e=$?
  echo "$id exit=$e $(( $(date +%s) - start ))s $(grep -E '^C[0-9]+ tier' out/last_$id.log | cut -c1-120)"
  [ $e -ne 0 ] && rc=1
done
exit $rc
