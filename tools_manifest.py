#!/venv/bin/python
"""Regenerates MANIFEST.json from the table below (single source of truth)."""
import json, os
ROOT = os.path.dirname(os.path.abspath(__file__))

CHECKS = {
    # id: (level category, technique, level text, level note, engine, design_ref)
    'C20': ('exploration',
            'differential runtime monitor: brute-force graph/permutation/Kronecker definitions + networkx vs the real utilities, exhaustive over small labelled graphs',
            'Every public answer of CouplingGraph/PermutationMatrix/UnitaryMatrix/UnitaryBuilder is compared with an independent brute-force definition on all labelled graphs with <=5 (quick) / <=6 (thorough) vertices, all (partial) qudit locations on <=4/5 qudits with radix 2-4, and seeded random weighted graphs up to 12 vertices. Held = no disagreement on any executed input; exhaustive only for the stated small sub-space.',
            'Trusted: the brute-force definitions in props/c20.py, networkx, numpy. Self-distance of all_pairs_shortest_path and hop-count semantics of get_shortest_path_tree are taken from the implementation docs.',
            'differential', 'DESIGN.md §3 C20'),
}

NOT_YET = {}

def main():
    props = [json.loads(l) for l in open(os.path.join(ROOT, 'properties.jsonl'))]
    checks = []
    na = []
    for p in props:
        pid = p['id']
        if pid in CHECKS:
            cat, tech, text, note, engine, ref = CHECKS[pid]
            checks.append({
                'property_id': pid,
                'quick_cmd': './check %s --tier quick' % pid,
                'thorough_cmd': './check %s --tier thorough' % pid,
                'evidence_file': 'evidence/%s.json' % pid,
                'replay_cmd_template': './check %s --replay {path}' % pid,
                'engine': engine,
                'level_claimed': {'category': cat, 'text': text, 'design_ref': ref},
                'level_note': note,
                'technique': tech,
            })
        else:
            na.append({'property_id': pid, 'reason': NOT_YET.get(pid, 'check under construction in this build phase; not claimed until it runs clean on the unchanged tree')})
    man = {
        'version': 1,
        'setup_cmd': './setup.sh',
        'hooks': {
            'guard': 'BQSKIT_VERIF',
            'enable': 'checks export BQSKIT_VERIF=1; monitors are attached from outside the repository (wrapping, sys.monitoring, in-memory transport), so no source hook is compiled in',
            'baseline_off_cmd': 'cd /repo && env -u BQSKIT_VERIF -u VERIF_INJECT /venv/bin/python -m pytest -ra -q -p no:cacheprovider --timeout=900 --continue-on-collection-errors',
            'source_commits': [],
            'add_only': True,
        },
        'engines': [
            {'name': 'differential', 'path': 'vlib/refsim.py', 'serves_properties': ['C06', 'C18', 'C19', 'C20'], 'kind_free_text': 'independent numpy reference simulator / brute-force definitions used as runtime oracles'},
        ],
        'checks': checks,
        'not_applicable': na,
        'notes': 'Technique family: runtime monitoring. All checks run /repo\'s working tree through the editable install in /venv. Exit 0 held / 1 VIOLATION / 2 INCONCLUSIVE.',
    }
    with open(os.path.join(ROOT, 'MANIFEST.json'), 'w') as f:
        json.dump(man, f, indent=1)
        f.write('\n')
    import jsonschema
    jsonschema.validate(man, json.load(open('/root/.vp/MANIFEST.schema.json')))
    print('MANIFEST.json written:', len(checks), 'checks,', len(na), 'not_applicable')

if __name__ == '__main__':
    main()
