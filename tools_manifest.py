#!/venv/bin/python
"""Regenerates MANIFEST.json from the table below (single source of truth)."""
import json, os
ROOT = os.path.dirname(os.path.abspath(__file__))

SIM_NOTE = ('Trusted: the simnet transport/process model (reliable per-channel FIFO, EOF on close, process = thread group, virtual sleep), '
            'the task-tree interpreter in vlib/simnet/workloads.py and the offline checkers in vlib/simnet/scen.py. '
            'All runtime classes, handlers, tables, pickling and both worker threads are /repo\'s own code. Schedules not executed are not covered.')

CHECKS = {
    # id: (level category, technique, level text, level note, engine, design_ref)
    'C01': ('exploration',
            'end-to-end runtime monitor of bqskit.compile(): independent isometry check under the reported mappings (refsim) + measurement relocation check',
            'Generated circuits x machine models x optimization levels are compiled by the real compile() on real runtime processes; an independent simulator decides the mapped-equivalence statement with a budget proportional to synthesis_epsilon and checks measurement placeholders. Held = no violation on the executed cases (counts and branches taken are in the evidence).',
            'Trusted: vlib/refsim.py (self-checking numpy simulator), each gate\'s own get_unitary (C18 covers those), the budget rule of DESIGN 2.2. Levels 3-4 only on small inputs.',
            'compile-driver', 'DESIGN.md 3 C01'),
    'C02': ('exploration',
            'independent executability checker (width, radixes, native gates, coupling) on compile() outputs + differential test of MachineModel.is_compatible',
            'compile() outputs for circuit/unitary/state/state-system inputs over varied models are checked by an independent compatibility checker, and MachineModel.is_compatible is compared with it on compiled outputs, random circuits and single-step corruptions with identity/monotone/non-monotone placements.',
            'Trusted: the independent checker in vlib/compilechk.py. Inputs limited to small widths so many models are visited.',
            'compile-driver', 'DESIGN.md 3 C02'),
    'C03': ('exploration',
            'runtime monitor of direct synthesis: distance of the compiled circuit to the target unitary / state / state system recomputed by refsim; list-order check',
            'Structured and Haar-random targets (1-3 qudits quick, up to 4 thorough, qubits and qutrits) are compiled by the real compile(); the result is compared with the target in the code\'s own metric within the synthesis budget; list inputs are checked for length and order.',
            'Trusted: vlib/refsim.py, the budget rule. Levels 3-4 only on tiny inputs in quick.',
            'compile-driver', 'DESIGN.md 3 C03'),
    'C04': ('exploration',
            'history monitor: step-wise list-of-cycles reference model vs the real Circuit after every public editing call; refsim unitary cross-check; exhaustive short histories',
            'Random editing histories (10-80 calls, 2-7 qudits, arguments drawn from the current state, 10% invalid) and all short histories over reduced alphabets are executed on the real Circuit; before each call the model reads the grid through the public read API, predicts the per-qudit operation sequences from the documented meaning, compares after the call and re-synchronises.',
            'Trusted: the reference model in vlib/history.py (documented-meaning definitions), refsim. Cycle-layout freedom is never compared.',
            'history', 'DESIGN.md 3 C04'),
    'C05': ('exploration',
            'invariant monitor after every editing call: grid = dependency links = counters = iteration, via the public read API; internal-error rule for valid calls',
            'Same histories as C04; after every call (raising or not) the views of the circuit are recomputed from the grid and compared with next/prev/front/rear, counters, coupling graph, depth and iteration orders; an exception of internal type on model-valid arguments is a violation.',
            'Trusted: the invariant definitions in vlib/history.py. Only public read API is used.',
            'history', 'DESIGN.md 3 C05'),
    'C06': ('exploration',
            'differential runtime monitor: Circuit simulation, gradients, parameter-vector API and restricted iteration vs an independent numpy simulator and finite differences',
            'Generated circuits (mixed radixes 2-4, permuted/non-adjacent locations, nested CircuitGates, frozen parameters, circuits after structural edits) are evaluated by the real get_unitary/get_statevector/get_grad/param API and compared with refsim\'s ordered product, central differences and brute-force grid filters.',
            'Trusted: vlib/refsim.py (cross-checks itself with an explicit Kronecker implementation), numpy.',
            'differential', 'DESIGN.md 3 C06'),
    'C07': ('exploration',
            'deterministic simulation of the real runtime classes (in-memory transport, serialized seeded scheduler, sys.monitoring line-level pre-emption of worker threads) + offline history checker with unique task tags; plus a real-process stress tier (real runtime processes and sockets, lowered thread switch interval) whose returned values are compared with an interpreter of the documented semantics',
            'The unmodified Worker/AttachedServer/DetachedServer/Manager/Compiler classes run task trees (submit/map/await/next) under seeded delivery orders, random line-level pre-emption and a systematic single pre-emption at every (thread,function,line,occurrence) of the await/result/step paths; the recorded history is checked for result integrity, next() batch disjointness/completeness, exactly-once execution, no spurious error and progress (quiescence with every client answered). The real-process tier runs the same grammar on real attached/detached runtimes in waves of concurrent compilations. Held = no violation on the executed schedules.',
            SIM_NOTE, 'simnet', 'DESIGN.md 2.5, 3 C07'),
    'C08': ('exploration',
            'pass-level runtime monitor through a real Compiler: unfold of the partitioned circuit vs per-qudit operation sequences of the input; block width; placeholder position; refsim unitary',
            'Generated circuits (width 2-20, 1/2/3-qudit gates, barriers, measurements, resets, pre-blocked inputs) are partitioned by every partitioner on real runtime workers; the output is checked for block width, exact per-qudit operation sequences after unfolding, placeholders staying top-level and in place, and unitary equality for small widths.',
            'Trusted: per-qudit sequence comparison in props/c08.py, refsim.',
            'pass-driver', 'DESIGN.md 3 C08'),
    'C09': ('exploration',
            'translation validation of mapping by swap stripping + refsim isometry under the recorded mappings + coupling check, through a real Compiler',
            'Placement/layout/routing workflows (SABRE and PAM) run on generated circuits and connected graphs; the output is walked maintaining the permutation implied by swaps and must reproduce the input per logical qudit from initial_mapping to final_mapping; all multi-qudit operations must sit on connected physical qudits; mapped_cost must be within floor/budget.',
            'Trusted: the swap-stripping walker in vlib/mapchk.py, refsim. Inputs to the walker contain no SwapGate of their own.',
            'pass-driver', 'DESIGN.md 3 C09'),
    'C10': ('exploration',
            'per-pass contract monitor through a real Compiler: refsim distance before/after within the pass\'s own threshold budget + advertised postconditions; catalogue completeness check',
            'Every rewriting pass exported by bqskit.passes is run on inputs from its domain generator with its behaviour-changing options; unitary preservation is exact for structural/rule passes and within the success-threshold budget for numerical ones; postconditions (source gate gone, only target gates introduced, no gate-count increase) are checked. A pass in neither the catalogue nor the explicit exclusion list makes the check inconclusive.',
            'Trusted: vlib/passcat.py contracts (read off each pass\'s documentation), refsim.',
            'pass-driver', 'DESIGN.md 3 C10'),
    'C11': ('exploration',
            'instrumented-body trace monitor: ForEachBlockPass and control-flow passes run with recording bodies/predicates on real workers; trace vs a small interpreter of the documented semantics; write-back model; error-bound inequality',
            'Partitioned circuits with scripted filters and instrumented bodies (identity, equivalent, shrinking, growing, perturbing, failing) run through the real ForEachBlockPass and control passes; recorded fingerprints, write-back positions, replaced flags, error bound and PassData restoration are compared with the specification interpreter.',
            'Trusted: the interpreter in props/c11.py, workloads in vlib/workloads.py.',
            'pass-driver', 'DESIGN.md 3 C11'),
    'C12': ('exploration',
            'deterministic simulation of the real runtime + history/table checker: no delivery after cancel, no descendant start after every worker processed the CANCEL, tables empty at quiescence, bystanders correct; plus a real-process tier (client cancels racing real runtimes, bystander values compared with the interpreter, worker tables read from inside the workers by a probing compilation)',
            'Task trees with in-task cancels at every kind of point, client cancel(task_id), client close()/abrupt death with work in flight, with bystander compilations, under seeded delivery orders and line-level pre-emption; at every quiescent point the tables of every worker/manager/server are read and must hold nothing of cancelled or finished work.',
            SIM_NOTE + ' The tombstone set of cancelled ids and id->connection retention while a client stays connected are excluded, as the statement does.',
            'simnet', 'DESIGN.md 3 C12'),
    'C13': ('exploration',
            'deterministic simulation of the real runtime + per-task client state machine, error-message propagation check, isolation check and liveness probe by a fresh client',
            'Trees with a raising body at every position class, all request sequences up to the length bound over {status,result,cancel} x {own id, never-issued id, another client\'s id} and random longer histories with 2-4 clients are issued by the real Compiler methods against a simulated detached server; replies must fit the state machine, errors must carry the body\'s message, other clients\' tasks must be undisturbed and a fresh client must still be served afterwards.',
            SIM_NOTE, 'simnet', 'DESIGN.md 3 C13'),
    'C14': ('fault_enumeration',
            'crash-point enumeration in the deterministic simulation (kill each worker/manager after every step of base schedules, plus double crashes) + real-process SIGKILL injection with a stable-hang detector',
            'For each base execution every worker and manager is killed after step i for every i (strided to a cap) between "runtime up" and the end; client outcome must be an exception or the complete correct result, quiescence with a blocked client is a hang, and survivors must terminate. A real-process tier kills real workers/managers (self-SIGKILL inside a chosen task body phase, or SIGKILL from outside while busy/idle) and decides hangs by "call not returned and every surviving process asleep with CPU time not advancing".',
            SIM_NOTE + ' Real-process tier: wall-clock only ever yields inconclusive; a hang needs all processes in state S with unchanged CPU time over three samples.',
            'simnet+procnet', 'DESIGN.md 3 C14'),
    'C15': ('exploration',
            'deterministic simulation of the real runtime + counter invariants read between handlers after every scheduler step, exactly-once assignment from the message history, quiescent-belief comparison with ground truth',
            'Wide-map task trees under starvation-heavy delivery orders (forcing WAITING to cross SUBMIT_BATCH) on 1-4 workers / 1-3 managers; after every step the idle/num_tasks counters of every node parked in select() are checked for bounds; the history is checked for every task being delivered to exactly one worker; at quiescence a directly-managing boss must believe (0 tasks, idle) for every worker.',
            SIM_NOTE, 'simnet', 'DESIGN.md 3 C15'),
    'C16': ('exploration',
            'round-trip monitor: ForkingPickler/dill round trip, copy() aliasing probe and become() field comparison through the public API on generated objects',
            'Circuits reached by editing histories, every gate construction, models, PassData with every reserved key, nested workflows and runtime tasks are pickled through the transport\'s exact path and compared by public API (layout, params, unitary, hash/eq); copies are mutated to prove no shared mutable state; become() is compared field by field.',
            'Trusted: the comparison functions in vlib/rtchk.py, refsim.',
            'differential', 'DESIGN.md 3 C16'),
    'C17': ('translation_validation',
            'translation validation of the OpenQASM 2 front end: encode/decode round trip + differential against qiskit.qasm2.loads on grammar-generated programs (unitary up to bit order and global phase)',
            'Every QASM-expressible gate is round-tripped; grammar-generated programs in the supported subset are parsed by BQSKit and by Qiskit and the unitaries compared (cost1 <= 1e-10); measurement/reset targets compared structurally; rejections of listed features and non-LangException crashes are violations.',
            'Trusted: qiskit.qasm2 + qiskit Operator as the independent implementation, refsim.',
            'differential', 'DESIGN.md 3 C17'),
    'C18': ('exploration',
            'gate contract monitor: unitarity, finite-difference gradients, inverse, calc_params/optimize, composed-gate algebra recomputed with numpy, eq/hash/caching, Qiskit matrices',
            'Every concrete class exported by bqskit.ir.gates is constructed from recipes (radix 2-5, controls, powers, frozen subsets, embeddings, tags, locations) and evaluated at special and generic parameter vectors; each clause of the gate contract is checked against an independent computation. A class without a recipe makes the check inconclusive.',
            'Trusted: vlib/gaterecipes.py reference matrices, numpy, qiskit.circuit.library matrices.',
            'differential', 'DESIGN.md 3 C18'),
    'C19': ('exploration',
            'cost/instantiation monitor: native cost, residuals and gradients vs refsim + finite differences, native vs pure-Python gate path, recorded per-start results for the arg-min clause, structure/identity checks',
            'Circuits over library, composed and pure-Python gates with unitary/state/state-system targets: the native Hilbert-Schmidt cost and residual objects are compared with the definition recomputed from the circuit\'s own unitary, gradients with central differences, native with Python evaluation; instantiate() is wrapped to record every start and the kept candidate must be the arg-min, the same object, with unchanged structure.',
            'Trusted: vlib/refsim.py, vlib/numchk.py (cost/residual definitions identified on the unchanged tree and held fixed).',
            'differential', 'DESIGN.md 3 C19'),
    'C20': ('exploration',
            'differential runtime monitor: brute-force graph/permutation/Kronecker definitions + networkx vs the real utilities, exhaustive over small labelled graphs',
            'Every public answer of CouplingGraph/PermutationMatrix/UnitaryMatrix/UnitaryBuilder is compared with an independent brute-force definition on all labelled graphs with <=5 (quick) / <=6 (thorough) vertices, all (partial) qudit locations on <=4/5 qudits with radix 2-4, and seeded random weighted graphs up to 12 vertices. Held = no disagreement on any executed input; exhaustive only for the stated small sub-space.',
            'Trusted: the brute-force definitions in props/c20.py, networkx, numpy. Self-distance of all_pairs_shortest_path and hop-count semantics of get_shortest_path_tree are taken from the implementation docs.',
            'differential', 'DESIGN.md 3 C20'),
}

# Properties whose check exists but is not yet claimed (must run clean on the
# unchanged tree first). Keep this list current.
UNCLAIMED = {
    **{p: 'check built (props/%s.py) but not yet run clean on the unchanged tree in this session; not claimed until it is' % p.lower() for p in []},
}

NOT_YET = {}

def main():
    props = [json.loads(l) for l in open(os.path.join(ROOT, 'properties.jsonl'))]
    checks = []
    na = []
    for p in props:
        pid = p['id']
        if pid in CHECKS and pid not in UNCLAIMED:
            cat, tech, text, note, engine, ref = CHECKS[pid]
            checks.append({
                'property_id': pid,
                'quick_cmd': './check %s --tier quick' % pid,
                'thorough_cmd': './check %s --tier thorough' % pid,
                'evidence_file': 'evidence/%s.json' % pid,
                'replay_cmd_template': './check %s --replay {path}' % pid,
                'engine': engine,
                'level_claimed': {'category': cat, 'text': text, 'design_ref': ref},
                'level_note': note,
                'technique': tech,
            })
        else:
            na.append({'property_id': pid, 'reason': UNCLAIMED.get(pid) or NOT_YET.get(pid, 'check under construction in this build phase; not claimed until it runs clean on the unchanged tree')})
    man = {
        'version': 1,
        'setup_cmd': './setup.sh',
        'hooks': {
            'guard': 'BQSKIT_VERIF',
            'enable': 'checks export BQSKIT_VERIF=1; monitors are attached from outside the repository (wrapping, sys.monitoring, in-memory transport), so no source hook is compiled in',
            'baseline_off_cmd': 'cd /repo && env -u BQSKIT_VERIF -u VERIF_INJECT /venv/bin/python -m pytest -ra -q -p no:cacheprovider --timeout=900 --continue-on-collection-errors',
            'source_commits': [],
            'add_only': True,
        },
        'engines': [
            {'name': 'differential', 'path': 'vlib/refsim.py', 'serves_properties': ['C06', 'C16', 'C17', 'C18', 'C19', 'C20'], 'kind_free_text': 'independent numpy reference simulator / brute-force definitions / Qiskit used as runtime oracles on generated inputs'},
            {'name': 'history', 'path': 'vlib/history.py', 'serves_properties': ['C04', 'C05'], 'kind_free_text': 'step-wise reference model + view invariants over generated and exhaustive editing histories of the real Circuit'},
            {'name': 'pass-driver', 'path': 'vlib/compiledrv.py', 'serves_properties': ['C08', 'C09', 'C10', 'C11'], 'kind_free_text': 'real Compiler instances (attached runtime on private ports) running single passes/workflows; oracles on inputs/outputs and PassData'},
            {'name': 'compile-driver', 'path': 'vlib/compilechk.py', 'serves_properties': ['C01', 'C02', 'C03'], 'kind_free_text': 'bqskit.compile() on real runtime processes per case in a subprocess with watchdog; end-to-end oracles; optional in-situ pass monitor injected into workers'},
            {'name': 'simnet', 'path': 'vlib/simnet/', 'serves_properties': ['C07', 'C12', 'C13', 'C14', 'C15'], 'kind_free_text': 'deterministic in-process simulation of the real runtime classes: in-memory transport, serialized seeded scheduler, line-level pre-emption via sys.monitoring, crash injection, offline history checkers'},
            {'name': 'procnet', 'path': 'vlib/procnet.py', 'serves_properties': ['C07', 'C12', 'C14'], 'kind_free_text': 'real runtime processes on private ports: SIGKILL injection (C14), stress with lowered thread switch interval (C07), client cancels + in-worker table probe (C12); stable-hang detector'},
        ],
        'checks': checks,
        'not_applicable': na,
        'notes': 'Technique family: runtime monitoring. All checks run /repo\'s working tree through the editable install in /venv. Exit 0 held / 1 VIOLATION / 2 INCONCLUSIVE.',
    }
    with open(os.path.join(ROOT, 'MANIFEST.json'), 'w') as f:
        json.dump(man, f, indent=1)
        f.write('\n')
    import jsonschema
    jsonschema.validate(man, json.load(open('/root/.vp/MANIFEST.schema.json')))
    print('MANIFEST.json written:', len(checks), 'checks,', len(na), 'not_applicable')

if __name__ == '__main__':
    main()
