#!/venv/bin/python
"""Regenerates DESIGN.md section 10 (seeded breaking changes and which checks
catch them) from seeded/*/meta.json and seeded/*/result.json."""
import json
import os
import re

ROOT = os.path.dirname(os.path.abspath(__file__))


def main() -> None:
    sd = os.path.join(ROOT, 'seeded')
    rows = []
    for name in sorted(os.listdir(sd)):
        mp = os.path.join(sd, name, 'meta.json')
        if not os.path.exists(mp):
            continue
        m = json.load(open(mp))
        patch = open(os.path.join(sd, name, 'patch.diff')).read()
        files = sorted(set(re.findall(r'^\+\+\+ b/(\S+)', patch, re.M)))
        chk = m.get('check_result') or {}
        rp = os.path.join(sd, name, 'result.json')
        applied = None
        if os.path.exists(rp):
            r = json.load(open(rp))
            applied = '; '.join('%s: exit %d %s' % (x['check'], x['exit'], ','.join(x['kinds'][:3])) for x in r.get('runs', []))
        conf = m.get('confirmed', {})
        tests = conf.get('tests_with_change', {})
        rows.append(
            '| %s | %s | %s | %s | demo %s/%s; tests: %s | %s%s |' % (
                name, m['property'], ', '.join(f.replace('bqskit/', '') for f in files),
                (m.get('needs_to_manifest') or '').replace('|', '/'),
                conf.get('demo_without_change', {}).get('exit'), conf.get('demo_with_change', {}).get('exit'),
                (tests.get('summary') or 'see meta.json')[:60],
                (('missed at first, then ' if m.get('first_check_result') else '') + 'caught: exit %s, kinds %s (%ss)' % (chk.get('exit'), ', '.join((chk.get('kinds') or [])[:3]) or '-', chk.get('wall_s'))) if chk else 'not run',
                (' / applied to /repo: ' + applied) if applied else '',
            ),
        )
    text = '''## 10. Seeded breaking changes and which checks catch them

Each change below was produced by a fresh sub-agent that was given only the
text of one property and its own scratch git worktree of /repo (nothing from
/verif), and was asked for a small realistic change that breaks the property,
still imports, passes the repository's tests and needs something specific to
manifest, together with a demonstration program. Every kept change was
confirmed here in a new scratch worktree of /repo's HEAD
(`tools_confirm_seed.py`): the demonstration exits 0 on the unchanged tree,
the patch applies, the demonstration fails with it, the named repository
tests pass with it; then the property's quick check was run against the
changed tree. `seeded/<name>/` holds `patch.diff`, the demonstration and
`meta.json` (what it needs in order to manifest, what was run, the outcome).
Columns "demo a/b" = exit code of the demonstration without/with the change.

| name | property | file(s) changed | needs, in order to manifest | confirmation | quick check result |
|---|---|---|---|---|---|
%s

Strengthening done because of seeded changes (see also section 8):

* **C13 (mut C13: server drops a task ERROR that arrives after the result was
  shipped).** The first version of C13 treated the exception of an un-awaited
  child as optional and missed this. Added the `late_error` family (root
  returns at once while un-awaited children raise; the client keeps talking to
  the server) and the invariant "once the server has received a task ERROR of a
  client's compilation, the next request/reply interaction that client starts
  must raise" (`error:swallowed_by_server`), decided from the recorded message
  history and the client-boundary call log.
* **C14 (mut C14: detached server ignores EOF on a manager connection).** The
  changed server busy-loops on the dead connection; the simulation hit its step
  cap, which was only *inconclusive*. Added livelock detection to the
  scheduler: no message sent, delivered, no thread finished and no client call
  returned for 4000 consecutive scheduler steps ends the run as `livelock`,
  which the progress oracle reports (`hang:livelock_after_crash`). Task bodies
  in the workloads are trivial, so such a stretch cannot be useful work.
* **C01 (mut C01: a level-4 workflow loses part of a permutation when the
  mapped circuit's final mapping is a 3-cycle).** The random level-4 cases of
  the quick tier only produced transpositions and identity mappings, for which
  the changed code is still right. Added a targeted quick case: a cyclic-shift
  circuit (qudit i -> i+1 mod n through SWAP chains) on a line model at level 4,
  whose cheapest output is a pure relabelling with a 3-cycle as final mapping;
  the oracle is unchanged (independent simulator, mapped cost with both
  permutations).
* **C02 (mut C02: post-mapping block resynthesis is given the coupling of
  model qudits [0..k) instead of that of the placed qudits).** On symmetric
  machines (lines, rings, grids) and identity placements the two coincide, and
  the random quick cases did not include an asymmetric machine with a
  non-identity placement at level 3. Added a targeted quick case: 3-qubit
  entangling circuit, 5-qubit machine 0-1-3-2-0 plus tail 3-4 (greedy placement
  picks [1,2,3]), level 3; the coupling oracle (every multi-qudit gate on a model
  edge, computed from the model's edge list, not `is_compatible`) reports
  `output:uncoupled:circuit`.
* **C09 (mut C09-b: PAMRoutingPass composes the new permutation with
  `initial_mapping` instead of `final_mapping`).** Only visible when routing
  runs a second time on the same PassData after a first stage that ended
  permuted, i.e. in compile.py's two-stage SeqPAM workflow. The PAM family of
  C09 modelled the second half of that workflow only and missed it. Added the
  `seqpam` family: the repository's own
  `build_seqpam_mapping_optimization_workflow` (plus recorders after the first
  routing stage and at the end) on inputs containing dressed SWAPs, so that
  the first stage ends with a non-identity permutation (required counter
  `seqpam_refsim_checked_after_permuting_first_stage`); oracle = independent
  simulator under the recorded mappings, coupling, mapping sanity.
* **C11 (mut C11-b: ForEachBlockPass forms the sub-circuit of a block from
  the parameters stored inside the CircuitGate instead of the operation's).**
  Every generated block carried the stored parameters, for which the two
  coincide. The generator now re-parameterises 40%% of the parameterised blocks
  (what `set_params`/`instantiate` on a partitioned circuit produces); the
  oracle was already written against the operation's parameters. Required
  counter `blocks_with_params_differing_from_stored_ones`.
* **C14 (mut C14-b: the worker's incoming thread only treats `EOFError` as a
  lost boss; any other read failure kills the thread and leaves the worker
  alive).** The fake transport of the simulation only ever produced EOF for a
  dead peer, so no simulated crash could reach the changed line (this was
  seen by reading the patch; the old check was not run against it). Real TCP
  answers with RST when a socket goes away with unread data, or is written to
  after it went away, and the peer's read then fails with
  `ConnectionResetError`. Added that as an opt-in model of the transport
  (`resets`, used by half of C14's bases; counters
  `reads_failed_with_connection_reset`, `executions_with_tcp_reset_model` are
  required): the change is then reported as
  `survivor:runtime_node_still_running`. The unchanged tree is clean under
  the new model (all read sites catch both errors).
* **C12 (mut C12-b: the server no longer forgets a task id that it delivered
  on the late-request path).** The quick tier reported nothing that belongs
  to this change (its only report on the changed tree was an unrelated,
  genuine worker race, since repaired: e856026). C12 had families for cancel
  and disconnect *with work in flight* but none for "after completion" with a
  result that reached the server before the client asked for it. Added the
  `late_fetch` family (both clients wait at a quiescence barrier so that the
  result is in the server's mailbox, then result, optional second cancel of
  the delivered id, and close while the other client compiles): the change is
  reported as `node:system_error` at `handle_cancel_comp_task|KeyError` in
  24 of 24 scenarios, the unchanged tree is clean.

All other seeded changes were caught by the quick tier as it stood. What each
needs in order to manifest is in the table; the catching violation kinds are
the oracle's own classification (not tuned to the change).
''' % '\n'.join(rows)
    p = os.path.join(ROOT, 'DESIGN.md')
    s = open(p).read()
    i = s.find('## 10. Seeded breaking changes')
    if i >= 0:
        s = s[:i]
    s = s.rstrip('\n') + '\n\n\n' + text
    open(p, 'w').write(s)
    print('section 10 written with %d seeded changes' % len(rows))


if __name__ == '__main__':
    main()
