"""C13 — task failures reach their client; no client request takes the server down.

Engine: simnet (detached topology for request histories, both topologies for
failure propagation). Families: (a) trees with a raising body at every
position class; (b) request histories issued by the real Compiler methods:
exhaustive sequences over {status, result, cancel} x {own task, never-issued
id, another client's id} up to a length bound, and random longer ones with
1-3 clients. Oracle: E1 error carries the body's message, E2 per-task client
state machine, E3 isolation between clients, E4 liveness probe by a fresh
client after the history.
"""
from __future__ import annotations

import itertools
from typing import Any

from vlib import core
from vlib.simnet import driver
from vlib.simnet import runner
from vlib.simnet import scen
from vlib.simnet import workloads as WL

PID = 'C13'

BUDGET = {
    # tier: (raise scenarios, exhaustive history length, random histories, late-error scenarios)
    'quick': (260, 2, 420, 160),
    'thorough': (2000, 3, 3500, 1200),
}

OPS = ('status', 'result', 'cancel')
TARGETS = ('a', 'unknown', 'c1:x')


def small_tree(rng: Any, prefix: str, raises: bool = False) -> dict:
    g = scen.TreeGen(rng, prefix, max_tasks=int(rng.integers(2, 9)), cancel=False, raises=raises, nexts=True, unawaited=False)
    for _ in range(40):
        g.n = 0
        g.raise_placed = False
        t = g.tree(int(rng.integers(1, 3)))
        if not raises or g.raise_placed:
            return t
    return t


def probe_client() -> dict:
    t = {'tag': 'probe', 'steps': [['submit', 'v1', {'tag': 'probe1', 'steps': []}], ['await', 'v1']]}
    return {'name': 'cz', 'ops': [['sleep', 5.0], ['connect'], ['compile', t], ['close']]}


def make_raise_scenario(seed: int, idx: int) -> dict:
    rng = core.rng_for(seed, PID, 1, idx)
    sc = driver.sched_params(rng)
    topo = driver.topology(rng, p_attached=0.4)
    g = scen.TreeGen(rng, 'c0t', max_tasks=int(rng.integers(3, 26)), cancel=False, raises=True, nexts=True, unawaited=bool(rng.random() < 0.3), wide=bool(rng.random() < 0.3))
    for _ in range(60):
        g.n = 0
        g.raise_placed = False
        g.features = set()
        tree = g.tree(int(rng.integers(1, 4)))
        if g.raise_placed:
            break
    clients = [{'name': 'c0', 'ops': [['connect'], ['compile', tree], ['close']]}]
    feats = set(g.features)
    if topo['kind'] == 'detached':
        if rng.random() < 0.6:
            t2 = small_tree(rng, 'c1t')
            clients.append({'name': 'c1', 'ops': [['connect'], ['compile', t2], ['quiesce', 'done'], ['close']]})
            feats.add('bystander_client')
        clients.append(probe_client())
    sc.update({'topology': topo, 'clients': clients, 'features': sorted(feats), 'family': 'raise'})
    return sc


def history_scenario(rng: Any, seq: list[tuple[str, str]], family: str, own_raises: bool = False) -> dict:
    sc = driver.sched_params(rng)
    nm = int(rng.integers(1, 3))
    topo = {'kind': 'detached', 'managers': [int(rng.integers(1, 3)) for _ in range(nm)], 'nested': False}
    ta = small_tree(rng, 'c0a', raises=own_raises)
    tx = small_tree(rng, 'c1x')
    ops: list = [['connect'], ['submit', 'a', ta]]
    for op, tgt in seq:
        if rng.random() < 0.3:
            ops.append(['yield', int(rng.choice([1, 4, 15, 50]))])
        ops.append([op, tgt])
    ops.append(['close'])
    # c1 owns task x; it fetches it late so that x is alive while c0 acts
    c1 = {'name': 'c1', 'ops': [['connect'], ['submit', 'x', tx], ['sleep', 2.0], ['result', 'x'], ['close']]}
    sc.update({'topology': topo, 'clients': [c1, {'name': 'c0', 'ops': ops}, probe_client()], 'features': [], 'family': family, 'history': [list(x) for x in seq]})
    return sc


def make_random_history(seed: int, idx: int) -> dict:
    rng = core.rng_for(seed, PID, 3, idx)
    n = int(rng.integers(3, 9))
    seq = []
    for _ in range(n):
        op = str(rng.choice(OPS))
        tgt = str(rng.choice(['a', 'a', 'a', 'b', 'unknown', 'c1:x']))
        seq.append((op, tgt))
    sc = history_scenario(rng, seq, 'hist_random', own_raises=bool(rng.random() < 0.15))
    # second own task, and sometimes a third active client
    tb = small_tree(rng, 'c0b')
    c0 = sc['clients'][1]
    c0['ops'].insert(2, ['submit', 'b', tb])
    if rng.random() < 0.4:
        t3 = small_tree(rng, 'c2t')
        sc['clients'].insert(2, {'name': 'c2', 'ops': [['connect'], ['compile', t3], ['close']]})
    return sc


def make_late_error(seed: int, idx: int) -> dict:
    """A compilation whose root returns at once while an un-awaited child
    raises: the ERROR races the RESULT (and the cancel of the child) to the
    server; afterwards the client keeps talking to the server."""
    rng = core.rng_for(seed, PID, 4, idx)
    sc = driver.sched_params(rng)
    nm = int(rng.integers(1, 3))
    topo = {'kind': 'detached', 'managers': [int(rng.integers(1, 4)) for _ in range(nm)], 'nested': False}
    steps: list = []
    nkids = int(rng.integers(1, 4))
    for k in range(nkids):
        steps.append(['submit', 'e%d' % k, {'tag': 'c0aE%d' % k, 'steps': [['raise', 'late-boom-%d' % k]]}])
    if rng.random() < 0.5:
        steps.append(['submit', 'q', {'tag': 'c0aQ', 'steps': []}])
        steps.append(['await', 'q'])
    ta = {'tag': 'c0a0', 'steps': steps}
    ops: list = [['connect'], ['submit', 'a', ta], ['result', 'a']]
    for _ in range(int(rng.integers(1, 4))):
        ops.append(['yield', int(rng.choice([2, 10, 40, 120]))])
        ops.append([str(rng.choice(['status', 'status', 'cancel'])), str(rng.choice(['a', 'unknown']))])
    ops.append(['close'])
    sc.update({'topology': topo, 'clients': [{'name': 'c0', 'ops': ops}, probe_client()], 'features': ['late_error'], 'family': 'late_error', 'history': None})
    return sc


# ------------------------------------------------------------------ oracle
def judge(sc: dict, obs: dict) -> tuple[list[dict], str | None]:
    inc = driver.sim_failed(obs)
    if inc:
        return [], inc
    w: list[dict] = []
    trees = {}
    for c in scen.compilations(sc):
        trees[(c['client'], c['key'])] = c['tree']
    # values observed inside tasks are always checked
    w += scen.check_values(sc, obs)
    # ---- blocking compiles (raise family, bystanders, probe)
    probe_ok = None
    for rec in obs.get('clients', []):
        if rec['op'] != 'compile' or rec['outcome'] == 'open':
            continue
        tree = trees.get((rec['client'], None))
        val, ex = WL.interpret(tree)
        msg = rec.get('msg', '')
        if rec['client'] == 'cz':
            probe_ok = rec['outcome'] == 'value' and scen.norm(rec['value'].get('tree_result')) == scen.norm(val)
            if not probe_ok:
                w.append({'kind': 'liveness:probe_failed', 'outcome': rec['outcome'], 'msg': msg[-300:], 'site': scen._err_site(msg)})
            continue
        if rec['outcome'] == 'value':
            got = rec['value'].get('tree_result') if isinstance(rec['value'], dict) else rec['value']
            if ex.raises is not None:
                w.append({'kind': 'error:not_reported', 'client': rec['client'], 'want_error': ex.raises, 'got': got})
            elif scen.norm(got) != scen.norm(val):
                w.append({'kind': 'result:wrong_value', 'client': rec['client'], 'got': got, 'want': val})
        else:
            msgs = ([ex.raises] if ex.raises else []) + ex.may_raise
            if not msgs:
                w.append({'kind': 'error:spurious', 'client': rec['client'], 'msg': msg[-400:], 'site': scen._err_site(msg)})
            elif not any(m in msg for m in msgs):
                w.append({'kind': 'error:message_lost', 'client': rec['client'], 'want': msgs, 'msg': msg[-400:], 'site': scen._err_site(msg)})
    for rec in obs.get('clients', []):
        if rec['client'] == 'cz' and rec['op'] == 'connect' and rec['outcome'] == 'raise':
            w.append({'kind': 'liveness:server_down', 'msg': rec.get('msg', '')[-300:], 'after_history': sc.get('history')})
    # ---- request histories: per-task state machine, per client in order
    state: dict[tuple[str, str], str] = {}
    own_msgs: dict[str, list[str]] = {}
    for (cl_, key_), tree_ in trees.items():
        _, ex_ = WL.interpret(tree_)
        own_msgs.setdefault(cl_, []).extend(([ex_.raises] if ex_.raises else []) + ex_.may_raise)
    failed_clients: set[str] = set()
    for rec in obs.get('clients', []):
        cl, op = rec['client'], rec['op']
        if ':' not in op or rec['outcome'] in ('skipped', 'note'):
            continue
        if cl in failed_clients:
            continue
        if rec['outcome'] == 'raise' and any(m in rec.get('msg', '') for m in own_msgs.get(cl, [])):
            # an error of one of this client's own tasks surfaces at the
            # client's next interaction, whatever call that is
            failed_clients.add(cl)
            continue
        kind, tgt = op.split(':', 1)
        if kind == 'submit':
            if rec['outcome'] == 'value':
                state[(cl, tgt)] = 'running'
            continue
        if rec['outcome'] == 'open':
            continue
        own = ':' not in tgt and tgt != 'unknown'
        st = state.get((cl, tgt), 'none') if own else ('foreign' if tgt != 'unknown' else 'unknown')
        out = rec['outcome']
        val = rec.get('value')
        msg = rec.get('msg', '')
        base = {'client': cl, 'op': kind, 'target_state': st, 'outcome': out, 'history': sc.get('history')}
        if kind == 'status':
            name = val.get('enum') if isinstance(val, dict) else None
            if st == 'running':
                if out != 'value' or name not in ('RUNNING', 'DONE'):
                    w.append(dict(base, kind='state:status_of_live_task', got=name or msg[-200:], site=scen._err_site(msg)))
            else:
                if out == 'value' and name != 'UNKNOWN':
                    w.append(dict(base, kind='state:status_reveals_' + st, got=name))
        elif kind == 'result':
            tree = trees.get((cl, tgt)) if own else None
            if st == 'running':
                v, ex = WL.interpret(tree)
                msgs = ([ex.raises] if ex.raises else []) + ex.may_raise
                if out == 'value':
                    got = val.get('tree_result') if isinstance(val, dict) else val
                    if ex.raises is not None:
                        w.append(dict(base, kind='error:not_reported', want_error=ex.raises))
                    elif scen.norm(got) != scen.norm(v):
                        w.append(dict(base, kind='result:wrong_value', got=got, want=v))
                    state[(cl, tgt)] = 'fetched'
                else:
                    if not msgs:
                        w.append(dict(base, kind='state:result_of_live_task_raised', msg=msg[-300:], site=scen._err_site(msg)))
                    elif not any(m in msg for m in msgs):
                        w.append(dict(base, kind='error:message_lost', want=msgs, msg=msg[-300:], site=scen._err_site(msg)))
                    state[(cl, tgt)] = 'failed'
            else:
                if out == 'value':
                    w.append(dict(base, kind='state:result_returned_for_' + st, got=val))
        elif kind == 'cancel':
            if st == 'running':
                if out != 'value' or val is not True:
                    w.append(dict(base, kind='state:cancel_of_live_task', got=val if out == 'value' else msg[-300:], site=scen._err_site(msg)))
                state[(cl, tgt)] = 'cancelled'
            # cancel of anything else: True or a client-side error are both
            # consistent; what matters is that the server survives (probe)
    # ---- E3 isolation: c1's task x must be unaffected by c0's requests
    for rec in obs.get('clients', []):
        if rec['client'] == 'c1' and rec['op'] == 'result:x' and rec['outcome'] != 'open':
            v, ex = WL.interpret(trees[('c1', 'x')])
            if rec['outcome'] == 'raise':
                w.append({'kind': 'isolation:other_clients_task_disturbed', 'msg': rec.get('msg', '')[-300:], 'site': scen._err_site(rec.get('msg', '')), 'history': sc.get('history')})
            elif scen.norm(rec['value'].get('tree_result')) != scen.norm(v):
                w.append({'kind': 'isolation:other_clients_result_wrong', 'got': rec['value'], 'want': v})
    # ---- every task error received while its client is still talking to
    # the server is forwarded to that client (also after the result shipped)
    w += scen.check_errors_forwarded(sc, obs)
    # ---- nobody hangs
    w += scen.check_progress(sc, obs)
    # ---- the server loop itself must not have crashed
    for e in obs.get('sys_errors', []):
        w.append({'kind': 'node:system_error', 'proc': e['proc'], 'site': scen._err_site(e['text']), 'text': e['text'][-500:], 'history': sc.get('history')})
    for u in obs.get('uncaught', []):
        w.append({'kind': 'node:uncaught_exception', 'proc': u['proc'], 'thread': u['thread'], 'exc': u['exc'], 'msg': u['msg'], 'tb': u['tb'][-500:]})
    return w, None


def nontrivial(sc: dict, obs: dict) -> bool:
    if sc.get('family') == 'raise':
        return any(x[2] == 'raise' for x in obs.get('exec_log', []))
    answered = [c for c in obs.get('clients', []) if ':' in c['op'] and not c['op'].startswith('submit') and c['outcome'] in ('value', 'raise')]
    return len(answered) >= 1


def main(tier: str, seed: int, replay: str | None = None) -> int:
    run = core.Run(PID, tier, seed)
    if replay:
        return driver.replay_main(run, replay, judge, nontrivial)
    n_raise, ex_len, n_rand, n_late = BUDGET[tier]
    scs = [(make_raise_scenario(seed, i), 'raise') for i in range(n_raise)]
    alphabet = [(o, t) for o in OPS for t in TARGETS]
    n_ex = 0
    for L in range(1, ex_len + 1):
        for seq in itertools.product(alphabet, repeat=L):
            rng = core.rng_for(seed, PID, 2, n_ex)
            scs.append((history_scenario(rng, list(seq), 'hist_exhaustive'), 'hist_exhaustive'))
            n_ex += 1
    scs += [(make_random_history(seed, i), 'hist_random') for i in range(n_rand)]
    scs += [(make_late_error(seed, i), 'late_error') for i in range(n_late)]
    results = runner.run_many([s for s, _ in scs])
    acc = driver.Accountant(run)
    for (sc, fam), obs in zip(scs, results):
        acc.add(sc, obs, fam, judge, nontrivial)
        for c in obs.get('clients', []):
            if c['client'] == 'cz' and c['op'] == 'compile' and c['outcome'] == 'value':
                run.count('liveness_probes_answered')
        run.count('raising_bodies_reached', sum(1 for x in obs.get('exec_log', []) if x[2] == 'raise'))
        run.count('errors_forward_checked', obs.get('_errors_forward_checked', 0))
    acc.finish_extra()
    run.extra['exhaustive_histories'] = n_ex
    run.extra['exhaustive_subspace'] = 'all request sequences of length <= %d over {status,result,cancel} x {own task, never-issued id, other client\'s id} after one submit (one schedule each)' % ex_len
    for c in ('liveness_probes_answered', 'raising_bodies_reached', 'executions:hist_exhaustive', 'executions:hist_random', 'errors_forward_checked'):
        run.require(c, 1)
    return run.finish(
        rule='families: task trees with a raising body at a random position (root/child/grandchild/inside map/after partial results) on attached and detached topologies with bystander and probe clients; request histories by the real Compiler methods on a detached server: all sequences up to the length bound over {status,result,cancel} x {own id, never-issued id, another client\'s id}, and random histories of 3-8 requests over two own tasks with 2-4 clients; every history ends with a fresh probe client compiling a trivial task. distinct = (tree shapes, client ops, topology, delivery-order hash); non-trivial = a raising body ran / at least one request was answered',
        assumptions=driver.SIM_ASSUMPTIONS + [
            'a Compiler closes itself after any error it reports, so a client\'s history stops at its first client-side error',
            'for requests on ids that are not live tasks of the caller, both an UNKNOWN/True reply and a client-side error count as consistent; a value, another client\'s status, or a dead server do not',
        ],
    )
