"""C17 - OpenQASM 2 import/export preserves the program and agrees with Qiskit.

Translation validation by runtime monitoring, four engines:

(a) round trip   circuits over every library gate that has a QASM spelling
                 (table derived at run time, vlib/qasmgen.py), nested
                 CircuitGates, hostile parameters: decode(encode(c)) must have
                 the same width, the same unitary up to global phase (refsim),
                 the same per-qubit operation order (location + per-operation
                 unitary) and parameters equal to printing precision.
(b) programs     grammar-generated OpenQASM 2 programs in the subset the
                 statement lists, translated by BQSKit and by Qiskit's
                 qasm2 loader: same width, same unitary up to bit order and
                 global phase, same per-qubit sequence of gates / barriers /
                 measurements (with classical targets) / resets.
(c) expressions  one parameter expression per program (optionally through one
                 or two levels of user gate definitions): the *value* BQSKit
                 binds is compared with Qiskit's and with an independent
                 evaluator.
(d) ext          bqskit.ext translators (Qiskit; pytket and Cirq in thorough).

Every failing input is shrunk greedily on its AST and classified by
mechanism (`kind`): hypothesis tests first (parentheses ignored, user gate
shadowed by a built-in, measurement key without register offset, reset using
the first register's extent), otherwise the essential features of the minimal
input + exception type + raising site.
"""
from __future__ import annotations

import json
import os
import re
import tempfile
import warnings
from typing import Any

import numpy as np

from vlib import core
from vlib import qasmgen as Q
from vlib import refsim

PID = 'C17'
# Qiskit's Rust kernels start a rayon pool per process; with forked workers
# that oversubscribes the machine.
os.environ.setdefault('RAYON_NUM_THREADS', '1')
os.environ.setdefault('QISKIT_IN_PARALLEL', 'TRUE')

# case counts ---------------------------------------------------------------
COUNTS = {
    #            random RT   programs   expressions   ext(qiskit)  ext(pytket/cirq)
    'quick':    {'rt': 260,  'prog': 420,  'expr': 700,   'ext': 40,  'ext_other': 0},
    'thorough': {'rt': 3000, 'prog': 7000, 'expr': 14000, 'ext': 300, 'ext_other': 60},
}
TOL = 1e-10           # cost1 budget (statement: equal up to global phase)
PHASE_TOL = 1e-7      # phase-aligned max element difference (round trip)
PARAM_RTOL = 1e-12    # printing precision
SHRINK_BUDGET = 350


# ---------------------------------------------------------------------------
# observation helpers
# ---------------------------------------------------------------------------
def _lang() -> Any:
    from bqskit.ir.lang.qasm2 import OPENQASM2Language
    return OPENQASM2Language()


def _fatal(e: BaseException) -> None:
    if isinstance(e, (KeyboardInterrupt, SystemExit, GeneratorExit, MemoryError)):
        raise e


def exc_info(e: BaseException) -> dict[str, Any]:
    from bqskit.ir.lang.language import LangException
    import lark
    frames = core.repo_frames(e)
    name = type(e).__name__
    detail = name
    if isinstance(e, lark.exceptions.UnexpectedToken):
        detail = '%s[%s]' % (name, e.token.type)
    elif isinstance(e, lark.exceptions.UnexpectedCharacters):
        detail = '%s[%s]' % (name, getattr(e, 'char', '?'))
    clean = isinstance(e, (LangException, lark.exceptions.LarkError))
    return {
        'exc': name, 'exc_detail': detail, 'msg': str(e)[:240],
        'site': core.raising_site(e), 'frames': frames[-6:],
        'repo_site': frames[-1] if frames else core.raising_site(e),
        'clean_rejection': bool(clean),
    }


def bq_labels_and_items(circ: Any) -> tuple[list[list[str]], list[tuple[np.ndarray, tuple[int, ...]]]]:
    from bqskit.ir.gates.barrier import BarrierPlaceholder
    from bqskit.ir.gates.measure import MeasurementPlaceholder
    from bqskit.ir.gates.reset import Reset
    labels: list[list[str]] = [[] for _ in range(circ.num_qudits)]
    items = []
    for op in circ:
        g = op.gate
        loc = tuple(int(q) for q in op.location)
        if isinstance(g, MeasurementPlaceholder):
            keys = sorted(int(k) for k in g.measurements)
            extra = '' if keys == sorted(loc) else '!keys=%s' % keys
            for q in loc:
                m = g.measurements.get(q)
                labels[q].append(('M:%s[%d]' % (m[0], m[1]) if m else 'M:<no entry>') + extra)
        elif isinstance(g, Reset):
            labels[loc[0]].append('R')
        elif isinstance(g, BarrierPlaceholder):
            for q in loc:
                labels[q].append('B%s' % (sorted(loc),))
        else:
            for q in loc:
                labels[q].append('g%s' % (list(loc),))
            items.append((np.asarray(op.get_unitary()), loc))
    return labels, items


def bq_view(text: str) -> dict[str, Any]:
    """Decode with BQSKit; unitary of the unitary part by refsim."""
    try:
        with warnings.catch_warnings():
            warnings.simplefilter('ignore')
            circ = _lang().decode(text)
    except BaseException as e:  # noqa (pyo3 panics derive from BaseException)
        _fatal(e)
        return {'status': 'exc', **exc_info(e)}
    try:
        with warnings.catch_warnings():
            warnings.simplefilter('ignore')
            labels, items = bq_labels_and_items(circ)
            U = refsim.unitary_of_items(items, [2] * circ.num_qudits)
    except BaseException as e:  # noqa (pyo3 panics derive from BaseException)
        _fatal(e)
        return {'status': 'exc', 'stage': 'unitary', **exc_info(e)}
    return {'status': 'ok', 'n': circ.num_qudits, 'U': U, 'labels': labels, 'circuit': circ}


def qk_view(text: str) -> dict[str, Any]:
    import qiskit.qasm2 as q2
    from qiskit import QuantumCircuit
    from qiskit.quantum_info import Operator
    try:
        qc = q2.loads(text, custom_instructions=q2.LEGACY_CUSTOM_INSTRUCTIONS)
    except BaseException as e:  # noqa (pyo3 panics derive from BaseException)
        _fatal(e)
        return {'status': 'reject', 'msg': '%s: %s' % (type(e).__name__, str(e)[:200])}
    n = qc.num_qubits
    labels: list[list[str]] = [[] for _ in range(n)]
    core_c = QuantumCircuit(*qc.qregs)
    for inst in qc.data:
        name = inst.operation.name
        qs = [qc.find_bit(q).index for q in inst.qubits]
        if name == 'measure':
            reg, idx = qc.find_bit(inst.clbits[0]).registers[0]
            labels[qs[0]].append('M:%s[%d]' % (reg.name, idx))
        elif name == 'reset':
            labels[qs[0]].append('R')
        elif name == 'barrier':
            for q in qs:
                labels[q].append('B%s' % (sorted(qs),))
        else:
            for q in qs:
                labels[q].append('g%s' % (qs,))
            core_c.append(inst.operation, inst.qubits)
    U = Operator(core_c).reverse_qargs().data
    return {'status': 'ok', 'n': n, 'U': np.asarray(U), 'labels': labels}


def compare_text(text: str) -> dict[str, Any]:
    """Outcome of one program: list of failure classes (empty = agreement)."""
    qk = qk_view(text)
    if qk['status'] != 'ok':
        return {'classes': [], 'qk_reject': qk['msg']}
    bq = bq_view(text)
    out: dict[str, Any] = {'classes': [], 'qk': qk, 'bq': bq}
    if bq['status'] != 'ok':
        out['classes'].append('exc')
        return out
    if bq['n'] != qk['n']:
        out['classes'].append('width')
        return out
    if bq['labels'] != qk['labels']:
        out['classes'].append('struct')
        # the unitary is still comparable only if the gate skeleton agrees
    gl_b = [[x for x in l if x[0] == 'g'] for l in bq['labels']]
    gl_q = [[x for x in l if x[0] == 'g'] for l in qk['labels']]
    c = refsim.cost1(bq['U'], qk['U'])
    out['cost1'] = c
    if not (c <= TOL) or not np.all(np.isfinite(bq['U'])):
        out['classes'].append('unitary')
    out['gate_skeleton_equal'] = gl_b == gl_q
    return out


def same_failure(ref: dict[str, Any], cls: str, text: str) -> bool:
    o = compare_text(text)
    if cls not in o['classes']:
        return False
    if cls == 'exc':
        return (
            o['bq']['exc'] == ref['bq']['exc']
            and o['bq']['repo_site'] == ref['bq']['repo_site']
            and o['bq'].get('exc_detail') == ref['bq'].get('exc_detail')
        )
    return True


# ---------------------------------------------------------------------------
# classification of program failures
# ---------------------------------------------------------------------------
_BUILTIN_ONLY: list[str] | None = None


def bqskit_only_builtins() -> list[str]:
    """Names in the visitor's built-in table that qelib1.inc does not define
    (a user is free to define gates with these names)."""
    global _BUILTIN_ONLY
    if _BUILTIN_ONLY is None:
        from bqskit.ir.lang.qasm2.visitor import OPENQASMVisitor
        names = set(OPENQASMVisitor().gate_defs)
        names -= set(Q.QELIB1) | {Q.U0, 'U', 'CX'}
        _BUILTIN_ONLY = sorted(n for n in names if n[0].islower())
    return _BUILTIN_ONLY


def flat_offsets(prog: dict[str, Any]) -> dict[str, tuple[int, int]]:
    off = 0
    out = {}
    for n, s in prog['qregs']:
        out[n] = (off, s)
        off += s
    return out


def classify_program_failure(prog: dict[str, Any], cls: str, ref: dict[str, Any]) -> dict[str, Any]:
    """Shrink, then name the mechanism. Returns witness fields."""
    def still(p: dict[str, Any]) -> bool:
        return same_failure(ref, cls, Q.render_program(p))
    minimal, converged, evals = Q.shrink(prog, still, SHRINK_BUDGET)
    text = Q.render_program(minimal)
    o = compare_text(text)
    feats = Q.essential_features(minimal)
    w: dict[str, Any] = {
        'engine': 'program', 'class': cls, 'text': text, 'program_json': json.dumps(minimal),
        'features': feats, 'shrunk': converged, 'shrink_evals': evals,
    }
    if cls not in o['classes']:
        # cannot happen (the predicate just accepted it) unless flaky
        w['kind'] = 'harness:unstable_classification'
        return w
    tag = '+'.join(feats) if feats else 'baseline'
    suffix = '' if converged else ':unshrunk'
    # -- hypothesis: a user definition is shadowed by a built-in of that name
    shadow = [d['name'] for d in minimal['defs'] if d['name'] in bqskit_only_builtins()]
    if shadow:
        p2 = minimal
        for i, nm in enumerate(shadow):
            p2 = Q.rename_gate(p2, nm, 'fresh_name_%d' % i)
        if not compare_text(Q.render_program(p2))['classes']:
            w['kind'] = 'program:userdef_shadowed_by_builtin_gate:' + cls
            w['shadowed'] = shadow
            w['observed'] = 'renaming the user gate(s) %s to fresh names makes BQSKit agree with Qiskit' % shadow
            _fill_obs(w, o, cls)
            return w
    has_paren = 'paren' in feats
    if cls == 'exc':
        b = o['bq']
        w.update({k: b[k] for k in ('exc', 'msg', 'site', 'frames', 'repo_site')})
        mode = 'reject' if b['clean_rejection'] else 'crash'
        if has_paren and b['exc'] in ('ZeroDivisionError', 'TypeError', 'OverflowError', 'ValueError', 'FloatingPointError'):
            q2_ = qk_view(Q.render_program(minimal, strip_parens=True))
            all_exprs = [st['ex'][i] for st, i, _ in Q._expr_sites(minimal)]
            if q2_['status'] != 'ok' or not np.all(np.isfinite(q2_['U'])) or py_reading_raises(all_exprs, b['exc']):
                w['kind'] = 'expr:parentheses_ignored:arithmetic_error'
                w['observed'] = 'BQSKit raises %s; the same text with every parenthesis removed is not evaluable (or not finite) for Qiskit either' % (b['exc'],)
                w['text_without_parentheses'] = Q.render_program(minimal, strip_parens=True)
                return w
        w['kind'] = 'decode:%s:%s:%s:%s%s' % (mode, tag, b['exc_detail'], b['repo_site'], suffix)
        w['observed'] = '%s: %s' % (b['exc'], b['msg'][:160])
        w['expected'] = 'program uses only listed features and Qiskit accepts it'
        return w
    _fill_obs(w, o, cls)
    if cls == 'width':
        w['kind'] = 'diff:width:%s%s' % (tag, suffix)
        return w
    if cls == 'unitary':
        if has_paren:
            stripped = Q.render_program(minimal, strip_parens=True)
            q2_ = qk_view(stripped)
            if q2_['status'] == 'ok' and not np.all(np.isfinite(q2_['U'])) and not np.all(np.isfinite(o['bq']['U'])):
                w['kind'] = 'expr:parentheses_ignored:arithmetic_error'
                w['text_without_parentheses'] = stripped
                return w
            if q2_['status'] == 'ok' and q2_['n'] == o['bq']['n'] and refsim.cost1(o['bq']['U'], q2_['U']) <= TOL:
                w['kind'] = 'expr:parentheses_ignored'
                w['observed'] += '; BQSKit\'s unitary equals Qiskit\'s for the text with all parentheses removed'
                w['text_without_parentheses'] = stripped
                return w
        w['kind'] = 'diff:unitary:%s%s' % (tag, suffix)
        return w
    # struct
    offs = flat_offsets(minimal)
    circ = o['bq']['circuit']
    from bqskit.ir.gates.measure import MeasurementPlaceholder
    from bqskit.ir.gates.reset import Reset
    meas = [st for st in minimal['main'] if st['k'] == 'measure']
    resets = [st for st in minimal['main'] if st['k'] == 'reset']
    if len(meas) == 1 and meas[0]['q'][1] is not None and len(minimal['main']) == 1:
        reg, idx = meas[0]['q']
        flat = offs[reg][0] + idx
        mops = [op for op in circ if isinstance(op.gate, MeasurementPlaceholder)]
        if len(mops) == 1 and tuple(mops[0].location) == (flat,) and list(mops[0].gate.measurements) == [idx] and idx != flat:
            w['kind'] = 'measure_single:measurements_key_is_register_local_index'
            return w
    if len(resets) == 1 and resets[0]['q'][1] is None and len(minimal['main']) == 1:
        reg = resets[0]['q'][0]
        got = sorted(int(op.location[0]) for op in circ if isinstance(op.gate, Reset))
        first = list(range(minimal['qregs'][0][1]))
        want = list(range(offs[reg][0], offs[reg][0] + offs[reg][1]))
        if got == first and got != want:
            w['kind'] = 'reset_reg:resets_first_register_extent'
            return w
    w['kind'] = 'diff:struct:%s%s' % (tag, suffix)
    return w


def _fill_obs(w: dict[str, Any], o: dict[str, Any], cls: str) -> None:
    if 'bq' not in o or o['bq'].get('status') != 'ok':
        if 'bq' in o:
            b = o['bq']
            w.update({k: b[k] for k in ('exc', 'msg', 'site', 'frames', 'repo_site') if k in b})
            w.setdefault('observed', '%s: %s' % (b.get('exc'), b.get('msg', '')[:160]))
        return
    if cls == 'struct':
        w['observed'] = 'bqskit per-qubit labels %s' % (o['bq']['labels'],)
        w['expected'] = 'qiskit per-qubit labels %s' % (o['qk']['labels'],)
    elif cls == 'width':
        w['observed'] = 'bqskit width %d' % o['bq']['n']
        w['expected'] = 'qiskit width %d' % o['qk']['n']
    else:
        w['observed'] = 'cost1(bqskit, qiskit) = %.3e' % o.get('cost1', float('nan'))
        w['expected'] = 'cost1 <= %g (equal up to bit order and global phase)' % TOL


# ---------------------------------------------------------------------------
# engine (b): programs
# ---------------------------------------------------------------------------
def prog_case(arg: tuple[int, int]) -> dict[str, Any]:
    seed, idx = arg
    rng = core.rng_for(seed, PID, 2, idx)
    out: dict[str, Any] = {'c': {}, 'w': [], 'engine': 'program'}

    def cnt(k: str, v: int = 1) -> None:
        out['c'][k] = out['c'].get(k, 0) + v
    try:
        prog = Q.gen_valid_program(rng, None, bqskit_only_builtins())
        text = Q.render_program(prog)
        feats = Q.program_features(prog)
    except BaseException as e:  # noqa (pyo3 panics derive from BaseException)
        _fatal(e)
        out['harness'] = 'generator: %s %s' % (type(e).__name__, str(e)[:200])
        return out
    out['sig'] = core.sig_of(text)
    out['features'] = sorted(feats)
    return _judge_program(prog, text, feats, out, cnt)


def _judge_program(prog: dict[str, Any], text: str, feats: set[str], out: dict[str, Any], cnt: Any) -> dict[str, Any]:
    o = compare_text(text)
    if 'qk_reject' in o:
        cnt('prog_qiskit_rejected')
        out['qk_reject'] = {'msg': o['qk_reject'], 'text': text}
        out['nontrivial'] = False
        return out
    cnt('prog_translated_by_qiskit')
    if o['bq']['status'] == 'ok':
        cnt('prog_translated_by_both')
        cnt('prog_unitary_compared')
        cnt('prog_structure_compared')
        nb = sum(1 for l in o['qk']['labels'] for x in l if x[0] == 'B')
        nm = sum(1 for l in o['qk']['labels'] for x in l if x[0] == 'M')
        nr = sum(1 for l in o['qk']['labels'] for x in l if x[0] == 'R')
        cnt('prog_barrier_labels', nb)
        cnt('prog_measure_labels', nm)
        cnt('prog_reset_labels', nr)
    for f in feats:
        if not f.startswith('gate:') and not f.startswith('lit:') and not f.startswith('layout'):
            cnt('feat:' + f)
            if o['bq']['status'] == 'ok':
                cnt('compared_feat:' + f)
    ngates = sum(1 for l in o['qk']['labels'] for x in l if x[0] == 'g')
    out['nontrivial'] = ngates >= 1
    out['sample'] = {'engine': 'program', 'text': text, 'features': sorted(feats), 'agree': not o['classes']}
    if o['classes']:
        cnt('prog_disagreements')
    for cls in o['classes']:
        try:
            w = classify_program_failure(prog, cls, o)
        except BaseException as e:  # noqa (pyo3 panics derive from BaseException)
            _fatal(e)
            out['harness'] = 'classifier: %s %s %s' % (type(e).__name__, str(e)[:200], core.short_tb(e))
            continue
        w['original_text'] = text
        out['w'].append(w)
        cnt('disagreements_classified')
    return out


# out-of-subset probes: register broadcast of gates is not in the list of the
# statement; a clean rejection is "outside the supported subset".
OUT_OF_SUBSET = [
    'OPENQASM 2.0;\ninclude "qelib1.inc";\nqreg q[2];\nh q;\n',
    'OPENQASM 2.0;\ninclude "qelib1.inc";\nqreg a[2];\nqreg b[2];\ncx a,b;\n',
    'OPENQASM 2.0;\ninclude "qelib1.inc";\nqreg a[2];\nqreg b[2];\ncx a[0],b;\n',
    'OPENQASM 2.0;\ninclude "qelib1.inc";\nqreg q[3];\nrz(pi/2) q;\n',
]


def probe_out_of_subset(run: core.Run) -> None:
    for text in OUT_OF_SUBSET:
        b = bq_view(text)
        if b['status'] == 'exc' and b['clean_rejection']:
            run.count('rejected_input:out_of_subset_gate_broadcast')
        elif b['status'] == 'exc':
            run.count('out_of_subset_gate_broadcast_crash:' + b['exc'])
        else:
            q = qk_view(text)
            run.count('out_of_subset_gate_broadcast_accepted')
            if q['status'] == 'ok' and b['n'] == q['n'] and not (refsim.cost1(b['U'], q['U']) <= TOL):
                run.violation({
                    'kind': 'diff:unitary:gate_broadcast_accepted_but_wrong', 'engine': 'program',
                    'text': text, 'observed': 'cost1 %.3e' % refsim.cost1(b['U'], q['U']),
                })


# ---------------------------------------------------------------------------
# engine (c): expressions
# ---------------------------------------------------------------------------
def expr_program(e: list, mode: int, vals: list[float], inner: list[list] | None = None) -> tuple[str, str]:
    """Program text applying u1(<e>) once. mode 0: top level; 1: inside
    gate g(a,b); 2: g called from h(c,d) with argument expressions `inner`.
    Returns (text, text with all parentheses stripped)."""
    def mk(strip: bool) -> str:
        s = Q.render_expr(e, strip)
        head = 'OPENQASM 2.0;\ninclude "qelib1.inc";\nqreg q[1];\n'
        if mode == 0:
            return head + 'u1(%s) q[0];\n' % s
        g = 'gate gg(a,b) x0 { u1(%s) x0; }\n' % s
        if mode == 1:
            return head + g + 'gg(%r,%r) q[0];\n' % (vals[0], vals[1])
        assert inner is not None
        h = 'gate hh(c,d) x1 { gg(%s,%s) x1; }\n' % (Q.render_expr(inner[0], strip), Q.render_expr(inner[1], strip))
        return head + g + h + 'hh(%r,%r) q[0];\n' % (vals[0], vals[1])
    return mk(False), mk(True)


def bq_value(text: str) -> dict[str, Any]:
    try:
        with warnings.catch_warnings():
            warnings.simplefilter('ignore')
            c = _lang().decode(text)
        ops = list(c)
        if len(ops) != 1 or len(ops[0].params) != 1:
            return {'status': 'shape', 'ops': [repr(o) for o in ops]}
        return {'status': 'ok', 'v': float(ops[0].params[0])}
    except BaseException as ex:  # noqa (pyo3 panics derive from BaseException)
        _fatal(ex)
        return {'status': 'exc', **exc_info(ex)}


def qk_value(text: str) -> dict[str, Any]:
    import qiskit.qasm2 as q2
    try:
        qc = q2.loads(text, custom_instructions=q2.LEGACY_CUSTOM_INSTRUCTIONS)
        op = qc.data[0].operation
        while op.name != 'u1':
            op = op.definition.data[0].operation
        return {'status': 'ok', 'v': float(op.params[0])}
    except BaseException as ex:  # noqa (pyo3 panics derive from BaseException)
        _fatal(ex)
        return {'status': 'reject', 'msg': '%s: %s' % (type(ex).__name__, str(ex)[:160])}


def close(a: float, b: float) -> bool:
    return bool(np.isfinite(a) and np.isfinite(b) and abs(a - b) <= 1e-12 + PARAM_RTOL * 8 * max(abs(a), abs(b)))


def py_reading_raises(exprs: list[list], exc_name: str) -> bool:
    """Does Python's reading of one of these (closed) expressions, with all
    parentheses removed, raise `exc_name`? Classification aid only."""
    for e in exprs:
        if not Q._closed(e):
            continue
        try:
            Q.py_eval_text(Q.render_expr(e, True))
        except BaseException as ex:  # noqa
            if type(ex).__name__ == exc_name:
                return True
    return False


def same_value(a: float, b: float) -> bool:
    """close(), extended to equal infinities / both NaN (hypothesis tests)."""
    if np.isfinite(a) and np.isfinite(b):
        return close(a, b)
    return bool((np.isnan(a) and np.isnan(b)) or a == b)


def expr_outcome(e: list, mode: int, vals: list[float], inner: list[list] | None) -> dict[str, Any]:
    text, stripped = expr_program(e, mode, vals, inner)
    qv = qk_value(text)
    out: dict[str, Any] = {'text': text, 'stripped': stripped, 'qk': qv, 'cls': None}
    if qv['status'] != 'ok':
        out['cls'] = 'qk_reject'
        return out
    bv = bq_value(text)
    out['bq'] = bv
    if bv['status'] == 'exc':
        out['cls'] = 'exc'
    elif bv['status'] != 'ok':
        out['cls'] = 'shape'
    elif not close(bv['v'], qv['v']):
        out['cls'] = 'value'
    return out


def _env_for(mode: int, vals: list[float], inner: list[list] | None) -> dict[str, float]:
    if mode == 0:
        return {}
    if mode == 1:
        return {'a': vals[0], 'b': vals[1]}
    env2 = {'c': vals[0], 'd': vals[1]}
    assert inner is not None
    return {'a': Q.eval_expr(inner[0], env2), 'b': Q.eval_expr(inner[1], env2)}


def expr_case(arg: tuple[int, int]) -> dict[str, Any]:
    seed, idx = arg
    rng = core.rng_for(seed, PID, 3, idx)
    out: dict[str, Any] = {'c': {}, 'w': [], 'engine': 'expr'}

    def cnt(k: str, v: int = 1) -> None:
        out['c'][k] = out['c'].get(k, 0) + v
    mode = int(rng.choice([0, 0, 1, 1, 2]))
    vals = [float(np.round(rng.uniform(0.2, 3.0), 3)), float(np.round(rng.uniform(0.2, 3.0), 3))]
    if rng.random() < 0.3:
        vals[int(rng.integers(2))] *= -1.0
    inner = None
    try:
        e = None
        for _ in range(50):
            if mode == 2:
                inner = [Q.gen_valid_expr(rng, int(rng.integers(0, 3)), ['c', 'd'], [{'c': vals[0], 'd': vals[1]}]) for _ in range(2)]
            try:
                env = _env_for(mode, vals, inner)
            except Q.Domain:
                continue
            rich = bool(rng.random() < 0.6)
            funcs = Q.FUNCS if rng.random() < 0.6 else ('sin', 'cos', 'tan', 'ln')
            cand = Q.gen_expr(rng, int(rng.integers(1, 5)), ['a', 'b'] if mode else [], funcs, rich)
            try:
                want = Q.eval_expr(cand, env)
                e = cand
                break
            except Q.Domain:
                continue
        if e is None:
            e, want = ['pi'], float(np.pi)
    except BaseException as ex:  # noqa (pyo3 panics derive from BaseException)
        _fatal(ex)
        out['harness'] = 'expr generator: %s %s' % (type(ex).__name__, str(ex)[:200])
        return out
    return _judge_expr(e, mode, vals, inner, want, out, cnt)


def _judge_expr(e: list, mode: int, vals: list[float], inner: list[list] | None, want: float, out: dict[str, Any], cnt: Any) -> dict[str, Any]:
    o = expr_outcome(e, mode, vals, inner)
    feats = Q.expr_features(e)
    out['sig'] = core.sig_of(o['text'])
    out['features'] = sorted(feats)
    out['nontrivial'] = e[0] not in ('num', 'pi', 'id')
    if o['cls'] == 'qk_reject':
        cnt('expr_qiskit_rejected')
        out['qk_reject'] = {'msg': o['qk']['msg'], 'text': o['text']}
        out['nontrivial'] = False
        return out
    cnt('expr_evaluated_by_qiskit')
    if not close(want, o['qk']['v']):
        out['oracle_disagreement'] = {'text': o['text'], 'qiskit': o['qk']['v'], 'own_evaluator': want}
        return out
    cnt('expr_oracles_agree')
    cnt('expr_mode%d' % mode)
    for f in feats:
        if not f.startswith('lit:'):
            cnt('exprfeat:' + f)
    out['sample'] = {'engine': 'expr', 'text': o['text'], 'qiskit_value': o['qk']['v'], 'bqskit': o.get('bq', {}).get('v', o.get('bq', {}).get('exc')), 'agree': o['cls'] is None}
    if o['cls'] is None:
        cnt('expr_values_compared')
        return out
    if o['cls'] == 'value':
        cnt('expr_values_compared')
    cnt('expr_disagreements')
    cls = o['cls']
    ref = o

    # shrink the state (expression, mode, actual values, inner arguments)
    def fails_state(st: tuple) -> bool:
        e2, mode2, vals2, inner2 = st
        try:
            Q.eval_expr(e2, _env_for(mode2, vals2, inner2))
        except Q.Domain:
            return False
        o2 = expr_outcome(e2, mode2, vals2, inner2)
        if o2['cls'] != cls:
            return False
        if cls == 'exc':
            return o2['bq']['exc'] == ref['bq']['exc'] and o2['bq']['repo_site'] == ref['bq']['repo_site'] and o2['bq']['exc_detail'] == ref['bq']['exc_detail']
        return True

    def state_candidates(st: tuple) -> Any:
        e2, mode2, vals2, inner2 = st
        if mode2 == 2:
            try:
                env = _env_for(2, vals2, inner2)
                yield (e2, 1, [float(env['a']), float(env['b'])], None)
            except Q.Domain:
                pass
        if mode2 >= 1 and Q._closed(e2):
            yield (e2, 0, vals2, None)
        if mode2 == 2 and inner2 is not None:
            for k in (0, 1):
                ren = json.loads(json.dumps(inner2[k]).replace('"c"', '"a"').replace('"d"', '"b"'))
                yield (ren, 1, vals2, None)
        env2 = None
        if mode2 == 1:
            env2 = {'a': vals2[0], 'b': vals2[1]}
        for cand in Q.expr_candidates(e2, env2):
            yield (cand, mode2, vals2, inner2)
        if inner2 is not None:
            for k in (0, 1):
                for cand in Q.expr_candidates(inner2[k], {'c': vals2[0], 'd': vals2[1]}):
                    ni = list(inner2)
                    ni[k] = cand
                    yield (e2, mode2, vals2, ni)
        if mode2 >= 1:
            for k in (0, 1):
                if vals2[k] < 0:
                    nv = list(vals2)
                    nv[k] = -nv[k]
                    yield (e2, mode2, nv, inner2)
                if vals2[k] not in (0.5, -0.5):
                    nv = list(vals2)
                    nv[k] = 0.5 if vals2[k] > 0 else -0.5
                    yield (e2, mode2, nv, inner2)

    def state_features(st: tuple) -> set[str]:
        f = set(Q.expr_features(st[0]))
        for x in st[3] or []:
            f |= Q.expr_features(x)
        return f

    state = (e, mode, vals, inner)
    evals = 0
    progress = True
    while progress and evals < SHRINK_BUDGET:
        progress = False
        cur_f = state_features(state) | {'lit:int', 'lit:neg'}
        for cand in state_candidates(state):
            # monotone: a step may not introduce a construct
            if not state_features(cand) <= cur_f:
                continue
            evals += 1
            if fails_state(cand):
                state, progress = cand, True
                break
    cur, mode, vals, cur_inner = state
    o = expr_outcome(cur, mode, vals, cur_inner)
    mf = set(Q.expr_features(cur))
    if cur_inner:
        for x in cur_inner:
            mf |= {'arg_' + f for f in Q.expr_features(x) if f not in ('lit:int',)}
    mf -= {'lit:int'}
    used = {s_[1] for _, s_ in Q._sub_exprs(cur) if s_[0] == 'id'}
    if mode >= 1 and any(v < 0 for k_, v in zip(('a', 'b'), vals) if k_ in used or mode == 2):
        mf.add('negative_actual')
    tag = '+'.join(sorted(mf)) if mf else 'baseline'
    if mode:
        tag += '@userdef%d' % mode
    w: dict[str, Any] = {
        'engine': 'expr', 'class': cls, 'text': o['text'], 'original_text': ref['text'],
        'expr_json': json.dumps(cur), 'inner_json': json.dumps(cur_inner), 'mode': mode, 'vals': vals, 'features': sorted(mf),
        'expected': 'value %r (Qiskit; own evaluator agrees)' % o['qk'].get('v'),
    }
    has_paren = 'paren' in mf or 'arg_paren' in mf
    if cls == 'exc':
        b = o['bq']
        w.update({k: b[k] for k in ('exc', 'msg', 'site', 'frames', 'repo_site')})
        w['observed'] = '%s: %s' % (b['exc'], b['msg'][:160])
        mode_s = 'reject' if b['clean_rejection'] else 'crash'
        if has_paren and b['exc'] in ('ZeroDivisionError', 'TypeError', 'OverflowError', 'ValueError', 'FloatingPointError'):
            qs = qk_value(o['stripped'])
            if qs['status'] != 'ok' or not np.isfinite(qs['v']) or py_reading_raises([cur] + list(cur_inner or []), b['exc']):
                w['kind'] = 'expr:parentheses_ignored:arithmetic_error'
                w['text_without_parentheses'] = o['stripped']
                out['w'].append(w)
                return out
        w['kind'] = 'decode:%s:%s:%s:%s' % (mode_s, tag, b['exc_detail'], b['repo_site'])
    elif cls == 'shape':
        w['observed'] = 'decoded operations %s' % (o['bq'].get('ops'),)
        w['kind'] = 'expr:shape:%s' % tag
    else:
        w['observed'] = 'value %r' % o['bq']['v']
        qs = qk_value(o['stripped'])
        if has_paren and qs['status'] == 'ok' and same_value(qs['v'], o['bq']['v']):
            w['kind'] = 'expr:parentheses_ignored' + ('' if np.isfinite(o['bq']['v']) else ':arithmetic_error')
            w['text_without_parentheses'] = o['stripped']
            w['observed'] += ' = value of the text with all parentheses removed'
        else:
            w['kind'] = 'expr:value:%s' % tag
    out['w'].append(w)
    return out


# ---------------------------------------------------------------------------
# engine (a): round trip
# ---------------------------------------------------------------------------
def _tokens(circ: Any) -> list[list[tuple]]:
    from bqskit.ir.gates.barrier import BarrierPlaceholder
    from bqskit.ir.gates.measure import MeasurementPlaceholder
    from bqskit.ir.gates.reset import Reset
    seq: list[list[tuple]] = [[] for _ in range(circ.num_qudits)]
    for op in circ:
        g = op.gate
        loc = tuple(int(q) for q in op.location)
        if isinstance(g, MeasurementPlaceholder):
            for q in loc:
                m = g.measurements.get(q)
                seq[q].append(('M', tuple(m) if m else None, None))
        elif isinstance(g, Reset):
            seq[loc[0]].append(('R', None, None))
        elif isinstance(g, BarrierPlaceholder):
            for q in loc:
                seq[q].append(('B', tuple(sorted(loc)), None))
        else:
            for q in loc:
                seq[q].append(('g', loc, op))
    return seq


def _full_params(op: Any) -> list[float]:
    from bqskit.ir.gates.composed.frozenparam import FrozenParameterGate
    if isinstance(op.gate, FrozenParameterGate):
        return [float(p) for p in op.gate.get_full_params(op.params)]
    return [float(p) for p in op.params]


def rt_outcome(cr: dict[str, Any], via_file: bool = False) -> dict[str, Any]:
    """Run one round trip. 'cls' None = property held on this circuit."""
    out: dict[str, Any] = {'cls': None, 'c': {}}
    try:
        circ = Q.build_circuit(cr)
        seq_a = _tokens(circ)
        _, items = bq_labels_and_items(circ)
        Ua = refsim.unitary_of_items(items, [2] * circ.num_qudits)
    except BaseException as e:  # noqa (pyo3 panics derive from BaseException)
        _fatal(e)
        out['cls'] = 'harness'
        out['detail'] = '%s %s %s' % (type(e).__name__, str(e)[:160], core.short_tb(e))
        return out
    try:
        text = circ.to('qasm')
        out['c']['rt_encode_calls'] = 1
    except BaseException as e:  # noqa (pyo3 panics derive from BaseException)
        _fatal(e)
        out['cls'] = 'encode_exc'
        out['exc'] = exc_info(e)
        return out
    out['text'] = text
    try:
        with warnings.catch_warnings():
            warnings.simplefilter('ignore')
            if via_file:
                from bqskit.ir.circuit import Circuit
                fd, path = tempfile.mkstemp(prefix='qasm-rt-', suffix='.qasm', dir='/tmp')
                try:
                    with os.fdopen(fd, 'w') as f:
                        f.write(text)
                    back = Circuit.from_file(path)
                finally:
                    os.unlink(path)
                out['c']['rt_from_file_calls'] = 1
            else:
                back = _lang().decode(text)
        out['c']['rt_decode_calls'] = 1
    except BaseException as e:  # noqa (pyo3 panics derive from BaseException)
        _fatal(e)
        out['cls'] = 'decode_exc'
        out['exc'] = exc_info(e)
        return out
    if back.num_qudits != circ.num_qudits:
        out['cls'] = 'width'
        out['detail'] = 'width %d -> %d' % (circ.num_qudits, back.num_qudits)
        return out
    try:
        seq_b = _tokens(back)
        _, items_b = bq_labels_and_items(back)
        Ub = refsim.unitary_of_items(items_b, [2] * back.num_qudits)
    except BaseException as e:  # noqa (pyo3 panics derive from BaseException)
        _fatal(e)
        out['cls'] = 'decoded_circuit_exc'
        out['exc'] = exc_info(e)
        return out
    # per-qubit order: token kinds, locations, per-operation unitary
    cache: dict[tuple[int, int], float] = {}
    for q in range(circ.num_qudits):
        a, b = seq_a[q], seq_b[q]
        if [(t[0], t[1]) for t in a] != [(t[0], t[1]) for t in b]:
            out['cls'] = 'order'
            out['detail'] = 'qubit %d: %s -> %s' % (q, [(t[0], t[1]) for t in a], [(t[0], t[1]) for t in b])
            return out
        for ta, tb in zip(a, b):
            if ta[0] != 'g':
                continue
            key = (id(ta[2]), id(tb[2]))
            if key not in cache:
                cache[key] = refsim.cost1(np.asarray(ta[2].get_unitary()), np.asarray(tb[2].get_unitary()))
                out['c']['rt_op_pairs_compared'] = out['c'].get('rt_op_pairs_compared', 0) + 1
                pa, pb = _full_params(ta[2]), _full_params(tb[2])
                if len(pa) == len(pb):
                    out['c']['rt_param_vectors_compared'] = out['c'].get('rt_param_vectors_compared', 0) + 1
                    for x, y in zip(pa, pb):
                        if not (x == y or abs(x - y) <= PARAM_RTOL * max(abs(x), abs(y))):
                            out['cls'] = 'params'
                            out['detail'] = 'qubit %d: params %r -> %r' % (q, pa, pb)
                            return out
                else:
                    out['c']['rt_param_vectors_not_comparable'] = out['c'].get('rt_param_vectors_not_comparable', 0) + 1
            if not (cache[key] <= TOL):
                out['cls'] = 'op_unitary'
                out['detail'] = 'qubit %d: %r -> %r cost1 %.3e' % (q, ta[2], tb[2], cache[key])
                return out
    out['c']['rt_order_compared'] = 1
    c1 = refsim.cost1(Ua, Ub)
    pd = refsim.phase_aligned_diff(Ua, Ub)
    out['c']['rt_unitary_compared'] = 1
    if not (c1 <= TOL) or not (pd <= PHASE_TOL):
        out['cls'] = 'unitary'
        out['detail'] = 'cost1 %.3e phase-aligned diff %.3e' % (c1, pd)
    return out


def rt_candidates(cr: dict[str, Any]) -> Any:
    import copy
    ops = cr['ops']
    for i in range(len(ops)):
        if len(ops) > 1:
            c = copy.deepcopy(cr)
            del c['ops'][i]
            yield c
    for i, op in enumerate(ops):
        g = op['g']
        if 'cg' in g:
            sub = g['cg']
            # unwrap
            c = copy.deepcopy(cr)
            new = []
            for so in sub['ops']:
                so2 = copy.deepcopy(so)
                so2['loc'] = [op['loc'][q] for q in so['loc']]
                new.append(so2)
            c['ops'][i:i + 1] = new
            if new:
                yield c
            for subc in rt_candidates(sub):
                c = copy.deepcopy(cr)
                c['ops'][i]['g'] = {'cg': subc}
                c['ops'][i]['params'] = [p for so in subc['ops'] for p in so['params']]
                yield c
        elif 'frozen' in g:
            u3 = {'cls': 'bqskit.ir.gates.parameterized.u3:U3Gate', 'kw': {}}
            canon = {'frozen': u3, 'fp': {'0': 0.5}}
            canon_all = {'frozen': u3, 'fp': {'0': 0.5, '1': 0.5, '2': 0.5}}
            if g != canon and g != canon_all:
                c = copy.deepcopy(cr)
                c['ops'][i] = {'g': canon, 'loc': op['loc'][:1], 'params': [0.5, 0.5]}
                yield c
                c = copy.deepcopy(cr)
                c['ops'][i] = {'g': canon_all, 'loc': op['loc'][:1], 'params': []}
                yield c
            c = copy.deepcopy(cr)
            base = Q.build_gate(g['frozen'])
            full = []
            it = iter(op['params'])
            for k in range(base.num_params):
                full.append(float(g['fp'][str(k)]) if str(k) in g['fp'] else next(it))
            c['ops'][i]['g'] = g['frozen']
            c['ops'][i]['params'] = full
            yield c
    for i, op in enumerate(ops):
        if any(p != 0.5 for p in op['params']) and 'cg' not in op['g']:
            c = copy.deepcopy(cr)
            c['ops'][i]['params'] = [0.5] * len(op['params'])
            yield c


def msg_class(msg: str) -> tuple[str, str]:
    """Shape of a decoder message (no numbers, no hashes)."""
    m = re.match(r'Unrecognized gate: (\w+)', msg)
    if m:
        name = m.group(1)
        return 'unrecognized_gate', ('circuitgate' if name.startswith('circuitgate_') else name)
    m = re.match(r'Expected (\d+) params got (\d+) params for gate (\w+)', msg)
    if m:
        name = m.group(3)
        return 'param_count', ('circuitgate' if name.startswith('circuitgate_') else name)
    if msg.startswith('Classical register redeclared'):
        return 'creg_redeclared', ''
    if re.match(r'Gate acts on (\d+) qubits, got (\d+) qubit variables', msg):
        return 'qubit_count', ''
    if re.search(r"'circuitgate_\d+' is already defined", msg):
        return 'duplicate_gate_definition', 'circuitgate'
    m = re.search(r"'(\w+)' takes (\d+) parameters?, but got (\d+)", msg)
    if m:
        return 'param_count', m.group(1)
    m = re.search(r"(\w+)\.__init__\(\) missing (\d+) required positional argument", msg)
    if m:
        return 'param_count_missing', m.group(1)
    return re.sub(r'[0-9]+', 'N', msg)[:50].strip().replace(' ', '_'), ''


def rt_descr(r: dict[str, Any]) -> str:
    if 'cg' in r:
        return 'cg[%s]' % ','.join(sorted({rt_descr(op['g']) for op in r['cg']['ops']}))
    if 'frozen' in r:
        return 'frozen[%s]' % rt_descr(r['frozen'])
    if 'cls' in r or 'ctrl' in r:
        try:
            return str(Q.build_gate(r).qasm_name)
        except Exception:  # noqa
            return Q._recipe_name(r)[0]
    return next(iter(r))


def shrink_recipe(cr: dict[str, Any], same: Any, budget: int = SHRINK_BUDGET) -> dict[str, Any]:
    cur = cr
    evals = 0
    progress = True
    while progress and evals < budget:
        progress = False
        for cand in rt_candidates(cur):
            evals += 1
            if same(cand):
                cur, progress = cand, True
                break
    return cur


def classify_rt(cr: dict[str, Any], ref: dict[str, Any], via_file: bool) -> dict[str, Any]:
    cls = ref['cls']

    def ident(o: dict[str, Any]) -> tuple:
        if 'exc' in o:
            return (o['cls'], o['exc']['exc'], msg_class(o['exc']['msg'])[0])
        return (o['cls'],)
    ref_id = ident(ref)
    cur = shrink_recipe(cr, lambda c: ident(rt_outcome(c, via_file)) == ref_id)
    o = rt_outcome(cur, via_file)
    names = sorted({rt_descr(op['g']) for op in cur['ops']})
    w: dict[str, Any] = {
        'engine': 'roundtrip', 'class': cls, 'circuit_json': json.dumps(cur), 'gates': names,
        'text': o.get('text'), 'via_file': via_file,
        'expected': 'decode(encode(c)) has the same unitary, per-qubit order and parameters',
    }
    gates = '+'.join(names)
    if 'exc' in o:
        b = o['exc']
        w.update({k: b[k] for k in ('exc', 'msg', 'site', 'frames', 'repo_site')})
        w['observed'] = '%s: %s' % (b['exc'], b['msg'][:160])
        stage = {'encode_exc': 'encode', 'decode_exc': 'decode', 'decoded_circuit_exc': 'decoded_circuit'}[cls]
        mc = msg_class(b['msg'])
        w['kind'] = 'roundtrip:%s:%s:%s:%s' % (stage, b['exc_detail'], mc[0], gates)
        w['message_gate'] = mc[1]
    else:
        w['observed'] = o.get('detail')
        w['kind'] = 'roundtrip:%s:%s' % (cls, gates)
    return w


def rt_case(arg: tuple) -> dict[str, Any]:
    out: dict[str, Any] = {'c': {}, 'w': [], 'engine': 'roundtrip'}
    if arg[0] == 'single':
        _, cr, entry, wrap = arg
        via_file = False
        out['c']['rt_single_gate_cases'] = 1
        out['single'] = [entry, wrap]
    else:
        _, seed, idx, exclude = arg
        rng = core.rng_for(seed, PID, 1, idx)
        try:
            # odd cases leave out the gates that already failed on their own,
            # so the rest of the table is exercised in depth
            tab = Q.qasm_gate_table()
            if exclude and idx % 2 == 1:
                tab = [e for e in tab if e['key'] not in exclude]
                out['c']['rt_cases_without_individually_failing_gates'] = 1
            cr = Q.gen_rt_circuit(rng, tab)
        except BaseException as e:  # noqa (pyo3 panics derive from BaseException)
            _fatal(e)
            out['harness'] = 'rt generator: %s %s' % (type(e).__name__, str(e)[:200])
            return out
        via_file = idx % 8 == 0
    names = Q.recipe_names(cr)
    out['sig'] = core.sig_of(cr)
    styles = sorted({Q.param_style(p) for op in cr['ops'] for p in op['params']})
    out['nontrivial'] = any(not n.startswith(('barrier', 'reset', 'measure')) for n in names)
    o = rt_outcome(cr, via_file)
    for k, v in o['c'].items():
        out['c'][k] = out['c'].get(k, 0) + v
    for s in styles:
        out['c']['rt_param_style:' + s] = 1
    if any(n.startswith('CG[') and 'CG[' in n[3:] for n in names):
        out['c']['rt_nested_circuitgate_cases'] = 1
    elif any(n.startswith('CG[') for n in names):
        out['c']['rt_circuitgate_cases'] = 1
    out['gates'] = sorted(set(names))
    out['sample'] = {'engine': 'roundtrip', 'gates': names[:12], 'n': cr['n'], 'qasm': (o.get('text') or '')[:600], 'held': o['cls'] is None}
    if o['cls'] is None:
        out['c']['rt_held'] = 1
        return out
    out['failed_cls'] = o['cls']
    if o['cls'] == 'harness':
        # the *original* circuit cannot be simulated (e.g. a library gate
        # whose get_unitary raises for an extreme parameter: C18's subject)
        out['c']['rt_skipped_original_not_simulatable'] = 1
        out['nontrivial'] = False
        out['skip_detail'] = o['detail']
        return out
    out['c']['rt_disagreements'] = 1
    try:
        w = classify_rt(cr, o, via_file)
        w['original_circuit_json'] = json.dumps(cr)
        out['w'].append(w)
        out['c']['disagreements_classified'] = 1
    except BaseException as e:  # noqa (pyo3 panics derive from BaseException)
        _fatal(e)
        out['harness'] = 'rt classifier: %s %s %s' % (type(e).__name__, str(e)[:200], core.short_tb(e))
    return out


# ---------------------------------------------------------------------------
# engine (d): ext translators
# ---------------------------------------------------------------------------
def _qelib_table() -> list[dict[str, Any]]:
    return [e for e in Q.qasm_gate_table() if e['qasm'] in Q.QELIB1]


def _clamp_params(cr: dict[str, Any]) -> None:
    """Angles like 1e16 make phi+lam lose all precision inside the *foreign*
    gate implementations (an artefact of their formulas, not of QASM): the
    translator comparison keeps |angle| <= 1e7."""
    for op in cr['ops']:
        op['params'] = [p / 1e12 if abs(p) > 1e7 else p for p in op['params']]
        g = op['g']
        if 'cg' in g:
            _clamp_params(g['cg'])
        if 'frozen' in g:
            g['fp'] = {k: (v / 1e12 if abs(v) > 1e7 else v) for k, v in g['fp'].items()}


def ext_outcome(cr: dict[str, Any], which: str) -> dict[str, Any]:
    """One translator round trip. 'kind' None = held."""
    o: dict[str, Any] = {'kind': None, 'c': {}}
    circ = Q.build_circuit(cr)
    U = refsim.unitary(circ)
    try:
        if which == 'qiskit':
            from bqskit.ext import bqskit_to_qiskit, qiskit_to_bqskit
            from qiskit.quantum_info import Operator
            fwd = bqskit_to_qiskit(circ)
            V = np.asarray(Operator(fwd).reverse_qargs().data)
            to_b = qiskit_to_bqskit
        elif which == 'pytket':
            from bqskit.ext import bqskit_to_pytket, pytket_to_bqskit
            fwd = bqskit_to_pytket(circ)
            V = np.asarray(fwd.get_unitary())
            to_b = pytket_to_bqskit
        else:
            import cirq
            from bqskit.ext import bqskit_to_cirq, cirq_to_bqskit
            fwd = bqskit_to_cirq(circ)
            V = np.asarray(cirq.unitary(fwd))
            to_b = cirq_to_bqskit
    except BaseException as e:  # noqa (pyo3 panics derive from BaseException)
        _fatal(e)
        info = exc_info(e)
        if which == 'qiskit':
            o['kind'] = 'ext:%s:to_foreign:%s' % (which, info['exc'])
            o['info'] = info
        else:
            o['c']['ext_%s_foreign_importer_rejected' % which] = 1
        return o
    o['c']['ext_%s_to_foreign' % which] = 1
    if V.shape != U.shape:
        o['kind'] = 'ext:%s:to_foreign:width' % which
        o['observed'] = '%s vs %s' % (V.shape, U.shape)
        return o
    c1 = refsim.cost1(U, V)
    if not (c1 <= TOL):
        o['kind'] = 'ext:%s:to_foreign:unitary' % which
        o['observed'] = 'cost1 %.3e' % c1
        return o
    try:
        back = to_b(fwd)
        W = refsim.unitary(back)
    except BaseException as e:  # noqa (pyo3 panics derive from BaseException)
        _fatal(e)
        info = exc_info(e)
        o['kind'] = 'ext:%s:to_bqskit:%s:%s' % (which, info['exc_detail'], info['repo_site'])
        o['info'] = info
        return o
    o['c']['ext_%s_to_bqskit' % which] = 1
    if W.shape != U.shape:
        o['kind'] = 'ext:%s:to_bqskit:width' % which
        o['observed'] = '%s vs %s' % (W.shape, U.shape)
        return o
    c2 = refsim.cost1(U, W)
    if not (c2 <= TOL):
        o['kind'] = 'ext:%s:roundtrip:unitary' % which
        o['observed'] = 'cost1 %.3e' % c2
    return o


def ext_case(arg: tuple[int, int, str]) -> dict[str, Any]:
    seed, idx, which = arg
    rng = core.rng_for(seed, PID, 4, idx)
    out: dict[str, Any] = {'c': {}, 'w': [], 'engine': 'ext'}
    tab = _qelib_table()
    if which != 'qiskit':
        # Cirq's and pytket's importers know fewer names: keep to a core set
        core_set = {'h', 'x', 'y', 'z', 's', 'sdg', 't', 'tdg', 'rx', 'ry', 'rz', 'cx', 'cz', 'swap', 'ccx', 'u3', 'u2', 'u1', 'cy', 'ch'}
        tab = [e for e in tab if e['qasm'] in core_set]
    try:
        cr = Q.gen_rt_circuit(rng, tab, placeholders=False)
        if which != 'qiskit':
            def flat(c: dict[str, Any]) -> bool:
                return all('cls' in op['g'] for op in c['ops'])
            tries = 0
            while not flat(cr) and tries < 50:
                cr = Q.gen_rt_circuit(rng, tab, placeholders=False)
                tries += 1
        _clamp_params(cr)
        # every qubit must be touched (Cirq drops idle qubits)
        used = {q for op in cr['ops'] for q in op['loc']}
        for q in range(cr['n']):
            if q not in used:
                cr['ops'].append({'g': next(e['recipe'] for e in tab if e['qasm'] == 'h'), 'loc': [q], 'params': []})
        o = ext_outcome(cr, which)
    except BaseException as e:  # noqa (pyo3 panics derive from BaseException)
        _fatal(e)
        out['harness'] = 'ext: %s %s %s' % (type(e).__name__, str(e)[:200], core.short_tb(e))
        return out
    out['sig'] = core.sig_of([which, cr])
    out['nontrivial'] = True
    out['c'] = dict(o['c'])
    out['sample'] = {'engine': 'ext', 'which': which, 'gates': Q.recipe_names(cr)[:10], 'held': o['kind'] is None}
    if o['kind'] is None:
        return out
    try:
        # idle qubits are fine for Qiskit; for the others keep all ops that
        # are the only one on their qubit
        def same(c: dict[str, Any]) -> bool:
            if which != 'qiskit' and {q for op in c['ops'] for q in op['loc']} != set(range(c['n'])):
                return False
            return ext_outcome(c, which)['kind'] == o['kind']
        cur = shrink_recipe(cr, same, 200)
        o2 = ext_outcome(cur, which)
        names = sorted({rt_descr(op['g']) for op in cur['ops']})
        kind = o2['kind']
        if 'info' in o2 and ':to_foreign:' in kind:
            mc = msg_class(o2['info']['msg'])
            kind += ':' + mc[0]
            if mc[0] != 'duplicate_gate_definition':
                kind += ':' + '+'.join(names)
        else:
            kind += ':' + '+'.join(names)
        w: dict[str, Any] = {
            'kind': kind, 'engine': 'ext', 'which': which, 'circuit_json': json.dumps(cur),
            'original_circuit_json': json.dumps(cr), 'gates': names, 'observed': o2.get('observed'),
            'text': Q.build_circuit(cur).to('qasm'),
        }
        if 'info' in o2:
            w.update({k: o2['info'][k] for k in ('exc', 'msg', 'site', 'frames')})
            w['observed'] = '%s: %s' % (o2['info']['exc'], o2['info']['msg'][:160])
        out['w'].append(w)
        out['c']['disagreements_classified'] = 1
    except BaseException as e:  # noqa (pyo3 panics derive from BaseException)
        _fatal(e)
        out['harness'] = 'ext classifier: %s %s %s' % (type(e).__name__, str(e)[:200], core.short_tb(e))
    return out


# ---------------------------------------------------------------------------
# driver
# ---------------------------------------------------------------------------
class Tally:
    def __init__(self, run: core.Run) -> None:
        self.run = run
        self.programs = 0
        self.disagreements = 0
        self.harness: list[str] = []
        self.qk_rejects: list[dict[str, Any]] = []
        self.oracle_dis: list[dict[str, Any]] = []
        self.gates_rt: set[str] = set()
        self.sample_by_engine: dict[str, int] = {}
        self.witnesses: list[dict[str, Any]] = []

    def merge(self, r: dict[str, Any]) -> None:
        run = self.run
        if 'harness' in r:
            self.harness.append(r['harness'])
            return
        eng = r.get('engine', '?')
        sample = None
        if r.get('sample') is not None and self.sample_by_engine.get(eng, 0) < (2 if eng != 'ext' else 1):
            # keep a couple of samples per engine
            self.sample_by_engine[eng] = self.sample_by_engine.get(eng, 0) + 1
            sample = r['sample']
        if sample is not None:
            run.max_samples = max(run.max_samples, 8)
        run.case(r.get('sig', 'nosig'), nontrivial=bool(r.get('nontrivial')), sample=sample)
        for k, v in r['c'].items():
            run.count(k, v)
        if 'qk_reject' in r:
            self.qk_rejects.append(r['qk_reject'])
        if 'oracle_disagreement' in r:
            self.oracle_dis.append(r['oracle_disagreement'])
        for g in r.get('gates', []):
            self.gates_rt.add(g)
        for w in r['w']:
            self.disagreements += 1
            if w['kind'].startswith('harness:'):
                self.harness.append(w['kind'])
                continue
            self.witnesses.append(w)

    def flush(self) -> None:
        """Report witnesses: one of every kind first, so that the limited
        number of replay files covers as many mechanisms as possible."""
        first: dict[str, dict[str, Any]] = {}
        rest = []
        for w in self.witnesses:
            if w['kind'] not in first:
                first[w['kind']] = w
            else:
                rest.append(w)
        self.run.max_violation_files = max(self.run.max_violation_files, min(60, len(first)))
        for k in sorted(first):
            self.run.violation(first[k])
        for w in rest:
            self.run.violation(w)
        self.witnesses = []


def main(tier: str, seed: int, replay: str | None = None) -> int:
    run = core.Run(PID, tier, seed, level='translation_validation')
    if replay:
        return do_replay(run, replay)
    counts = COUNTS['thorough' if tier == 'thorough' else 'quick']
    workers = min(16, os.cpu_count() or 4)
    env_w = os.environ.get('VERIF_WORKERS')
    if env_w:
        workers = max(1, int(env_w))
    tally = Tally(run)

    # imports before forking so workers share them
    import qiskit.qasm2 as q2
    import qiskit.quantum_info  # noqa
    table = Q.qasm_gate_table()
    legacy = {ci.name: (ci.num_params, ci.num_qubits) for ci in q2.LEGACY_CUSTOM_INSTRUCTIONS}
    for g, sig in Q.QELIB1.items():
        if legacy.get(g) != sig:
            run.inconclusive_because('generator gate table disagrees with Qiskit for %s' % g)
    run.count('gate_table_entries', len(table))
    bqskit_only_builtins()
    import gc
    gc.collect()
    gc.freeze()   # fewer copy-on-write faults in the forked workers

    # (a) round trip: every table gate alone / wrapped / nested, then random
    rng0 = core.rng_for(seed, PID, 0)
    singles = [('single', s['circuit'], s['entry'], s['wrap']) for s in Q.single_gate_cases(table, rng0)]
    bad_alone: set[str] = set()
    for r in core.pmap(rt_case, singles, workers=workers, chunksize=8):
        tally.merge(r)
        if r.get('single') and r['single'][1] == 0 and r.get('failed_cls') in ('encode_exc', 'decode_exc'):
            bad_alone.add(r['single'][0])
    exclude = sorted(bad_alone)
    run.count('rt_gates_failing_alone', len(exclude))
    for r in core.pmap(rt_case, [('rand', seed, i, exclude) for i in range(counts['rt'])], workers=workers, chunksize=8):
        tally.merge(r)
    missing = {e['key'] for e in table} - {s[2] for s in singles}
    if missing:
        run.inconclusive_because('gates never round-tripped: %s' % sorted(missing))

    # (b) programs
    probe_out_of_subset(run)
    for r in core.pmap(prog_case, [(seed, i) for i in range(counts['prog'])], workers=workers, chunksize=4):
        tally.merge(r)

    # (c) expressions
    for r in core.pmap(expr_case, [(seed, i) for i in range(counts['expr'])], workers=workers, chunksize=16):
        tally.merge(r)

    # (d) ext translators
    ext_items = [(seed, i, 'qiskit') for i in range(counts['ext'])]
    for r in core.pmap(ext_case, ext_items, workers=workers, chunksize=4):
        tally.merge(r)
    if counts['ext_other']:
        for which in ('pytket', 'cirq'):
            try:
                __import__(which)
            except Exception:  # noqa
                run.count('ext_%s_not_importable' % which)
                continue
            for r in core.pmap(ext_case, [(seed, i, which) for i in range(counts['ext_other'])], workers=workers, chunksize=4):
                tally.merge(r)

    tally.flush()
    # harness health
    if run.counters.get('rt_skipped_original_not_simulatable', 0) > 0.05 * (counts['rt'] + len(singles)):
        run.inconclusive_because('too many round-trip inputs could not be simulated before encoding')
    nprog = counts['prog'] + counts['expr']
    if tally.harness:
        run.inconclusive_because('harness errors (%d), first: %s' % (len(tally.harness), tally.harness[0][:300]))
    if tally.oracle_dis:
        run.inconclusive_because('own evaluator and Qiskit disagree on %d expressions, first: %r' % (len(tally.oracle_dis), tally.oracle_dis[0]))
    if len(tally.qk_rejects) > 0.02 * nprog:
        run.inconclusive_because('Qiskit rejected %d generated programs, first: %r' % (len(tally.qk_rejects), tally.qk_rejects[0]))
    for c, m in (
        ('rt_encode_calls', 50), ('rt_decode_calls', 20), ('rt_single_gate_cases', len(table)),
        ('prog_translated_by_qiskit', 100), ('expr_evaluated_by_qiskit', 100),
        ('expr_oracles_agree', 100), ('ext_qiskit_to_foreign', 5),
    ):
        run.require(c, m)
    # monitors that only fire when both sides accept: require them unless
    # every such case ended in a classified disagreement
    for c, m in (
        ('rt_unitary_compared', 20), ('rt_order_compared', 20), ('rt_op_pairs_compared', 50),
        ('rt_param_vectors_compared', 20), ('prog_unitary_compared', 30), ('prog_structure_compared', 30),
        ('expr_values_compared', 50), ('prog_measure_labels', 5), ('prog_reset_labels', 5), ('prog_barrier_labels', 5),
        ('compared_feat:multi_qreg', 10), ('compared_feat:nested_userdef', 5), ('compared_feat:body_formal', 10),
        ('compared_feat:paren', 5), ('compared_feat:pow', 5), ('compared_feat:usub', 5), ('compared_feat:pi', 10),
    ):
        run.require(c, m)
    programs = (
        run.counters.get('prog_translated_by_both', 0) + run.counters.get('expr_values_compared', 0)
        + run.counters.get('rt_decode_calls', 0) + run.counters.get('ext_qiskit_to_bqskit', 0)
    )
    return run.finish(
        rule=(
            'distinct = distinct generated input (circuit recipe / program text); non-trivial = round trip: at least one '
            'unitary operation; program: Qiskit accepts it and it applies at least one gate; expression: not a bare literal/pi/'
            'identifier; ext: always (every qubit is touched)'
        ),
        assumptions=[
            'Qiskit qasm2.loads with LEGACY_CUSTOM_INSTRUCTIONS is the reference reading of a program; Operator(...).reverse_qargs() is its big-endian unitary',
            'measure/reset/barrier are removed before taking unitaries and compared structurally (per-qubit label sequences)',
            'supported subset = what the statement lists; generated programs use only those features (plus qelib1 gates, U, CX, comments, layout), so every rejection by BQSKit counts',
            'MeasurementPlaceholder.measurements is keyed by circuit qudit index (as RestoreMeasurements uses it)',
            'refsim (independent numpy simulator) computes every BQSKit-side unitary from the operations\' own get_unitary()',
        ],
        extra={
            'programs': int(programs),
            'disagreements_checked': int(tally.disagreements),
            'gate_table': sorted(e['key'] for e in table),
            'qiskit_rejected_generated_programs': len(tally.qk_rejects),
            'qiskit_reject_samples': tally.qk_rejects[:3],
            'bqskit_only_builtin_names': bqskit_only_builtins(),
        },
    )


# ---------------------------------------------------------------------------
# replay
# ---------------------------------------------------------------------------
def do_replay(run: core.Run, path: str) -> int:
    w = json.load(open(path))['witness']
    eng = w.get('engine')
    tally = Tally(run)
    out: dict[str, Any] = {'c': {}, 'w': [], 'engine': eng}

    def cnt(k: str, v: int = 1) -> None:
        out['c'][k] = out['c'].get(k, 0) + v
    Q.qasm_gate_table()
    if eng == 'roundtrip':
        for key in ('circuit_json', 'original_circuit_json'):
            if key in w:
                r = rt_case(('single', json.loads(w[key]), 'replay', 0))
                r['sig'] = key
                r['nontrivial'] = True
                tally.merge(r)
    elif eng == 'program':
        prog = json.loads(w['program_json'])
        text = Q.render_program(prog)
        out['sig'] = 'replay'
        tally.merge(_judge_program(prog, text, Q.program_features(prog), out, cnt))
        run.case('replay-text', nontrivial=True)
    elif eng == 'expr':
        e, mode, vals, inner = json.loads(w['expr_json']), int(w['mode']), [float(v) for v in w['vals']], json.loads(w['inner_json'])
        want = Q.eval_expr(e, _env_for(mode, vals, inner))
        tally.merge(_judge_expr(e, mode, vals, inner, want, out, cnt))
        run.case('replay-expr', nontrivial=True)
    elif eng == 'ext':
        cr = json.loads(w['circuit_json'])
        o = ext_outcome(cr, w['which'])
        run.case('replay-ext', nontrivial=True)
        if o['kind'] is not None:
            w2 = dict(w)
            w2['observed'] = o.get('observed') or (o.get('info') or {}).get('msg')
            if not w['kind'].startswith(o['kind']):
                w2['kind'] = o['kind']
            tally.witnesses.append(w2)
    else:
        print('unknown witness engine %r' % eng)
        return 2
    tally.flush()
    if tally.harness:
        run.inconclusive_because('harness: ' + tally.harness[0])
    kinds = sorted({x.get('kind') for x in run.violations} | {x.get('kind') for v in run.known.values() for x in v})
    print('replay: recorded kind %r; reproduced kinds %r' % (w.get('kind'), kinds))
    return run.finish(rule='replay of one recorded witness', min_distinct=1)


if __name__ == '__main__':
    core.main_entry(main)
