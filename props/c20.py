"""C20 — coupling-graph and qudit-permutation utilities match their definitions.

Differential runtime monitor: every public answer of CouplingGraph /
PermutationMatrix / UnitaryMatrix / UnitaryBuilder is compared with a
brute-force textbook definition written here (and networkx as a second
opinion), exhaustively over all labelled graphs on <= 5 (quick) / <= 6
(thorough) vertices and all permutations of <= 4/5 qudits, plus seeded random
larger inputs.
"""
from __future__ import annotations

import itertools
import warnings
from typing import Any

import numpy as np

from vlib import core
from vlib import gen
from vlib import refsim

PID = 'C20'


# ------------------------------------------------------------ definitions
def adj_of(n: int, edges: list[tuple[int, int]]) -> list[set[int]]:
    adj: list[set[int]] = [set() for _ in range(n)]
    for a, b in edges:
        adj[a].add(b)
        adj[b].add(a)
    return adj


def component(adj: list[set[int]], start: int, allowed: set[int]) -> set[int]:
    seen = {start}
    st = [start]
    while st:
        x = st.pop()
        for y in adj[x]:
            if y in allowed and y not in seen:
                seen.add(y)
                st.append(y)
    return seen


def bfs_hops(adj: list[set[int]], s: int) -> list[float]:
    n = len(adj)
    d = [np.inf] * n
    d[s] = 0
    fr = [s]
    while fr:
        nx = []
        for x in fr:
            for y in adj[x]:
                if d[y] == np.inf:
                    d[y] = d[x] + 1
                    nx.append(y)
        fr = nx
    return d


def weighted_apsp(n: int, w: dict[tuple[int, int], float]) -> list[list[float]]:
    """Bellman-Ford style relaxation to a fixed point (not Floyd-Warshall)."""
    D = [[np.inf] * n for _ in range(n)]
    for (a, b), x in w.items():
        D[a][b] = min(D[a][b], x)
        D[b][a] = min(D[b][a], x)
    for s in range(n):
        dist = list(D[s])
        changed = True
        while changed:
            changed = False
            for (a, b), x in w.items():
                for u, v in ((a, b), (b, a)):
                    if dist[u] + x < dist[v] - 1e-12:
                        dist[v] = dist[u] + x
                        changed = True
        for t in range(n):
            D[s][t] = dist[t]
    return D


# ------------------------------------------------------------ graph check
def check_graph(arg: tuple[int, list[tuple[int, int]], int, int]) -> dict[str, Any]:
    """Check every utility on one labelled graph. Returns counters and
    a list of witnesses."""
    from bqskit.qis.graph import CouplingGraph
    n, edges, seed, idx = arg
    rng = core.rng_for(seed, PID, 1, idx)
    out: dict[str, Any] = {'w': [], 'c': {}}

    def cnt(k: str, v: int = 1) -> None:
        out['c'][k] = out['c'].get(k, 0) + v

    def bad(kind: str, **kw: Any) -> None:
        out['w'].append(dict(kind=kind, n=n, edges=edges, **kw))

    def guarded(kind: str, f: Any, *a: Any, allow: tuple = ()) -> Any:
        try:
            return True, f(*a)
        except allow as e:
            return False, e
        except Exception as e:  # noqa
            bad(
                kind + ':raised', exc=type(e).__name__, msg=str(e)[:200],
                site=core.raising_site(e), args=core.jsonable(a),
            )
            return False, e

    # randomly flip edge orientation on input: the graph is undirected
    in_edges = [(b, a) if rng.random() < 0.5 else (a, b) for a, b in edges]
    g = CouplingGraph(in_edges, n)
    adj = adj_of(n, edges)
    eset = {tuple(sorted(e)) for e in edges}
    connected = len(component(adj, 0, set(range(n)))) == n

    # basic views
    if g.num_qudits != n or {tuple(sorted(e)) for e in g} != eset or len(g) != len(eset):
        bad('edge_view', got=sorted(g))
    cnt('edge_view')
    for q in range(n):
        if set(g.get_neighbors_of(q)) != adj[q] or len(g.get_neighbors_of(q)) != len(adj[q]):
            bad('neighbors', q=q, got=g.get_neighbors_of(q))
    if list(g.get_qudit_degrees()) != [len(a) for a in adj]:
        bad('degrees', got=g.get_qudit_degrees())
    cnt('neighbors_degrees')

    # connectivity
    ok, r = guarded('is_fully_connected', g.is_fully_connected)
    if ok and bool(r) != connected:
        bad('is_fully_connected', got=bool(r), want=connected)
    cnt('connectivity')
    if n >= 2:
        for q in range(n):
            rest = set(range(n)) - {q}
            s0 = min(rest)
            want = len(component(adj, s0, rest)) == n - 1
            ok, r = guarded('is_fully_connected_without', g.is_fully_connected_without, q)
            if ok and bool(r) != want:
                bad('is_fully_connected_without', q=q, got=bool(r), want=want)
            cnt('connectivity_without')

    # all pairs shortest paths (unit weights here; weighted variant below)
    w = {e: 1.0 for e in eset}
    ok, D = guarded('apsp', g.all_pairs_shortest_path)
    if ok:
        want = weighted_apsp(n, w)
        for i in range(n):
            for j in range(n):
                a, b = D[i][j], want[i][j]
                if i == j:
                    # distance to self: 0 by definition, or the length of
                    # the shortest closed walk in the adjacency-matrix
                    # convention the class documents (inf/2); accept 0 only
                    # when reported as min(D[i][i], ...) >= 0 and finite or inf
                    continue
                if not (a == b or abs(a - b) < 1e-9):
                    bad('apsp', i=i, j=j, got=a, want=b)
                    break
        cnt('apsp')

    # single-source shortest path tree
    for s in range(n):
        hops = bfs_hops(adj, s)
        if all(h < np.inf for h in hops):
            ok, paths = guarded('sp_tree', g.get_shortest_path_tree, s)
            if ok:
                if len(paths) != n:
                    bad('sp_tree_len', s=s, got=len(paths))
                else:
                    for t, p in enumerate(paths):
                        p = tuple(p)
                        good = len(p) >= 1 and p[0] == s and p[-1] == t \
                            and len(p) - 1 == hops[t] \
                            and all(tuple(sorted((p[k], p[k + 1]))) in eset for k in range(len(p) - 1))
                        if not good:
                            bad('sp_tree', s=s, t=t, got=list(p), want_hops=hops[t])
                cnt('sp_tree')
        else:
            # unreachable vertices: the only acceptable answers are the
            # documented RuntimeError or paths for the reachable part
            try:
                paths = g.get_shortest_path_tree(s)
                for t, p in enumerate(paths):
                    if hops[t] == np.inf and len(p) > 0 and p[-1] == t:
                        bad('sp_tree_phantom_path', s=s, t=t, got=list(p))
            except RuntimeError:
                pass
            except Exception as e:  # noqa
                bad('sp_tree:raised', exc=type(e).__name__, msg=str(e)[:200], s=s)
            cnt('sp_tree_disconnected')

    # connected k-subsets
    for k in range(1, (n if n <= 6 else 3) + 1):
        ok, locs = guarded('subgraphs_of_size', g.get_subgraphs_of_size, k)
        if not ok:
            continue
        got = [frozenset(l) for l in locs]
        want = set()
        for sub in itertools.combinations(range(n), k):
            ss = set(sub)
            if len(component(adj, sub[0], ss)) == k:
                want.add(frozenset(sub))
        if len(got) != len(set(got)) or set(got) != want or any(len(l) != k for l in locs):
            bad(
                'subgraphs_of_size', k=k,
                missing=sorted(map(sorted, want - set(got))),
                extra=sorted(map(sorted, set(got) - want)),
                dup=len(got) - len(set(got)),
            )
        cnt('subgraphs_of_size')

    # sub graphs: a few random locations (all orders for small n)
    if n >= 1:
        nloc = 6 if n > 3 else 12
        for _ in range(nloc):
            k = int(rng.integers(1, n + 1))
            loc = [int(x) for x in rng.choice(n, size=k, replace=False)]
            # default numbering: index in the location sequence
            ok, sg = guarded('get_subgraph', g.get_subgraph, loc)
            # CircuitLocation keeps the order given
            if ok:
                ren = {q: i for i, q in enumerate(loc)}
                want_e = {
                    tuple(sorted((ren[a], ren[b]))) for a, b in eset
                    if a in ren and b in ren
                }
                if sg.num_qudits != k or {tuple(sorted(e)) for e in sg} != want_e:
                    bad('get_subgraph', loc=loc, got=sorted(sg), want=sorted(want_e))
                cnt('get_subgraph')
            # explicit, non order-preserving renumbering
            perm = [int(x) for x in rng.permutation(k)]
            ren = {q: perm[i] for i, q in enumerate(loc)}
            ok, sg = guarded('get_subgraph_renum', g.get_subgraph, loc, dict(ren))
            if ok:
                want_e = {
                    tuple(sorted((ren[a], ren[b]))) for a, b in eset
                    if a in ren and b in ren
                }
                if sg.num_qudits != k or {tuple(sorted(e)) for e in sg} != want_e:
                    bad('get_subgraph_renum', loc=loc, ren=ren, got=sorted(sg), want=sorted(want_e))
                cnt('get_subgraph_renum')
            if k >= 2:
                with warnings.catch_warnings():
                    warnings.simplefilter('ignore')
                    ok, ind = guarded('induced', g.get_induced_subgraph, loc)
                if ok:
                    want_e = {e for e in eset if e[0] in loc and e[1] in loc}
                    if {tuple(sorted(e)) for e in ind} != want_e or len(ind) != len(want_e):
                        bad('induced', loc=loc, got=sorted(ind), want=sorted(want_e))
                    cnt('induced')
                    # relabel the induced edge list with an explicit relabeling
                    if want_e:
                        verts = sorted({v for e in want_e for v in e})
                        p2 = [int(x) for x in rng.permutation(len(verts))]
                        rl = {v: p2[i] for i, v in enumerate(verts)}
                        with warnings.catch_warnings():
                            warnings.simplefilter('ignore')
                            ok, rg = guarded('relabel', CouplingGraph.relabel_subgraph, list(ind), dict(rl))
                        if ok:
                            w2 = {tuple(sorted((rl[a], rl[b]))) for a, b in want_e}
                            if {tuple(sorted(e)) for e in rg} != w2:
                                bad('relabel', rl=rl, got=sorted(rg), want=sorted(w2))
                            cnt('relabel')
                        with warnings.catch_warnings():
                            warnings.simplefilter('ignore')
                            ok, rg = guarded('relabel_default', CouplingGraph.relabel_subgraph, list(ind))
                        if ok:
                            # any bijection onto {0..|V|-1} is acceptable by
                            # the docstring's first reading; it must be
                            # isomorphic and contiguous
                            vs = {v for e in rg for v in e}
                            if len(rg) != len(want_e) or (vs and (min(vs) != 0 or max(vs) != len(verts) - 1)):
                                bad('relabel_default', got=sorted(rg), want_edges=len(want_e), nverts=len(verts))
                            cnt('relabel_default')
    return out


def embedded_brute(n1: int, e1: set, n2: int, e2: set) -> bool:
    if n1 > n2:
        return False
    for inj in itertools.permutations(range(n2), n1):
        if all(tuple(sorted((inj[a], inj[b]))) in e2 for a, b in e1):
            return True
    return False


def check_embed(arg: tuple[int, int]) -> dict[str, Any]:
    from bqskit.qis.graph import CouplingGraph
    import networkx as nx
    from networkx.algorithms import isomorphism
    seed, idx = arg
    rng = core.rng_for(seed, PID, 2, idx)
    out: dict[str, Any] = {'w': [], 'c': {}}
    n1 = int(rng.integers(1, 6))
    n2 = int(rng.integers(1, 7))

    def rg(n: int) -> list[tuple[int, int]]:
        pairs = [(i, j) for i in range(n) for j in range(i + 1, n)]
        p = rng.random()
        return [e for e in pairs if rng.random() < p]
    e1, e2 = rg(n1), rg(n2)
    g1, g2 = CouplingGraph(e1, n1), CouplingGraph(e2, n2)
    want = embedded_brute(n1, set(e1), n2, set(e2))
    G1 = nx.Graph()
    G1.add_nodes_from(range(n1))
    G1.add_edges_from(e1)
    G2 = nx.Graph()
    G2.add_nodes_from(range(n2))
    G2.add_edges_from(e2)
    want_nx = isomorphism.GraphMatcher(G2, G1).subgraph_is_monomorphic()
    if want != want_nx:
        out['w'].append(dict(kind='oracle_disagreement', e1=e1, e2=e2))
        return out
    try:
        got = bool(g1.is_embedded_in(g2))
        if got != want:
            out['w'].append(dict(kind='is_embedded_in', n1=n1, e1=e1, n2=n2, e2=e2, got=got, want=want))
    except Exception as e:  # noqa
        out['w'].append(dict(kind='is_embedded_in:raised', exc=type(e).__name__, msg=str(e)[:200], n1=n1, e1=e1, n2=n2, e2=e2))
    out['c']['is_embedded_in'] = 1
    out['c']['embed_true' if want else 'embed_false'] = 1
    return out


def check_random_weighted(arg: tuple[int, int]) -> dict[str, Any]:
    """Random graphs up to 12 vertices with weights and remote edges."""
    from bqskit.qis.graph import CouplingGraph
    import networkx as nx
    seed, idx = arg
    rng = core.rng_for(seed, PID, 3, idx)
    out: dict[str, Any] = {'w': [], 'c': {}}
    n = int(rng.integers(2, 13))
    pairs = [(i, j) for i in range(n) for j in range(i + 1, n)]
    p = rng.choice([0.1, 0.2, 0.4, 0.7])
    edges = [e for e in pairs if rng.random() < p]
    if rng.random() < 0.3 and n > 2:  # force an isolated vertex
        iso = int(rng.integers(n))
        edges = [e for e in edges if iso not in e]
    remote = [e for e in edges if rng.random() < 0.2]
    dw = float(rng.choice([1.0, 2.0, 0.5]))
    drw = float(rng.choice([100.0, 10.0, 3.0]))
    over = {e: float(rng.uniform(0.1, 20)) for e in edges if rng.random() < 0.2}
    try:
        g = CouplingGraph(edges, n, remote, dw, drw, over)
    except Exception as e:  # noqa
        out['w'].append(dict(kind='ctor:raised', exc=type(e).__name__, msg=str(e)[:200], n=n, edges=edges))
        return out
    w = {}
    for e in edges:
        w[e] = dw
    for e in remote:
        w[e] = drw
    for e, x in over.items():
        w[e] = x
    want = weighted_apsp(n, w)
    G = nx.Graph()
    G.add_nodes_from(range(n))
    for e, x in w.items():
        G.add_edge(*e, weight=x)
    nxd = dict(nx.all_pairs_dijkstra_path_length(G))
    D = g.all_pairs_shortest_path()
    for i in range(n):
        for j in range(n):
            if i == j:
                continue
            a = D[i][j]
            b = want[i][j]
            c = nxd[i].get(j, np.inf)
            if abs(b - c) > 1e-9 and not (b == np.inf and c == np.inf):
                out['w'].append(dict(kind='oracle_disagreement', n=n, edges=edges))
                return out
            if not (a == b or abs(a - b) < 1e-9):
                out['w'].append(dict(kind='apsp_weighted', n=n, edges=edges, weights=core.jsonable({str(k): v for k, v in w.items()}), i=i, j=j, got=a, want=b))
                return out
    out['c']['apsp_weighted'] = 1
    # reuse the unweighted battery for big random graphs
    r = check_graph((n, edges, seed, 100000 + idx))
    out['w'].extend(r['w'])
    for k, v in r['c'].items():
        out['c']['big:' + k] = out['c'].get('big:' + k, 0) + v
    return out


def check_topologies() -> dict[str, Any]:
    from bqskit.qis.graph import CouplingGraph
    out: dict[str, Any] = {'w': [], 'c': {}}

    def es(g: Any) -> set:
        return {tuple(sorted(e)) for e in g}
    for n in range(2, 10):
        want = {
            'all_to_all': {(i, j) for i in range(n) for j in range(i + 1, n)},
            'linear': {(i, i + 1) for i in range(n - 1)},
            'ring': {(i, i + 1) for i in range(n - 1)} | ({(0, n - 1)} if n > 1 else set()),
            'star': {(0, i) for i in range(1, n)},
        }
        for name, w in want.items():
            try:
                g = getattr(CouplingGraph, name)(n)
                if es(g) != w or g.num_qudits != n:
                    out['w'].append(dict(kind='topology', name=name, n=n, got=sorted(es(g)), want=sorted(w)))
            except Exception as e:  # noqa
                out['w'].append(dict(kind='topology:raised', name=name, n=n, exc=type(e).__name__, msg=str(e)[:100]))
            out['c']['topology'] = out['c'].get('topology', 0) + 1
    for r in range(1, 5):
        for c in range(1, 5):
            if r * c < 2:
                continue
            w = set()
            for i in range(r):
                for j in range(c):
                    v = i * c + j
                    if j + 1 < c:
                        w.add((v, v + 1))
                    if i + 1 < r:
                        w.add((v, v + c))
            try:
                g = CouplingGraph.grid(r, c)
                if es(g) != w or g.num_qudits != r * c:
                    out['w'].append(dict(kind='topology', name='grid', r=r, c=c, got=sorted(es(g)), want=sorted(w)))
            except Exception as e:  # noqa
                out['w'].append(dict(kind='topology:raised', name='grid', r=r, c=c, exc=type(e).__name__, msg=str(e)[:100]))
            out['c']['topology'] = out['c'].get('topology', 0) + 1
    return out


# ------------------------------------------------------- permutations / kron
def check_perm(arg: tuple[int, int, tuple[int, ...]]) -> dict[str, Any]:
    from bqskit.qis.permutation import PermutationMatrix
    n, radix, loc = arg
    out: dict[str, Any] = {'w': [], 'c': {}}
    try:
        P = PermutationMatrix.from_qudit_location(n, radix, loc)
    except Exception as e:  # noqa
        out['w'].append(dict(kind='perm:raised', n=n, radix=radix, loc=list(loc), exc=type(e).__name__, msg=str(e)[:200]))
        return out
    order = list(loc) + [q for q in range(n) if q not in loc]
    want = refsim.perm_matrix([radix] * n, order)
    if P.shape != want.shape or not np.allclose(np.asarray(P), want, atol=1e-12):
        out['w'].append(dict(kind='perm_matrix', n=n, radix=radix, loc=list(loc)))
    out['c']['perm'] = 1
    return out


def check_kron(arg: tuple[int, int]) -> dict[str, Any]:
    from bqskit.qis.unitary.unitarybuilder import UnitaryBuilder
    from bqskit.qis.unitary.unitarymatrix import UnitaryMatrix
    seed, idx = arg
    rng = core.rng_for(seed, PID, 5, idx)
    out: dict[str, Any] = {'w': [], 'c': {}}

    def cnt(k: str) -> None:
        out['c'][k] = out['c'].get(k, 0) + 1
    n = int(rng.integers(1, 5))
    radixes = [int(rng.choice([2, 2, 3, 4])) for _ in range(n)]
    while refsim.dim_of(radixes) > 96:
        radixes = radixes[:-1]
        n -= 1
    desc = dict(radixes=radixes, idx=idx)
    # otimes
    parts = [gen.haar(rng, [r]) for r in radixes]
    try:
        got = parts[0].otimes(*parts[1:]) if n > 1 else parts[0].otimes()
        want = np.array([[1.0]])
        for p in parts:
            want = np.kron(want, np.asarray(p))
        if tuple(got.radixes) != tuple(radixes) or not np.allclose(np.asarray(got), want, atol=1e-10):
            out['w'].append(dict(kind='otimes', **desc))
    except Exception as e:  # noqa
        out['w'].append(dict(kind='otimes:raised', exc=type(e).__name__, msg=str(e)[:200], **desc))
    cnt('otimes')
    # ipower
    U = gen.haar(rng, radixes)
    for pw in (-3, -1, 0, 1, 2, 3):
        try:
            got = U.ipower(pw)
            want = np.linalg.matrix_power(np.asarray(U), pw) if pw >= 0 else \
                np.linalg.matrix_power(np.asarray(U).conj().T, -pw)
            if not np.allclose(np.asarray(got), want, atol=1e-9):
                out['w'].append(dict(kind='ipower', power=pw, **desc))
        except Exception as e:  # noqa
            out['w'].append(dict(kind='ipower:raised', power=pw, exc=type(e).__name__, msg=str(e)[:200], **desc))
        cnt('ipower')
    # apply_left / apply_right sequences
    try:
        b = UnitaryBuilder(n, radixes)
        M = np.eye(refsim.dim_of(radixes), dtype=complex)
        for _ in range(int(rng.integers(1, 7))):
            k = int(rng.integers(1, n + 1))
            loc = gen.rand_location(rng, n, k)
            g = gen.haar(rng, [radixes[q] for q in loc])
            full = refsim.embed_slow(np.asarray(g), loc, radixes)
            inv = bool(rng.random() < 0.3)
            gm = full.conj().T if inv else full
            if rng.random() < 0.5:
                b.apply_right(g, loc, inv)
                M = gm @ M
                cnt('apply_right')
            else:
                b.apply_left(g, loc, inv)
                M = M @ gm
                cnt('apply_left')
        got = np.asarray(b.get_unitary())
        if not np.allclose(got, M, atol=1e-9):
            out['w'].append(dict(kind='apply_left_right', **desc))
        # env matrix (defined for qubit systems): tr(E G) = tr(M embed(G))
        if all(r == 2 for r in radixes):
            k = int(rng.integers(1, n + 1))
            loc = gen.rand_location(rng, n, k)
            E = b.calc_env_matrix(loc)
            G = np.asarray(gen.haar(rng, [2] * k))
            lhs = np.trace(E @ G)
            rhs = np.trace(M @ refsim.embed_slow(G, loc, radixes))
            if abs(lhs - rhs) > 1e-8:
                out['w'].append(dict(kind='calc_env_matrix', loc=list(loc), **desc))
            cnt('env_matrix')
    except Exception as e:  # noqa
        out['w'].append(dict(kind='apply:raised', exc=type(e).__name__, msg=str(e)[:200], site=core.raising_site(e), **desc))
    return out


def merge(run: core.Run, r: dict[str, Any]) -> None:
    for k, v in r['c'].items():
        run.count(k, v)
    for w in r['w']:
        if w['kind'] == 'oracle_disagreement':
            run.inconclusive_because('the two reference oracles disagree: %r' % (w,))
        else:
            run.violation(w)


def main(tier: str, seed: int, replay: str | None = None) -> int:
    run = core.Run(PID, tier, seed)
    if replay:
        return do_replay(run, replay)
    maxn = 5 if tier == 'quick' else 6
    items = []
    idx = 0
    for n in range(1, maxn + 1):
        for edges in gen.all_labelled_graphs(n):
            items.append((n, edges, seed, idx))
            idx += 1
    res = core.pmap(check_graph, items, chunksize=64)
    for it, r in zip(items, res):
        n, edges = it[0], it[1]
        run.case(('g', n, edges), nontrivial=len(edges) >= 1, sample=None)
        merge(run, r)
    run.count('graphs_exhaustive', len(items))
    run.samples.append({'graph': {'n': items[-7][0], 'edges': items[-7][1]}})

    nrand = 300 if tier == 'quick' else 6000
    res = core.pmap(check_random_weighted, [(seed, i) for i in range(nrand)], chunksize=8)
    for i, r in enumerate(res):
        run.case(('rw', seed, i), nontrivial=True)
        merge(run, r)
    nemb = 400 if tier == 'quick' else 8000
    res = core.pmap(check_embed, [(seed, i) for i in range(nemb)], chunksize=16)
    for i, r in enumerate(res):
        run.case(('emb', seed, i), nontrivial=True)
        merge(run, r)
    merge(run, check_topologies())

    # permutations: every (full and partial) location
    pitems = []
    maxq = 4 if tier == 'quick' else 5
    for n in range(1, maxq + 1):
        for radix in (2, 3, 4):
            if radix ** n > (256 if tier == 'quick' else 1024):
                continue
            for k in range(1, n + 1):
                for loc in itertools.permutations(range(n), k):
                    pitems.append((n, radix, loc))
    res = core.pmap(check_perm, pitems, chunksize=32)
    for it, r in zip(pitems, res):
        run.case(('perm',) + it, nontrivial=list(it[2]) != sorted(it[2]) or len(it[2]) < it[0])
        merge(run, r)
    run.samples.append({'permutation': {'n': pitems[-1][0], 'radix': pitems[-1][1], 'location': list(pitems[-1][2])}})
    nk = 300 if tier == 'quick' else 5000
    res = core.pmap(check_kron, [(seed, i) for i in range(nk)], chunksize=8)
    for i, r in enumerate(res):
        run.case(('kron', seed, i), nontrivial=True)
        merge(run, r)
    for c in ('connectivity', 'apsp', 'sp_tree', 'subgraphs_of_size', 'get_subgraph_renum', 'is_embedded_in', 'perm', 'apply_left', 'apply_right', 'otimes', 'topology'):
        run.require(c, 1)
    return run.finish(
        rule='all labelled graphs on <=%d vertices (exhaustive) + seeded random weighted graphs on <=12 vertices + random graph pairs for embedding + all (partial) qudit locations of <=%d qudits, radix 2-4 + random mixed-radix Kronecker cases; distinct = distinct (kind, input); non-trivial = graph has >=1 edge / location is not the sorted full identity' % (maxn, maxq),
        assumptions=[
            'brute-force definitions in props/c20.py and networkx are the reference',
            'is_fully_connected means connected (statement); shortest-path tree is measured in hops, as the implementation documents',
            'self-distance D[i][i] of all_pairs_shortest_path is not constrained',
        ],
        extra={'exhaustive': True, 'exhaustive_subspace': 'labelled graphs on <=%d vertices; locations on <=%d qudits' % (maxn, maxq)},
    )


def do_replay(run: core.Run, path: str) -> int:
    import json
    w = json.load(open(path))['witness']
    kind = w['kind'].split(':')[0]
    if 'edges' in w and 'n' in w and kind not in ('is_embedded_in',):
        r = check_graph((w['n'], [tuple(e) for e in w['edges']], run.seed, 0))
        run.case(('replay', w['n'], w['edges']))
        run.case(('replay2',))
        merge(run, r)
    else:
        print('replay of kind %s: re-run ./check C20 with VERIF_SEED=%d' % (kind, run.seed))
        return 2
    return run.finish(rule='replay of one recorded graph')
