"""C14 — a crashed worker or manager unblocks every waiting client with an error.

Engine: simnet crash enumeration (MANIFEST level fault_enumeration): for base
executions (task tree x topology x schedule) one worker or manager is killed
after step i for every i (strided on long runs) between the moment the
runtime is up and the end of the run; thorough adds a second crash. The
victim's endpoints go dead exactly as when the OS closes the sockets of a
killed process: peers read EOF after draining what was already sent.
Oracle: every client call ends in an exception or in the complete correct
result; global quiescence with a blocked client is a hang; after a crash every
surviving runtime node terminates.
"""
from __future__ import annotations

from typing import Any

from vlib import core
from vlib.simnet import driver
from vlib.simnet import runner
from vlib.simnet import scen
from vlib.simnet import workloads as WL

PID = 'C14'

BUDGET = {
    # tier: (bases, max crash points per (base, victim), double-crash scenarios)
    'quick': (8, 40, 60),
    'thorough': (20, 80, 600),
}


def make_base(seed: int, idx: int) -> dict:
    rng = core.rng_for(seed, PID, 1, idx)
    sc = driver.sched_params(rng)
    kinds = [
        {'kind': 'attached', 'workers': 2}, {'kind': 'attached', 'workers': 3}, {'kind': 'attached', 'workers': 4},
        {'kind': 'detached', 'managers': [2], 'nested': False}, {'kind': 'detached', 'managers': [1, 2], 'nested': False},
        {'kind': 'detached', 'managers': [2, 2], 'nested': False}, {'kind': 'detached', 'managers': [1, 1], 'nested': True},
        {'kind': 'attached', 'workers': 1},
    ]
    topo = dict(kinds[idx % len(kinds)])
    g = scen.TreeGen(rng, 'c0t', max_tasks=int(rng.integers(8, 22)), cancel=bool(rng.random() < 0.25), raises=False, nexts=True, unawaited=True, wide=bool(rng.random() < 0.4))
    for _ in range(30):
        g.n = 0
        tree = g.tree(int(rng.integers(2, 4)))
        if scen.count_tasks(tree) >= 6:
            break
    t2 = {'tag': 'c0u1', 'steps': [['map', 'v1', [{'tag': 'c0u2', 'steps': []}, {'tag': 'c0u3', 'steps': []}]], ['await', 'v1']]}
    clients = [{'name': 'c0', 'ops': [['connect'], ['compile', tree], ['compile2', t2], ['quiesce', 'done'], ['close']]}]
    if topo['kind'] == 'detached':
        if rng.random() < 0.5:
            g2 = scen.TreeGen(rng, 'c1t', max_tasks=8, cancel=False, raises=False)
            clients.append({'name': 'c1', 'ops': [['connect'], ['compile', g2.tree(2)], ['quiesce', 'done'], ['close']]})
        p = {'tag': 'probe', 'steps': [['submit', 'v1', {'tag': 'probe1', 'steps': []}], ['await', 'v1']]}
        clients.append({'name': 'cz', 'ops': [['sleep', 30.0], ['connect'], ['compile', p], ['close']]})
    sc.update({'topology': topo, 'clients': clients, 'features': sorted(g.features), 'family': 'crash'})
    # every second base models TCP resets: a node that dies with unread data,
    # or that is written to after it died, makes its peer's read fail with
    # ConnectionResetError instead of EOF
    sc['resets'] = bool((idx // len(kinds)) % 2 == 0) if idx >= len(kinds) else bool(idx % 2)
    return sc


def crash_points(base: dict, max_pts: int) -> list[dict]:
    obs = runner.run_forked(base)
    if obs.get('end') != 'quiescent':
        return []
    t0 = max([c.get('ret_step') or 0 for c in obs['clients'] if c['op'] == 'connect' and c['client'] != 'cz'] + [0])
    t_end = max([c.get('ret_step') or 0 for c in obs['clients'] if c['op'].startswith('compile') and c['client'] != 'cz'] + [t0]) + 12
    victims = [n for n, p in obs['procs'].items() if p['kind'] in ('worker', 'manager')]
    out = []
    for v in victims:
        steps = list(range(t0 + 1, t_end))
        if len(steps) > max_pts:
            stride = len(steps) / max_pts
            steps = sorted({steps[int(i * stride)] for i in range(max_pts)})
        for i in steps:
            sc = dict(base)
            sc['crash'] = {str(i): v}
            sc['base_steps'] = obs['steps']
            out.append(sc)
    return out


def _compile2(sc: dict) -> dict:
    """Client op 'compile2' is a second blocking compile after the first."""
    sc = dict(sc)
    sc['clients'] = [dict(c, ops=[(['compile', o[1]] if o[0] == 'compile2' else o) for o in c['ops']]) for c in sc['clients']]
    return sc


def judge(sc: dict, obs: dict) -> tuple[list[dict], str | None]:
    inc = driver.sim_failed(obs)
    if inc:
        return [], inc
    w: list[dict] = []
    crashed = obs.get('crashed', [])
    trees = []
    for cl in sc['clients']:
        trees += [(cl['name'], o[1]) for o in cl['ops'] if o[0] in ('compile', 'compile2')]
    recs = [r for r in obs.get('clients', []) if r['op'] == 'compile']
    per_client: dict[str, list[dict]] = {}
    for r in recs:
        per_client.setdefault(r['client'], []).append(r)
    per_tree: dict[str, list[dict]] = {}
    for cl, t in trees:
        per_tree.setdefault(cl, []).append(t)
    for cl, rs in per_client.items():
        for r, t in zip(rs, per_tree.get(cl, [])):
            if r['outcome'] == 'value':
                val, ex = WL.interpret(t)
                got = r['value'].get('tree_result') if isinstance(r['value'], dict) else r['value']
                if scen.norm(got) != scen.norm(val):
                    w.append({'kind': 'result:incomplete_or_wrong_after_crash', 'client': cl, 'got': got, 'want': val})
    # values seen inside tasks must still be right (no partial results)
    w += [x for x in scen.check_values(sc, obs) if x['kind'] in ('await:wrong_value', 'next:wrong_value', 'next:duplicate_index', 'exec:ran_twice')]
    # hang: quiescent with a blocked client
    for x in scen.check_progress(sc, obs):
        x = dict(x)
        if crashed:
            x['kind'] = 'hang:livelock_after_crash' if x['kind'] == 'progress:livelock' else 'hang:client_blocked_after_crash'
        x['crashed'] = crashed
        w.append(x)
    # shut down rather than continue damaged
    if crashed and obs.get('end') == 'quiescent':
        alive = [n for n, p in obs.get('procs', {}).items() if p['kind'] in ('worker', 'manager', 'server') and not p['dead']]
        if alive:
            w.append({'kind': 'survivor:runtime_node_still_running', 'alive': alive, 'crashed': crashed,
                      'parked': [p for p in obs.get('parked', []) if p['proc'] in alive][:8]})
    return w, None


def crash_class(sc: dict, obs: dict) -> tuple:
    cr = obs.get('crashed', [])
    if not cr:
        return ('no_crash',)
    step, name, where = cr[0]
    last = None
    for m in obs.get('msglog', []):
        if m['step'] > step:
            break
        if m['ev'] == 'recv':
            last = (m['msg'][0], 'to_victim' if m['dst'] == name else ('from_victim' if m['src'] == name else 'other'))
    return (driver.topo_sig(sc['topology']), name[0], last, where)


def nontrivial(sc: dict, obs: dict) -> bool:
    return len(obs.get('crashed', [])) >= 1


def _pts(arg: tuple[dict, int]) -> list[dict]:
    return crash_points(arg[0], arg[1])


def main(tier: str, seed: int, replay: str | None = None) -> int:
    run = core.Run(PID, tier, seed, level='fault_enumeration')
    if replay:
        import json
        w = json.load(open(replay))['witness']
        if w.get('family') == 'procnet':
            rec = procnet_case((w['procnet']['seed'], w['procnet']['idx']))
            run.case('procnet-replay')
            run.case('procnet-replay-pad')
            for x in rec['witness']:
                run.violation(dict(x, family='procnet', procnet=w['procnet']))
            print('replayed procnet case: outcome=%s witnesses=%s' % (rec.get('outcome'), [x['kind'] for x in rec['witness']]))
            return run.finish(rule='replay of one real-process crash case', min_distinct=1)
        return driver.replay_main(run, replay, lambda sc, obs: judge(sc, obs), nontrivial)
    n_base, max_pts, n_double = BUDGET[tier]
    bases = [_compile2(make_base(seed, i)) for i in range(n_base)]
    scs: list[tuple[dict, str]] = []
    all_pts = core.pmap(_pts, [(b, max_pts) for b in bases], workers=min(8, len(bases)))
    for pts in all_pts:
        scs += [(s, 'single_crash') for s in pts]
    # double crashes: a second victim a few steps later
    rng = core.rng_for(seed, PID, 7)
    flat = [s for pts in all_pts for s in pts]
    for k in range(min(n_double, len(flat))):
        s0 = flat[int(rng.integers(len(flat)))]
        (i, v), = s0['crash'].items()
        names = ['w0', 'w1', 'm0', 'm1', 'w2', 'w536870912']
        v2 = str(rng.choice(names))
        if v2 == v:
            continue
        sc = dict(s0)
        sc['crash'] = {i: v, str(int(i) + int(rng.integers(1, 25))): v2}
        scs.append((sc, 'double_crash'))
    results = runner.run_many([s for s, _ in scs])
    acc = driver.Accountant(run)
    classes = set()
    for (sc, fam), obs in zip(scs, results):
        cc = crash_class(sc, obs)
        acc.add(sc, obs, fam, judge, nontrivial, sig_extra=None)
        if obs.get('crashed'):
            classes.add(cc)
            run.count('victim_role:' + ('worker' if obs['crashed'][0][1].startswith('w') else 'manager'))
            st = obs['crashed'][0][2]
            run.count('victim_state:' + ('idle' if 'main@qget' in st or 'main@select' in st else 'busy'))
        for c in obs.get('clients', []):
            if c['op'] == 'compile':
                run.count('client_compile_outcome:' + c['outcome'])
        run.count('survivor_uncaught_exceptions', len(obs.get('uncaught', [])))
        run.count('reads_failed_with_connection_reset', sum(1 for m in obs.get('msglog', []) if m['ev'] == 'recv_reset'))
        if sc.get('resets'):
            run.count('executions_with_tcp_reset_model')
    # fidelity tier: real processes, real SIGKILL
    n_proc = PROC_BUDGET[tier]
    precs = core.pmap(procnet_case, [(seed, i) for i in range(n_proc)], workers=4)
    for rec in precs:
        sig = ('procnet', rec['idx'], core.sig_of(rec['case']))
        eff = bool(rec.get('fault_effective')) and 'inconclusive' not in rec
        run.case(core.sig_of(sig), nontrivial=eff, sample={'family': 'procnet', 'case': rec['case'], 'events': rec['events'][:8], 'outcome': rec.get('outcome')} if rec['idx'] < 2 else None)
        run.count('executions:procnet')
        if 'inconclusive' in rec:
            run.count('procnet_inconclusive')
            run.extra.setdefault('inconclusive_examples', []).append(rec['inconclusive'])
            continue
        run.count('procnet_mode:' + rec['case']['mode'])
        run.count('procnet_topology:' + rec['case']['topology'])
        run.count('procnet_client_outcome:' + str(rec.get('outcome')))
        if eff:
            run.count('procnet_faults_effective')
        for x in rec['witness']:
            x = dict(x)
            x['family'] = 'procnet'
            x['procnet'] = {'seed': seed, 'idx': rec['idx']}
            x['events'] = rec['events']
            x['tree'] = rec['tree']
            run.violation(x)
    if run.counters.get('procnet_inconclusive', 0) > 0.3 * n_proc:
        run.inconclusive_because('%d of %d real-process cases were inconclusive' % (run.counters['procnet_inconclusive'], n_proc))
    run.require('procnet_faults_effective', 2)
    acc.finish_extra()
    run.extra['distinct_crash_classes'] = len(classes)
    run.extra['crash_classes_sample'] = sorted(map(repr, classes))[:20]
    run.extra['bases'] = len(bases)
    for c in ('crashes_injected', 'client_compile_outcome:raise', 'victim_role:worker', 'reads_failed_with_connection_reset', 'executions_with_tcp_reset_model'):
        run.require(c, 1)
    return run.finish(
        rule='for each base execution (tree x topology x schedule; attached 1-4 workers, detached 1-2 managers x 1-2 workers, one nested) kill each worker and each manager after step i for every i (strided to the per-victim cap) from "runtime is up" to a few steps past the last client answer; plus double crashes. distinct = (base, victim, crash step(s)); non-trivial = the crash was actually injected (victim alive at that step)',
        assumptions=driver.SIM_ASSUMPTIONS + [
            'crashes before the runtime finished starting (a worker that never connects) are out of scope of the statement ("during a compilation") and not injected',
            'a send to a dead peer succeeds once and raises BrokenPipeError afterwards (TCP behaviour after FIN/RST)',
            'half of the bases use the TCP reset model: a node that dies or closes while data for it is unread, or that is written to after it died, makes its peer\'s read at the end of its data fail once with ConnectionResetError instead of returning EOF (what a real kernel answers with RST); the other half deliver plain EOF',
            'bounded time is decided logically: the run must reach global quiescence with no client blocked; virtual time never decides',
        ],
    )


# ---------------------------------------------------------------- procnet
PROC_BUDGET = {'quick': 10, 'thorough': 100}
GRACE = 25.0


def procnet_case(arg: tuple[int, int]) -> dict:
    """One real-process crash case (child process owns client and runtime;
    this parent watches it from outside). Returns a JSON-able record."""
    import json
    import os
    import select
    import signal
    import subprocess
    import sys
    import time

    from vlib import procnet as P
    seed, idx = arg
    rng = core.rng_for(seed, PID, 20, idx)
    g = scen.TreeGen(rng, 'pt', max_tasks=int(rng.integers(8, 20)), cancel=False, raises=False, nexts=True, unawaited=False, wide=bool(rng.random() < 0.4))
    for _ in range(30):
        g.n = 0
        tree = g.tree(int(rng.integers(2, 4)))
        if scen.count_tasks(tree) >= 6:
            break
    tags: set[str] = set()
    WL._all_tags(tree, tags)
    val, ex = WL.interpret(tree)
    mode = str(rng.choice(['body', 'body', 'body', 'ext_busy', 'ext_idle']))
    topo = str(rng.choice(['attached', 'attached', 'detached']))
    case: dict[str, Any] = {'mode': mode, 'topology': topo, 'tree': tree, 'env': {},
                            'delay': float(rng.choice([0.0, 0.002, 0.01, 0.03, 0.1, 0.5])), 'victim_sel': float(rng.random())}
    if mode == 'body':
        pts = []

        def walk(t: dict) -> None:
            pts.append((t['tag'], 'start'))
            pts.append((t['tag'], 'end'))
            if any(s_[0] == 'await' for s_ in t['steps']):
                pts.append((t['tag'], 'mid'))
            for s_ in t['steps']:
                if s_[0] == 'submit':
                    walk(s_[2])
                elif s_[0] == 'map':
                    for c_ in s_[2]:
                        walk(c_)
        walk(tree)
        tag, phase = pts[int(rng.integers(len(pts)))]
        case['env']['VERIF_CRASH_AT'] = '%s:%s' % (tag, phase)
    if topo == 'attached':
        case['workers'] = int(rng.integers(2, 4))
    else:
        case['managers'] = [[2], [1, 1], [2, 1]][int(rng.integers(3))]
        case['victim_role'] = str(rng.choice(['worker', 'manager']))
    rec: dict[str, Any] = {'idx': idx, 'case': {k: v for k, v in case.items() if k != 'tree'}, 'tree': tree, 'witness': [], 'events': []}
    t0 = time.monotonic()
    child = subprocess.Popen(
        [sys.executable, os.path.join(core.ROOT, 'vlib', 'procnet_child.py'), json.dumps(case)],
        stdout=subprocess.PIPE, stderr=subprocess.DEVNULL, cwd=core.ROOT, start_new_session=True,
    )
    roots: list[int] = []

    def runtime_pids() -> list[int]:
        out = []
        for r in roots:
            out.append(r)
            out += P.descendants(r)
        return [p for p in out if P.alive(p)]

    buf = b''
    state = 'starting'
    t_state = time.monotonic()
    outcome = None
    try:
        while True:
            r, _, _ = select.select([child.stdout], [], [], 1.0)
            if r:
                chunk = os.read(child.stdout.fileno(), 65536)
                if not chunk:
                    break
                buf += chunk
                while b'\n' in buf:
                    line, buf = buf.split(b'\n', 1)
                    try:
                        ev = json.loads(line)
                    except ValueError:
                        continue
                    rec['events'].append({k: v for k, v in ev.items() if k != 'value'})
                    if ev['ev'] in ('up', 'spawned'):
                        roots = list(ev['roots'])
                    elif ev['ev'] == 'calling':
                        state = 'calling:' + ev['label']
                        t_state = time.monotonic()
                    elif ev['ev'] == 'ret':
                        state = 'returned:' + ev['label']
                        t_state = time.monotonic()
                        if ev['label'] == 'main':
                            outcome = ev
                    elif ev['ev'] == 'closed':
                        state = 'closed'
                        t_state = time.monotonic()
                continue
            waited = time.monotonic() - t_state
            if state == 'starting' and waited > 150:
                rec['inconclusive'] = 'runtime did not come up in 150s'
                break
            if state.startswith('calling') and waited > GRACE:
                live = runtime_pids() + [child.pid]
                if P.all_sleeping(live):
                    rec['witness'].append({
                        'kind': 'hang:client_blocked_after_crash:real_processes', 'mode': mode, 'topology': topo,
                        'state': state, 'case': rec['case'], 'surviving_runtime_processes': len(live) - 1, 'waited_s': round(waited, 1),
                    })
                    break
                if waited > 5 * GRACE:
                    rec['inconclusive'] = 'client call still running with busy processes after %.0fs' % waited
                    break
            if state.startswith('returned') and waited > 60:
                # close() itself hangs
                live = runtime_pids() + [child.pid]
                if P.all_sleeping(live):
                    rec['witness'].append({'kind': 'hang:close_blocked_after_crash:real_processes', 'case': rec['case'], 'waited_s': round(waited, 1)})
                else:
                    rec['inconclusive'] = 'close() still running after %.0fs' % waited
                break
        if state == 'starting' and 'inconclusive' not in rec:
            rec['inconclusive'] = 'runtime did not come up (child exited during start-up)'
        if outcome is not None:
            rec['outcome'] = outcome['outcome']
            if outcome['outcome'] == 'value':
                if scen.norm(outcome.get('value')) != scen.norm(val):
                    rec['witness'].append({'kind': 'result:incomplete_or_wrong_after_crash:real_processes', 'got': outcome.get('value'), 'want': val, 'case': rec['case']})
            else:
                rec['msg'] = outcome.get('msg', '')[-300:]
        killed = any(e['ev'] == 'killed' for e in rec['events']) or (mode == 'body' and rec.get('outcome') == 'raise')
        rec['fault_effective'] = bool(killed)
        # after the client got its answer and closed, nothing may linger
        if state == 'closed' and killed:
            t1 = time.monotonic()
            left = runtime_pids()
            while left and time.monotonic() - t1 < 25:
                time.sleep(0.25)
                left = runtime_pids()
            if left:
                rec['witness'].append({'kind': 'survivor:runtime_process_still_running:real_processes', 'count': len(left), 'case': rec['case'], 'client_outcome': rec.get('outcome')})
    finally:
        for p in runtime_pids():
            try:
                os.kill(p, signal.SIGKILL)
            except OSError:
                pass
        try:
            os.killpg(child.pid, signal.SIGKILL)
        except OSError:
            pass
        try:
            child.wait(timeout=10)
        except Exception:
            pass
        rec['wall'] = round(time.monotonic() - t0, 2)
    return rec
