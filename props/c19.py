"""C19 - Cost functions and instantiation are faithful to circuit semantics.

Two runtime monitors.

(A) cost monitor. For seeded random circuits (library gates evaluated by the
native engine, gates the engine evaluates through Python call-backs, composed
gates, nested CircuitGates, constant and variable unitaries, hand-written
pure-Python gates, qubits / qutrits / mixed radixes), random parameter
vectors and targets of the three kinds, every answer of
HilbertSchmidtCost / HilbertSchmidtResiduals is compared with the value
recomputed from the circuit's own unitary (refsim product of each gate's own
Python matrix): cost, cost at a phase-equal and at a perturbed target,
gradient vs the product-rule reference and vs central differences,
residual vector and Jacobian, `calc_cost`, and the same circuit with library
gates swapped for hand-written Python clones (native path vs Python path).

(B) instantiation monitor. `Circuit.instantiate` is run with QFactor and
Minimization x {Ceres, LBFGS, Scipy}, 1-8 starts, three target kinds; a
record-and-return wrapper on the per-start `instantiate` of the instantiater
classes captures every start's result; the monitor checks: same object
returned, structure unchanged, final parameters are one of the recorded
results and its independently recomputed cost is the least.
"""
from __future__ import annotations

import json
import os
import warnings
from typing import Any

import numpy as np

from vlib import core
from vlib import gen
from vlib import numchk as nc
from vlib import refsim

PID = 'C19'

# ---- budgets ------------------------------------------------------------
COST_CASES = {'quick': 1500, 'thorough': 20000}
INST_CASES = {'quick': 600, 'thorough': 6000}
DIM_CAP = {'quick': 36, 'thorough': 64}
GRAD_REF_MAX = 6
GRAD_FD_MAX = 2
JAC_MAX = 3
WORKERS = min(16, os.cpu_count() or 4)

TOL_COST = 1e-9
TOL_GRAD = 1e-8
TOL_FD = 2e-6
TOL_ARGMIN = 1e-10


# ------------------------------------------------------------ generators
def lib_pools() -> dict[str, list[Any]]:
    from bqskit.ir import gates as G
    return {
        'native1': [G.RXGate(), G.RYGate(), G.RZGate(), G.U1Gate(), G.U2Gate(), G.U3Gate()],
        'native2': [G.RXXGate(), G.RYYGate(), G.RZZGate(), G.CRXGate(), G.CRYGate(), G.CRZGate()],
        'dyn1': [G.PhasedXZGate(), G.U1qGate()],
        'dyn2': [G.CPGate(), G.CUGate(), G.FSIMGate(), G.DiagonalGate(2),
                 G.ControlledGate(G.RZGate()), G.ControlledGate(G.U3Gate())],
        'dyn3': [G.CCPGate()],
        'comp1': [G.DaggerGate(G.U3Gate()), G.PowerGate(G.RXGate(), 2),
                  G.FrozenParameterGate(G.U3Gate(), {1: 0.37}),
                  G.FrozenParameterGate(G.U3Gate(), {0: 1.1, 2: -0.6})],
        'const1': [G.HGate(), G.XGate(), G.TGate(), G.SXGate(), G.SGate(), G.ZGate()],
        'const2': [G.CNOTGate(), G.CZGate(), G.SwapGate(), G.ISwapGate(), G.SqrtISwapGate(), G.CHGate()],
        'const3': [G.CCXGate(), G.MargolusGate()],
        'qt1': [G.U8Gate()],
        'qtc1': [G.ClockGate(3), G.ShiftGate(3)] if _accepts_radix(G.ShiftGate) else [],
        'qtc2': [G.CSUMGate()],
    }


def _accepts_radix(cls: Any) -> bool:
    try:
        cls(3)
        return True
    except Exception:  # noqa
        return False


_POOLS: dict[str, list[Any]] | None = None


def pools() -> dict[str, list[Any]]:
    global _POOLS
    if _POOLS is None:
        _POOLS = lib_pools()
    return _POOLS


def pick(rng: np.random.Generator, xs: list[Any]) -> Any:
    return xs[int(rng.integers(len(xs)))]


def gate_for(rng: np.random.Generator, lr: list[int], flavor: str) -> tuple[Any, list[float]] | None:
    """A gate for local radixes `lr`; None if nothing fits."""
    from bqskit.ir.gates import VariableUnitaryGate
    P = pools()
    t = tuple(lr)
    r = rng.random()
    cands: list[Any] = []
    if t == (2,):
        if flavor == 'python':
            cands = [nc.PyGate(k) for k in ('rx', 'ry', 'rz', 'u1', 'u2', 'u3')] if r < 0.7 else P['const1']
        elif r < 0.45:
            cands = P['native1']
        elif r < 0.6:
            cands = P['dyn1'] + P['comp1']
        elif r < 0.7:
            cands = [nc.PyGate(k) for k in ('rx', 'rz', 'u3', 'u2')]
        else:
            cands = P['const1']
    elif t == (2, 2):
        if flavor == 'python':
            cands = [nc.PyGate(k) for k in ('rzz', 'rxx', 'ryy', 'crx', 'cry', 'crz', 'cp')] if r < 0.6 else P['const2']
        elif r < 0.35:
            cands = P['native2']
        elif r < 0.55:
            cands = P['dyn2']
        elif r < 0.62:
            cands = [nc.PyGate(k) for k in ('rzz', 'crz', 'cp', 'rxx')]
        else:
            cands = P['const2']
    elif t == (2, 2, 2):
        cands = P['dyn3'] if r < 0.4 else P['const3']
    elif t == (3,):
        if r < 0.4:
            cands = P['qt1']
        elif r < 0.7:
            cands = [nc.PyGate('qtrot'), nc.PyGate('qtph')]
        else:
            cands = P['qtc1']
    elif t == (3, 3):
        cands = P['qtc2'] if r < 0.6 else []
    elif t == (2, 3):
        cands = [nc.PyGate('cph23')] if r < 0.6 else []
    if flavor == 'variable' and r > 0.75 and refsim.dim_of(lr) <= 9:
        g = VariableUnitaryGate(len(lr), lr)
        u = np.asarray(gen.haar(rng, lr))
        return g, list(np.real(u).flatten()) + list(np.imag(u).flatten())
    if not cands:
        if refsim.dim_of(lr) > 27:
            return None
        return gen.random_unitary_gate(rng, lr), []
    g = pick(rng, cands)
    return g, gen.rand_params(rng, g.num_params, 'generic')


def cost_circuit(rng: np.random.Generator, radixes: list[int], depth: int, flavor: str, nest: int = 1) -> Any:
    from bqskit.ir.circuit import Circuit
    from bqskit.ir.gates import CircuitGate
    n = len(radixes)
    c = Circuit(n, list(radixes))
    tries = 0
    while c.num_operations < depth and tries < 6 * depth + 6:
        tries += 1
        k = int(rng.integers(1, min(3, n) + 1))
        loc = gen.rand_location(rng, n, k)
        lr = [radixes[q] for q in loc]
        if nest > 0 and rng.random() < 0.12:
            sub = cost_circuit(rng, lr, int(rng.integers(1, 4)), flavor, nest - 1)
            if sub.num_operations:
                c.append_gate(CircuitGate(sub), loc, sub.params)
            continue
        gp = gate_for(rng, lr, flavor)
        if gp is None:
            continue
        c.append_gate(gp[0], loc, gp[1])
    return c


def pick_radixes(rng: np.random.Generator, cap: int, style: str, nmax: int = 4) -> list[int]:
    n = int(rng.integers(1, nmax + 1))
    out: list[int] = []
    for _ in range(n):
        r = {'qubit': 2, 'qutrit': 3}.get(style) or int(rng.choice([2, 2, 3]))
        if refsim.dim_of(out + [r]) > cap:
            break
        out.append(r)
    return out or [2]


# ------------------------------------------------------------ python-call meter
class CallMeter:
    """Counts calls of `Gate.get_unitary` (the base implementation all
    expression-backed library gates share). Record-and-return."""

    def __init__(self) -> None:
        self.n = 0
        self.installed = False

    def install(self) -> None:
        if self.installed:
            return
        import functools
        from bqskit.ir.gate import Gate
        orig = Gate.get_unitary
        meter = self

        @functools.wraps(orig)
        def wrapper(self_: Any, params: Any = []) -> Any:
            meter.n += 1
            return orig(self_, params)
        Gate.get_unitary = wrapper  # type: ignore
        self.installed = True


METER = CallMeter()


# ------------------------------------------------------------ (A) cost monitor
class Ctx:
    def __init__(self, meta: dict[str, Any], circuit: Any) -> None:
        self.meta = meta
        self.circuit = circuit
        self.w: list[dict[str, Any]] = []
        self.c: dict[str, int] = {}

    def cnt(self, k: str, v: int = 1) -> None:
        self.c[k] = self.c.get(k, 0) + v

    def bad(self, kind: str, **kw: Any) -> None:
        d = dict(kind=kind, case=self.meta, circuit=gen.circuit_desc(self.circuit, 40))
        d.update(kw)
        if isinstance(d.get('target'), dict):
            d['target_kind'] = d['target'].get('kind')
        self.w.append(core.jsonable(d))

    def raised(self, api: str, e: BaseException, **kw: Any) -> None:
        self.bad(
            api + ':raised', exc=type(e).__name__, msg=str(e)[:300],
            site=core.raising_site(e), frames=core.repo_frames(e), **kw,
        )


def cost_grad_ref(T: nc.Target, U: np.ndarray, dU: np.ndarray) -> float:
    """d cost / d p from dU/dp (product rule reference), per target kind."""
    if T.kind == 'state':
        a = np.vdot(T.s, U[:, 0])
        da = np.vdot(T.s, dU[:, 0])
        return float(-2.0 * np.real(np.conj(a) * da))
    A = T.T if T.kind == 'unitary' else T.M
    k = T.dim if T.kind == 'unitary' else T.k
    t = np.trace(A.conj().T @ U)
    dt = np.trace(A.conj().T @ dU)
    return float(-np.real(np.conj(t) * dt) / (abs(t) * k))


def resid_jac_ref(T: nc.Target, U: np.ndarray, dU: np.ndarray) -> np.ndarray:
    if T.kind == 'state':
        return 2.0 * np.real(np.conj(U[:, 0] - T.s) * dU[:, 0])
    A = T.T if T.kind == 'unitary' else T.M
    m = dU @ A.conj().T
    return np.concatenate([m.real.ravel(), m.imag.ravel()])


def overlap_size(T: nc.Target, U: np.ndarray) -> float:
    if T.kind == 'state':
        return float(abs(np.vdot(T.s, U[:, 0])))
    A = T.T if T.kind == 'unitary' else T.M
    k = T.dim if T.kind == 'unitary' else T.k
    return float(abs(np.trace(A.conj().T @ U)) / k)


def case_params(rng: np.random.Generator, rows: list[dict[str, Any]], style: str) -> np.ndarray:
    """Parameter vector in the given style. VariableUnitaryGate parameters
    are the entries of an arbitrary matrix that the gate projects onto the
    closest unitary; that projection is unique only for non-singular
    matrices, so those slices are a Haar unitary plus 10% noise
    (well-conditioned, not unitary) whatever the style."""
    from bqskit.ir.gates import VariableUnitaryGate
    out: list[float] = []
    for r in rows:
        if r['n'] == 0:
            continue
        if isinstance(r['gate'], VariableUnitaryGate):
            d = int(round(np.sqrt(r['n'] / 2)))
            u = np.asarray(gen.haar(rng, list(r['gate'].radixes)))
            u = u + 0.1 * (rng.normal(size=(d, d)) + 1j * rng.normal(size=(d, d)))
            out += list(np.real(u).flatten()) + list(np.imag(u).flatten())
        elif _contains_variable(r['gate']):
            out += [float(v) for v in r['op'].params]
        else:
            out += gen.rand_params(rng, r['n'], style)
    return np.array(out, dtype=float)


def _contains_variable(g: Any) -> bool:
    from bqskit.ir.gates import CircuitGate, VariableUnitaryGate
    if isinstance(g, VariableUnitaryGate):
        return True
    if isinstance(g, CircuitGate):
        return any(_contains_variable(o.gate) for o in g._circuit)
    inner = getattr(g, 'gate', None)
    return inner is not None and _contains_variable(inner)


_BLAME_CACHE: dict[tuple[str, tuple[float, ...]], float] = {}


def native_gate_grad_diff(gate: Any, params: list[float]) -> float:
    """Diagnosis only: max |native single-gate gradient - the gate's own
    Python gradient| (0.0 when the engine calls back into Python)."""
    import bqskitrs
    from bqskit.ir.circuit import Circuit
    key = (repr(gate), tuple(round(float(v), 12) for v in params))
    if key not in _BLAME_CACHE:
        try:
            c = Circuit(gate.num_qudits, gate.radixes)
            c.append_gate(gate, list(range(gate.num_qudits)), params)
            _, gn = bqskitrs.Circuit(c).get_unitary_and_grad(list(params))
            gp = np.asarray(gate.get_grad(params))
            gn = np.asarray(gn)
            _BLAME_CACHE[key] = float(np.max(np.abs(gn - gp))) if gn.shape == gp.shape else float('inf')
        except BaseException:  # noqa
            _BLAME_CACHE[key] = float('nan')
    return _BLAME_CACHE[key]


def blame_of(rows: list[dict[str, Any]], p: np.ndarray, i: int) -> dict[str, Any]:
    """Which operation owns parameter i, and does the native engine's own
    gradient of that gate disagree with the gate's Python gradient?"""
    r = next(r for r in rows if r['off'] <= i < r['off'] + r['n'])
    sl = [float(v) for v in p[r['off']: r['off'] + r['n']]]
    d = native_gate_grad_diff(r['gate'], sl)
    name = type(r['gate']).__name__
    return {
        'owner_gate': name, 'owner_location': list(r['loc']),
        'native_single_gate_grad_diff': d,
        'native_grad_blame': name if (d == d and d > 1e-7) else None,
    }


def check_cost(x: Ctx, rng: np.random.Generator) -> None:
    from bqskit.ir.opt.cost.functions import HilbertSchmidtCostGenerator
    from bqskit.ir.opt.cost.functions import HilbertSchmidtResidualsGenerator
    c = x.circuit
    radixes = list(c.radixes)
    D = refsim.dim_of(radixes)
    rows = nc.op_table(c)
    nops = len(rows)
    npar = c.num_params
    p = case_params(rng, rows, x.meta['param_style'])
    U = nc.ref_unitary(c, p if npar else None, rows)
    kind = x.meta['target_kind']
    how = x.meta['target_mode']
    base = nc.random_target(rng, kind, radixes)
    if how == 'phase_equal':
        T = base.with_phase_of(U, float(rng.uniform(0.3, 2 * np.pi - 0.3)))
    elif how == 'perturbed':
        T = base.perturbed_from(U, nc.small_rotation(rng, D, float(rng.choice([1e-3, 0.05, 0.6]))))
    else:
        T = base
    want = T.cost(U)
    tol = TOL_COST * (nops + 1)
    gens = {'cost': HilbertSchmidtCostGenerator(), 'resid': HilbertSchmidtResidualsGenerator()}

    # ---- value of the cost function -------------------------------------
    try:
        n0 = METER.n
        py0 = dict(nc.PY_CALLS)
        cf = gens['cost'].gen_cost(c, T.obj)
        got = float(cf.get_cost(p))
        engine_calls = METER.n - n0
        if not abs(got - want) <= tol:
            x.bad('cost:value_mismatch', target=T.desc(), mode=how, got=got, want=want, params=p)
        if how == 'phase_equal' and not abs(got) <= tol:
            x.bad('cost:nonzero_at_phase_equal_target', target=T.desc(), got=got)
        if how == 'perturbed' and want > 1e-7 and not got > want / 2:
            x.bad('cost:zero_at_different_target', target=T.desc(), got=got, want=want)
        x.cnt('cost_value')
        x.cnt('cost_value:' + kind)
        x.cnt('cost_mode:' + how)
        names = {type(r['gate']).__name__ for r in rows if r['n'] > 0}
        if names and names <= set(nc.TWIN_OF) - {'CPGate'} and engine_calls == 0:
            x.cnt('engine_native_path_observed')
        if engine_calls > 0 or nc.PY_CALLS['unitary'] > py0['unitary']:
            x.cnt('engine_python_callback_observed')
    except BaseException as e:  # noqa
        nc.reraise_control(e)
        x.raised('HilbertSchmidtCost.get_cost', e, target=T.desc())
        return

    # ---- calc_cost on stored parameters ---------------------------------
    try:
        c2 = c.copy()
        if npar:
            c2.set_params(p)
        for gname, g in gens.items():
            v = float(g.calc_cost(c2, T.obj))
            if not abs(v - want) <= tol:
                x.bad('calc_cost:value_mismatch', generator=gname, target=T.desc(), got=v, want=want)
            v2 = float(g(c2, T.obj))
            if v2 != v:
                x.bad('calc_cost:call_vs_calc_cost', generator=gname, got=[v, v2])
        x.cnt('calc_cost', 2)
    except BaseException as e:  # noqa
        nc.reraise_control(e)
        x.raised('calc_cost', e, target=T.desc())

    # ---- residual function ----------------------------------------------
    rf = None
    try:
        rf = gens['resid'].gen_cost(c, T.obj)
        rc = float(rf.get_cost(p))
        if not abs(rc - want) <= tol:
            x.bad('residuals:get_cost_mismatch', target=T.desc(), got=rc, want=want)
        r = np.asarray(rf.get_residuals(p), dtype=float)
        rref = T.residuals(U)
        if r.shape != rref.shape or not np.max(np.abs(r - rref)) <= tol:
            x.bad('residuals:value_mismatch', target=T.desc(), mode=how,
                  got_norm2=float(np.sum(r ** 2)), want_norm2=float(np.sum(rref ** 2)),
                  got_len=int(r.size), want_len=int(rref.size))
        x.cnt('residuals_value')
        x.cnt('residuals_value:' + kind)
        # the statement's "zero exactly when equal up to global phase"
        if how == 'phase_equal':
            nr = float(np.linalg.norm(r))
            x.cnt('residuals_at_phase_equal')
            if not nr <= 1e-6:
                x.bad('residuals:nonzero_at_phase_equal_target:' + kind, target=T.desc(),
                      residual_norm=nr, cost=rc, dedupe=True)
    except BaseException as e:  # noqa
        nc.reraise_control(e)
        x.raised('HilbertSchmidtResiduals', e, target=T.desc())
        rf = None

    # ---- gradients ---------------------------------------------------------
    try:
        diffable = bool(c.is_differentiable())
    except Exception:  # noqa
        diffable = False
    ov = overlap_size(T, U)
    if npar > 0 and diffable and ov > 1e-3:
        try:
            g = np.asarray(cf.get_grad(p), dtype=float)
            cg_c, cg_g = cf.get_cost_and_grad(p)
            if g.shape != (npar,):
                x.bad('cost_grad:shape', got=list(g.shape), want=[npar])
            else:
                if not abs(float(cg_c) - got) <= 1e-12 or not np.max(np.abs(np.asarray(cg_g) - g)) <= 1e-12:
                    x.bad('cost_grad:get_cost_and_grad_inconsistent', target=T.desc())
                which = list(range(npar)) if npar <= GRAD_REF_MAX else \
                    sorted(int(i) for i in rng.choice(npar, size=GRAD_REF_MAX, replace=False))
                dUs = nc.ref_grad(c, p, rows, which)
                tg = TOL_GRAD * (nops + 1) / min(1.0, ov * 10)
                nbad = 0
                for i in which:
                    wg = cost_grad_ref(T, U, dUs[i])
                    if not abs(g[i] - wg) <= tg and nbad < 3:
                        nbad += 1
                        x.bad('cost_grad:vs_product_rule_reference', target=T.desc(), param=i,
                              got=float(g[i]), want=wg, params=p, **blame_of(rows, p, i))
                x.cnt('cost_grad_vs_reference', len(which))
                fdi = [int(v) for v in rng.choice(npar, size=min(GRAD_FD_MAX, npar), replace=False)]
                # always include one parameter of every distinct gate type once
                for i in fdi:
                    fd = float(nc.central_fd(lambda q: np.array(cf.get_cost(q)), p, i))
                    if not abs(g[i] - fd) <= TOL_FD * (1 + abs(fd)) / min(1.0, ov * 10):
                        x.bad('cost_grad:vs_central_differences', target=T.desc(), param=i,
                              got=float(g[i]), want=fd, params=p, **blame_of(rows, p, i))
                x.cnt('cost_grad_vs_fd', len(fdi))
                if rf is not None:
                    J = np.asarray(rf.get_grad(p), dtype=float)
                    rr, JJ = rf.get_residuals_and_grad(p)
                    nres = len(T.residuals(U))
                    if J.shape != (nres, npar):
                        x.bad('residuals_grad:shape', got=list(J.shape), want=[nres, npar])
                    else:
                        if not np.max(np.abs(np.asarray(JJ) - J)) <= 1e-12 or \
                                not np.max(np.abs(np.asarray(rr) - np.asarray(rf.get_residuals(p)))) <= 1e-12:
                            x.bad('residuals_grad:get_residuals_and_grad_inconsistent', target=T.desc())
                        jsel = [which[int(v)] for v in rng.choice(len(which), size=min(JAC_MAX, len(which)), replace=False)]
                        for i in jsel:
                            wj = resid_jac_ref(T, U, dUs[i])
                            if not np.max(np.abs(J[:, i] - wj)) <= TOL_GRAD * (nops + 1):
                                x.bad('residuals_grad:vs_product_rule_reference', target=T.desc(), param=i,
                                      diff=float(np.max(np.abs(J[:, i] - wj))), params=p, **blame_of(rows, p, i))
                        i = jsel[0]
                        fd = nc.central_fd(lambda q: np.asarray(rf.get_residuals(q), dtype=float), p, i)
                        if not np.max(np.abs(J[:, i] - fd)) <= TOL_FD * (1 + float(np.max(np.abs(fd)))):
                            x.bad('residuals_grad:vs_central_differences', target=T.desc(), param=i,
                                  diff=float(np.max(np.abs(J[:, i] - fd))), params=p, **blame_of(rows, p, i))
                        x.cnt('residuals_grad')
        except BaseException as e:  # noqa
            nc.reraise_control(e)
            x.raised('cost/residual gradient', e, target=T.desc())
    elif npar > 0:
        x.cnt('grad_skipped_not_differentiable' if not diffable else 'grad_skipped_small_overlap')

    # ---- native path vs Python path -----------------------------------------
    try:
        twin, nrep = nc.py_twin(c)
    except BaseException as e:  # noqa
        nc.reraise_control(e)
        x.raised('py_twin(harness)', e)
        return
    if nrep > 0:
        try:
            py0u = nc.PY_CALLS['unitary']
            tf = gens['cost'].gen_cost(twin, T.obj)
            tv = float(tf.get_cost(p))
            called = nc.PY_CALLS['unitary'] - py0u
            if called == 0:
                x.cnt('twin_python_path_not_taken')
            else:
                x.cnt('twin_python_path_taken')
            if not abs(tv - got) <= tol:
                x.bad('native_vs_python:cost_differs', target=T.desc(), native=got, python=tv, reference=want, params=p)
            if diffable and ov > 1e-3:
                tg_ = np.asarray(tf.get_grad(p), dtype=float)
                og_ = np.asarray(cf.get_grad(p), dtype=float)
                tt = TOL_GRAD * (nops + 1) / min(1.0, ov * 10)
                if tg_.shape != og_.shape:
                    x.bad('native_vs_python:grad_shape_differs', target=T.desc(), params=p)
                elif not np.max(np.abs(tg_ - og_)) <= tt:
                    idxs = [int(v) for v in np.nonzero(np.abs(tg_ - og_) > tt)[0]]
                    bl = [blame_of(rows, p, i) for i in idxs[:4]]
                    names = {b['native_grad_blame'] for b in bl}
                    x.bad('native_vs_python:grad_differs', target=T.desc(), params=p, param_indices=idxs,
                          diff=float(np.max(np.abs(tg_ - og_))), owners=[b['owner_gate'] for b in bl],
                          native_grad_blame=(names.pop() if len(names) == 1 else None))
            tr_ = np.asarray(gens['resid'].gen_cost(twin, T.obj).get_residuals(p), dtype=float)
            if rf is not None:
                or_ = np.asarray(rf.get_residuals(p), dtype=float)
                if tr_.shape != or_.shape or not np.max(np.abs(tr_ - or_)) <= tol:
                    x.bad('native_vs_python:residuals_differ', target=T.desc(), params=p)
            x.cnt('native_vs_python', 1)
            x.cnt('native_vs_python_ops_replaced', nrep)
        except BaseException as e:  # noqa
            nc.reraise_control(e)
            x.raised('native_vs_python', e, target=T.desc())


def make_cost_case(seed: int, idx: int, tier: str) -> tuple[Any, dict[str, Any]]:
    rng = core.rng_for(seed, PID, 1, idx)
    flavor = ['lib', 'lib', 'lib', 'python', 'variable', 'qutrit', 'mixed', 'lib'][idx % 8]
    style = {'qutrit': 'qutrit', 'mixed': 'mixed'}.get(flavor, 'qubit' if rng.random() < 0.8 else 'mixed')
    radixes = pick_radixes(rng, DIM_CAP.get(tier, 36), style)
    if flavor == 'mixed' and len(set(radixes)) == 1 and len(radixes) > 1:
        radixes[0] = 5 - radixes[0]
    depth = int(rng.integers(1, 11))
    c = cost_circuit(rng, radixes, depth, flavor)
    meta = {
        'seed': seed, 'idx': idx, 'group': 'cost', 'flavor': flavor,
        'target_kind': ['unitary', 'state', 'system'][int(rng.integers(3))],
        'target_mode': str(rng.choice(['random', 'random', 'phase_equal', 'perturbed'])),
        'param_style': str(rng.choice(['generic', 'generic', 'generic', 'special', 'mixed', 'zeros', 'large'])),
    }
    return c, meta


def run_cost_case(arg: tuple[int, int, str]) -> dict[str, Any]:
    seed, idx, tier = arg
    METER.install()
    out: dict[str, Any] = {'w': [], 'c': {}, 'sig': None, 'nt': False, 'sample': None, 'harness': None}
    try:
        c, meta = make_cost_case(seed, idx, tier)
    except BaseException as e:  # noqa
        nc.reraise_control(e)
        out['harness'] = 'generation: %s: %s @%s' % (type(e).__name__, str(e)[:200], core.raising_site(e))
        return out
    x = Ctx(meta, c)
    rng = core.rng_for(seed, PID, 2, idx)
    try:
        with warnings.catch_warnings():
            warnings.simplefilter('ignore')
            check_cost(x, rng)
    except BaseException as e:  # noqa
        nc.reraise_control(e)
        import traceback
        out['harness'] = 'monitor: %s: %s\n%s' % (type(e).__name__, str(e)[:200], traceback.format_exc()[-1500:])
    desc = gen.circuit_desc(c, 40)
    x.cnt('flavor:' + meta['flavor'])
    if len(set(c.radixes)) > 1:
        x.cnt('mixed_radix_circuits')
    if set(c.radixes) == {3}:
        x.cnt('qutrit_circuits')
    out['sig'] = core.sig_of([desc, meta['target_kind'], meta['target_mode']])
    out['nt'] = c.num_operations >= 2 and c.num_params >= 1
    out['w'] = x.w
    out['c'] = x.c
    if idx < 2:
        out['sample'] = {'case': meta, 'circuit': desc}
    return out


# ------------------------------------------------------------ (B) instantiation
def template(rng: np.random.Generator, flavor: str) -> Any:
    from bqskit.ir.circuit import Circuit
    from bqskit.ir import gates as G
    from bqskit.qis.unitary import LocallyOptimizableUnitary
    if flavor == 'u3cx':
        n = int(rng.integers(1, 4))
        c = Circuit(n)
        for q in range(n):
            c.append_gate(G.U3Gate(), [q])
        for _ in range(int(rng.integers(0, 4)) if n > 1 else 0):
            a, b = gen.rand_location(rng, n, 2)
            c.append_gate(pick(rng, [G.CNOTGate(), G.CZGate()]), [a, b])
            c.append_gate(G.U3Gate(), [a])
            c.append_gate(G.U3Gate(), [b])
        return c
    if flavor == 'rot':
        n = int(rng.integers(1, 4))
        return cost_circuit(rng, [2] * n, int(rng.integers(2, 9)), 'lib', 0)
    if flavor == 'python':
        n = int(rng.integers(1, 3))
        return cost_circuit(rng, [2] * n, int(rng.integers(2, 6)), 'python', 0)
    if flavor == 'qutrit':
        n = int(rng.integers(1, 3))
        c = Circuit(n, [3] * n)
        for q in range(n):
            c.append_gate(pick(rng, [G.U8Gate(), nc.PyGate('qtrot')]), [q])
        for _ in range(int(rng.integers(0, 3)) if n > 1 else 0):
            a, b = gen.rand_location(rng, n, 2)
            c.append_gate(G.CSUMGate(), [a, b])
            c.append_gate(pick(rng, [G.U8Gate(), nc.PyGate('qtph')]), [a])
            c.append_gate(G.U8Gate(), [b])
        return c
    if flavor == 'mixed':
        radixes = [2, 3] if rng.random() < 0.5 else [3, 2]
        c = Circuit(2, radixes)
        for _ in range(int(rng.integers(2, 7))):
            k = int(rng.integers(1, 3))
            loc = gen.rand_location(rng, 2, k)
            lr = [radixes[q] for q in loc]
            gp = gate_for(rng, lr, 'lib')
            if gp is not None:
                c.append_gate(gp[0], loc, gp[1])
        return c
    if flavor == 'nested':
        n = int(rng.integers(2, 4))
        c = cost_circuit(rng, [2] * n, int(rng.integers(2, 7)), 'lib', 1)
        sub = cost_circuit(rng, [2, 2], 3, 'lib', 0)
        if sub.num_operations:
            c.append_gate(G.CircuitGate(sub), gen.rand_location(rng, n, 2), sub.params)
        if c.num_params:
            c.freeze_param(int(rng.integers(c.num_params)))
        return c
    if flavor == 'qfactor':
        rad = int(rng.choice([2, 3]))
        n = int(rng.integers(1, 4 if rad == 2 else 3))
        c = Circuit(n, [rad] * n)
        consts = [g for g in (pools()['const1'] + pools()['const2'] + pools()['qtc1'] + pools()['qtc2'])
                  if isinstance(g, LocallyOptimizableUnitary)]
        for q in range(n):
            c.append_gate(G.VariableUnitaryGate(1, [rad]), [q])
        for _ in range(int(rng.integers(0, 4))):
            k = int(rng.integers(1, min(2, n) + 1))
            loc = gen.rand_location(rng, n, k)
            fit = [g for g in consts if tuple(g.radixes) == tuple([rad] * k)]
            r = rng.random()
            lop = [g for g in (pools()['native1'] + pools()['native2'] + pools()['dyn2'])
                   if isinstance(g, LocallyOptimizableUnitary) and g.num_qudits == k
                   and type(g).__name__ not in ('U3Gate',)] if rad == 2 else []
            if r < 0.35 and fit:
                c.append_gate(pick(rng, fit), loc)
            elif r < 0.6:
                c.append_gate(G.VariableUnitaryGate(k, [rad] * k), loc)
            elif r < 0.9 and lop:
                c.append_gate(pick(rng, lop), loc)
            elif r > 0.95 and k == 1:
                # natively known general gates (kept rare: see the report)
                c.append_gate(G.U3Gate() if rad == 2 else G.U8Gate(), loc)
            else:
                c.append_gate(G.VariableUnitaryGate(k, [rad] * k), loc)
        # give the template sane stored parameters
        ps: list[float] = []
        for op in c:
            if isinstance(op.gate, G.VariableUnitaryGate):
                u = np.asarray(gen.haar(rng, list(op.gate.radixes)))
                ps += list(np.real(u).flatten()) + list(np.imag(u).flatten())
            else:
                ps += gen.rand_params(rng, op.num_params, 'generic')
        c.set_params(ps)
        return c
    if flavor == 'constant':
        n = int(rng.integers(1, 3))
        c = Circuit(n)
        for _ in range(int(rng.integers(1, 4))):
            k = int(rng.integers(1, n + 1))
            c.append_gate(pick(rng, pools()['const1'] if k == 1 else pools()['const2']), gen.rand_location(rng, n, k))
        return c
    raise ValueError(flavor)


METHODS = ['ceres', 'ceres', 'lbfgs', 'lbfgs', 'scipy', 'auto', 'ceres_obj', 'lbfgs_cost_obj']


def method_kwargs(name: str) -> dict[str, Any]:
    from bqskit.ir.opt.cost.functions import HilbertSchmidtCostGenerator
    from bqskit.ir.opt.cost.functions import HilbertSchmidtResidualsGenerator
    from bqskit.ir.opt.instantiaters import Minimization
    from bqskit.ir.opt.instantiaters import QFactor
    from bqskit.ir.opt.minimizers import CeresMinimizer
    from bqskit.ir.opt.minimizers import LBFGSMinimizer
    from bqskit.ir.opt.minimizers import ScipyMinimizer
    if name == 'ceres':
        return dict(method='minimization')
    if name == 'lbfgs':
        return dict(method='minimization', minimizer=LBFGSMinimizer(), cost_fn_gen=HilbertSchmidtCostGenerator())
    if name == 'scipy':
        return dict(method='minimization', minimizer=ScipyMinimizer(), cost_fn_gen=HilbertSchmidtCostGenerator())
    if name == 'auto':
        return dict()
    if name == 'ceres_obj':
        return dict(method=Minimization(HilbertSchmidtResidualsGenerator(), CeresMinimizer()))
    if name == 'lbfgs_cost_obj':
        return dict(method=Minimization(HilbertSchmidtCostGenerator(), LBFGSMinimizer()))
    if name == 'qfactor':
        return dict(method='qfactor')
    if name == 'qfactor_obj':
        return dict(method=QFactor())
    raise ValueError(name)


RECORDER: nc.StartRecorder | None = None


def recorder() -> nc.StartRecorder:
    global RECORDER
    if RECORDER is None:
        from bqskit.ir.opt.instantiaters import Minimization
        from bqskit.ir.opt.instantiaters import QFactor
        RECORDER = nc.StartRecorder()
        RECORDER.install([Minimization, QFactor])
    return RECORDER


def make_inst_case(seed: int, idx: int, tier: str) -> tuple[Any, dict[str, Any]]:
    rng = core.rng_for(seed, PID, 3, idx)
    flavor = ['u3cx', 'rot', 'qfactor', 'qutrit', 'python', 'u3cx', 'mixed', 'nested', 'qfactor', 'rot', 'u3cx', 'constant'][idx % 12]
    if flavor == 'constant' and idx % 5:
        flavor = 'rot'
    c = template(rng, flavor)
    if flavor == 'qfactor':
        method = 'qfactor' if rng.random() < 0.7 else ('qfactor_obj' if rng.random() < 0.6 else 'auto')
    else:
        method = METHODS[int(rng.integers(len(METHODS)))]
        if method == 'scipy' and c.num_params > 12:
            method = 'lbfgs'
    kind = ['unitary', 'unitary', 'state', 'system'][int(rng.integers(4))]
    if flavor == 'qfactor':
        kind = ['unitary', 'unitary', 'state', 'unitary', 'system'][(idx // 12) % 5]
    meta = {
        'seed': seed, 'idx': idx, 'group': 'instantiate', 'flavor': flavor, 'method': method,
        'target_kind': kind,
        'target_mode': 'reachable' if rng.random() < 0.4 else 'random',
        'multistarts': int(rng.integers(1, 9)),
        'inst_seed': int(rng.integers(1, 2 ** 31 - 1)),
    }
    return c, meta


def inst_target(rng: np.random.Generator, c: Any, meta: dict[str, Any]) -> nc.Target:
    radixes = list(c.radixes)
    T = nc.random_target(rng, meta['target_kind'], radixes)
    if meta['target_mode'] == 'reachable' and c.num_params:
        from bqskit.ir.gates import VariableUnitaryGate
        ps: list[float] = []
        for op in c:
            if isinstance(op.gate, VariableUnitaryGate):
                u = np.asarray(gen.haar(rng, list(op.gate.radixes)))
                ps += list(np.real(u).flatten()) + list(np.imag(u).flatten())
            else:
                ps += gen.rand_params(rng, op.num_params, 'generic')
        U = nc.ref_unitary(c, ps)
        T = T.with_phase_of(U, float(rng.uniform(0, 2 * np.pi)))
    return T


def check_inst(x: Ctx, rng: np.random.Generator) -> None:
    from bqskit.ir.opt.instantiaters import Minimization
    from bqskit.ir.opt.instantiaters import QFactor
    c = x.circuit
    meta = x.meta
    T = inst_target(rng, c, meta)
    rec = recorder()
    rec.take()
    before = nc.structure(c)
    P0 = nc.concat_params(nc.op_table(c))
    k = meta['multistarts']
    kw = method_kwargs(meta['method'])
    # documented preconditions
    qf = meta['method'].startswith('qfactor') or (meta['method'] == 'auto' and not Minimization.is_capable(c))
    capable = QFactor.is_capable(c) if qf else Minimization.is_capable(c)
    x.cnt('method:' + ('qfactor' if qf else 'minimization'))
    x.cnt('method_variant:' + meta['method'])
    x.cnt('target:' + meta['target_kind'])
    try:
        with warnings.catch_warnings(), nc.quiet_stderr():
            warnings.simplefilter('ignore')
            ret = c.instantiate(T.obj, multistarts=k, seed=meta['inst_seed'], **kw)
    except BaseException as e:  # noqa
        nc.reraise_control(e)
        recs = rec.take()
        if not capable and isinstance(e, ValueError):
            x.cnt('rejected_input:not_capable')
            return
        after = nc.structure(c)
        mname = 'qfactor' if qf else 'minimization'
        x.bad(
            'instantiate:%s:%s' % (mname, type(e).__name__), exc=type(e).__name__, msg=str(e)[:300],
            site=core.raising_site(e), frames=core.repo_frames(e),
            method=mname, method_variant=meta['method'],
            target=T.desc(), multistarts=k, starts_completed=len(recs),
            structure_unchanged=(after == before), dedupe=True,
            gates=sorted({type(op.gate).__name__ for op in c}),
        )
        return
    recs = rec.take()
    x.cnt('instantiate_calls')
    x.cnt('wrapper_evaluations', len(recs))
    x.cnt('multistarts:%d' % k)
    if ret is not c:
        x.bad('instantiate:returns_different_object', method_variant=meta['method'], target=T.desc(),
              returned_type=type(ret).__name__)
    x.cnt('identity_checked')
    after = nc.structure(c)
    if after != before:
        x.bad('instantiate:structure_changed', method_variant=meta['method'], target=T.desc(),
              before=before[:12], after=after[:12])
    x.cnt('structure_checked')
    rows = nc.op_table(c)
    final = nc.concat_params(rows)
    if final.shape != P0.shape:
        x.bad('instantiate:num_params_changed', got=int(final.size), want=int(P0.size))
        return
    if not np.all(np.isfinite(final)):
        x.bad('instantiate:non_finite_params', method_variant=meta['method'], target=T.desc())
        return
    if len(recs) == 0:
        x.cnt('cases_without_wrapper_evaluations')
        return
    if len(recs) != k:
        x.cnt('starts_recorded_ne_multistarts')
    if any(r['circuit_id'] != id(c) for r in recs):
        x.cnt('per_start_call_on_other_circuit_object')
    # independent costs of every start's result
    costs = []
    for r in recs:
        if r['result'].shape != final.shape or not np.all(np.isfinite(r['result'])):
            costs.append(float('nan'))
            continue
        costs.append(T.cost(nc.ref_unitary(c, r['result'] if final.size else None, rows)))
    kept = [j for j, r in enumerate(recs) if r['result'].shape == final.shape and np.array_equal(r['result'], final)]
    fcost = T.cost(nc.ref_unitary(c, None, rows))
    if not kept:
        x.bad('instantiate:final_params_not_a_start_result', method_variant=meta['method'], target=T.desc(),
              multistarts=k, final_cost=fcost, start_costs=costs,
              params_unchanged=bool(np.array_equal(final, P0)))
        return
    good = [v for v in costs if np.isfinite(v)]
    if good and not fcost <= min(good) + TOL_ARGMIN:
        x.bad('instantiate:kept_candidate_not_least_cost', method_variant=meta['method'], target=T.desc(),
              multistarts=k, kept_index=kept[0], kept_cost=fcost, start_costs=costs,
              inst_seed=meta['inst_seed'])
    x.cnt('argmin_checked')
    if len(good) >= 2 and max(good) - min(good) > 1e-6:
        x.cnt('argmin_checked_with_distinct_costs')
    if fcost < 1e-8:
        x.cnt('instantiate_converged')


def run_inst_case(arg: tuple[int, int, str]) -> dict[str, Any]:
    seed, idx, tier = arg
    out: dict[str, Any] = {'w': [], 'c': {}, 'sig': None, 'nt': False, 'sample': None, 'harness': None}
    try:
        c, meta = make_inst_case(seed, idx, tier)
    except BaseException as e:  # noqa
        nc.reraise_control(e)
        out['harness'] = 'generation: %s: %s @%s' % (type(e).__name__, str(e)[:200], core.raising_site(e))
        return out
    x = Ctx(meta, c)
    desc = gen.circuit_desc(c, 40)
    rng = core.rng_for(seed, PID, 4, idx)
    try:
        check_inst(x, rng)
    except BaseException as e:  # noqa
        nc.reraise_control(e)
        import traceback
        out['harness'] = 'monitor: %s: %s\n%s' % (type(e).__name__, str(e)[:200], traceback.format_exc()[-1500:])
    x.cnt('inst_flavor:' + meta['flavor'])
    out['sig'] = core.sig_of([desc['radixes'], [o[1:3] for o in desc['ops'] if isinstance(o, list)],
                              meta['method'], meta['target_kind'], meta['multistarts'], meta['target_mode']])
    out['nt'] = c.num_params >= 1 and meta['multistarts'] >= 2
    out['w'] = x.w
    out['c'] = x.c
    if idx < 2:
        out['sample'] = {'case': meta, 'circuit': desc}
    return out


# ------------------------------------------------------------ driver
def mech_key(w: dict[str, Any]) -> str:
    return '|'.join(str(w.get(k)) for k in ('kind', 'site', 'target_kind') if w.get(k) is not None)


def merge(run: core.Run, r: dict[str, Any], seen: set[str]) -> None:
    for k, v in r['c'].items():
        run.count(k, v)
    if r.get('harness'):
        run.count('harness_errors')
        run.inconclusive_because('harness error: ' + r['harness'][:400])
    for w in r['w']:
        if w.get('dedupe'):
            # deterministic, input-independent mechanisms: one witness per
            # mechanism, the rest is counted
            key = mech_key(w)
            run.count('witnesses:' + key)
            if key in seen:
                continue
            seen.add(key)
        PENDING.append(w)


PENDING: list[dict[str, Any]] = []


def flush(run: core.Run) -> None:
    """Report the collected witnesses, one of every distinct mechanism first
    (only the first few get a replay file)."""
    first: dict[str, dict[str, Any]] = {}
    for w in PENDING:
        first.setdefault('%s|%s' % (w.get('kind'), w.get('native_grad_blame')), w)
    head = sorted(first.values(), key=lambda w: w.get('native_grad_blame') is not None)
    ids = {id(w) for w in head}
    for w in head + [w for w in PENDING if id(w) not in ids]:
        run.violation(w)
    PENDING.clear()


def main(tier: str, seed: int, replay: str | None = None) -> int:
    run = core.Run(PID, tier, seed)
    if replay:
        return do_replay(run, replay)
    workers = int(os.environ.get('VERIF_WORKERS', WORKERS))
    nc_ = int(os.environ.get('VERIF_C19_COST_CASES', COST_CASES.get(tier, COST_CASES['quick'])))
    ni_ = int(os.environ.get('VERIF_C19_INST_CASES', INST_CASES.get(tier, INST_CASES['quick'])))
    seen: set[str] = set()
    res = core.pmap(run_cost_case, [(seed, i, tier) for i in range(nc_)], workers=workers, chunksize=20)
    for r in res:
        run.case(r['sig'] or 'none', nontrivial=bool(r['nt']) and r['sig'] is not None, sample=r['sample'])
        merge(run, r, seen)
    res = core.pmap(run_inst_case, [(seed, i, tier) for i in range(ni_)], workers=workers, chunksize=6)
    for r in res:
        run.case(r['sig'] or 'none', nontrivial=bool(r['nt']) and r['sig'] is not None, sample=r['sample'])
        merge(run, r, seen)
    flush(run)
    if run.counters.get('cases_without_wrapper_evaluations', 0):
        run.inconclusive_because('%d instantiate cases ran without reaching the per-start wrapper'
                                 % run.counters['cases_without_wrapper_evaluations'])
    for cnt, m in (
        ('cost_value', 1), ('cost_value:unitary', 1), ('cost_value:state', 1), ('cost_value:system', 1),
        ('cost_mode:phase_equal', 1), ('cost_mode:perturbed', 1), ('calc_cost', 1),
        ('residuals_value', 1), ('cost_grad_vs_reference', 1), ('cost_grad_vs_fd', 1), ('residuals_grad', 1),
        ('native_vs_python', 1), ('twin_python_path_taken', 1), ('engine_native_path_observed', 1),
        ('engine_python_callback_observed', 1), ('mixed_radix_circuits', 1), ('qutrit_circuits', 1),
        ('wrapper_evaluations', 1), ('instantiate_calls', 1), ('identity_checked', 1), ('structure_checked', 1),
        ('argmin_checked', 1), ('argmin_checked_with_distinct_costs', 1),
        ('method:qfactor', 1), ('method:minimization', 1),
        ('method_variant:ceres', 1), ('method_variant:lbfgs', 1), ('method_variant:scipy', 1),
        ('target:unitary', 1), ('target:state', 1), ('target:system', 1),
        ('multistarts:1', 1), ('multistarts:8', 1),
    ):
        run.require(cnt, m)
    return run.finish(
        rule='(A) seeded random circuits (1-4 qudits, radix 2/3 mixed, dim <= %d; native-engine gates, call-back gates, composed gates, nested CircuitGates, constant/variable unitaries, hand-written Python gates) x random parameter vector x target (unitary/state/system; random, phase-equal, perturbed); (B) instantiate templates x method x 1-8 starts x target kind. distinct = distinct (circuit description, target kind/mode[, method, starts]); non-trivial = (A) >= 2 operations and >= 1 parameter, (B) >= 1 parameter and >= 2 starts' % DIM_CAP.get(tier, 36),
        assumptions=[
            'the value "defined by the circuit\'s own unitary" is: unitary target 1-|tr(T^dag U)|/d; state target 1-|<s|U|0>|^2; state system 1-|tr((W V^dag)^dag U)|/k (k = number of states). The native library has no formula in its docs; these were identified on the unchanged code and are then held fixed',
            'residual vectors are compared with [Re(U A^dag - I), Im(U A^dag)] (A = T or W V^dag) and |U|0> - s|^2 element-wise, identified the same way',
            'U is the refsim product of each gate\'s own Python get_unitary at its own slice of the parameter vector (C06/C18 cover that side)',
            'gradients are skipped when the overlap |tr|/d (or |<s|psi>|) is below 1e-3 (the cost is not differentiable at 0 overlap) and for circuits that report is_differentiable() == False',
            'arg-min is decided from the per-start results recorded by a wrapper on Minimization.instantiate / QFactor.instantiate with independently recomputed costs (tolerance 1e-10); convergence quality is not judged',
            'a ValueError from instantiate for a circuit the chosen instantiater reports not capable is a rejected input',
        ],
        extra={'workers': workers},
    )


def do_replay(run: core.Run, path: str) -> int:
    doc = json.load(open(path))
    w = doc['witness']
    case = w.get('case') or {}
    if 'seed' not in case or 'idx' not in case:
        print('replay file has no (seed, idx)')
        return 2
    tier = doc.get('tier', 'quick')
    fn = run_inst_case if case.get('group') == 'instantiate' else run_cost_case
    r = fn((int(case['seed']), int(case['idx']), tier))
    run.case(r['sig'] or 'none')
    run.case('replay-marker')
    merge(run, r, set())
    flush(run)
    print('replayed %s case seed=%d idx=%d: %d witnesses (recorded kind: %s)' % (
        case.get('group'), case['seed'], case['idx'], len(r['w']), w.get('kind')))
    for ww in r['w']:
        print('  kind', ww['kind'])
    return run.finish(rule='replay of one recorded case (regenerated from seed and index)')
