"""C08 — partitioning regroups operations without changing the program.

Runtime monitor: generated circuits (width 2-20, 1/2/3-qudit gates, barriers,
measurements, resets, already-blocked inputs, local and all-to-all
interaction patterns) are sent through every partitioning pass on a real
`Compiler`; the returned circuit is opened by a flattening written here and
compared with the input:

 (1) every output block spans <= block size qudits (or the width of a wider
     input operation it holds),
 (2) the opened output has, on every qudit, exactly the input's sequence of
     operations (gate, location, exact parameters) - hence the same multiset,
 (3) barrier / measurement / reset placeholders are never inside a block,
 (4) widths <= 8: refsim unitary of input and output agree (second witness),
 (5) basic sanity of the output (no empty cycle, counters), and the
     repository's own `unfold_all()` gives the same sequences.

An exception of a partitioner is a violation unless it is the documented
refusal of gates wider than the block size (Scan, GTQCP, TDAG).
"""
from __future__ import annotations

import json
import os
import signal
import time
import warnings
from collections import Counter
from typing import Any

import numpy as np

from vlib import core
from vlib import gen
from vlib import refsim
from vlib import workloads as wl

PID = 'C08'

# ---- tunables -----------------------------------------------------------
#            cases  max_depth  processes  per-case watchdog (s)
TIERS = {
    'quick': dict(cases=640, max_depth=70, procs=8, watchdog=180),
    'thorough': dict(cases=6000, max_depth=300, procs=12, watchdog=300),
}
# relative frequency of each partitioner among the cases
WEIGHTS = [
    ('QuickPartitioner', 6), ('ScanPartitioner', 2),
    ('ClusteringPartitioner', 2), ('GreedyPartitioner', 1),
    ('GroupSingleQuditGatePass', 2), ('GTQCPartitioner', 2),
    ('TDAGPartitioner', 2),
]
# domains on which the exhaustive-search partitioners finish in seconds
# (Circuit.surround is an exhaustive search; Scan/GTQCP/TDAG enumerate qudit
# groups of the circuit's interaction graph)
LIMITS = {
    'QuickPartitioner': dict(max_n=20, max_bs=6, max_depth=300),
    'GroupSingleQuditGatePass': dict(max_n=20, max_bs=6, max_depth=300),
    'ScanPartitioner': dict(max_n=12, max_bs=4, max_depth=120),
    'GTQCPartitioner': dict(max_n=12, max_bs=4, max_depth=120),
    'TDAGPartitioner': dict(max_n=12, max_bs=4, max_depth=120),
    'ClusteringPartitioner': dict(max_n=10, max_bs=4, max_depth=60),
    'GreedyPartitioner': dict(max_n=8, max_bs=3, max_depth=40),
}
NARROW_ONLY = ('ScanPartitioner', 'GTQCPartitioner', 'TDAGPartitioner')
UNITARY_TOL = 1e-8


# ---- generation -----------------------------------------------------------
def pick_partitioner(rng: np.random.Generator) -> str:
    names = [n for n, _ in WEIGHTS]
    w = np.array([x for _, x in WEIGHTS], dtype=float)
    return str(rng.choice(names, p=w / w.sum()))


def rand_loc(rng: np.random.Generator, n: int, k: int, local: int) -> tuple[int, ...]:
    local = max(local, k) if local else 0
    if local and n > local:
        lo = int(rng.integers(0, n - local + 1))
        pool = np.arange(lo, lo + local)
    else:
        pool = np.arange(n)
    return tuple(int(x) for x in rng.choice(pool, size=k, replace=False))


def small_block(rng: np.random.Generator, w: int) -> Any:
    from bqskit.ir.circuit import Circuit
    c = Circuit(w)
    for _ in range(int(rng.integers(1, 6))):
        k = int(rng.integers(1, min(w, 2) + 1))
        g = (gen.Q1 if k == 1 else gen.Q2)[int(rng.integers(len(gen.Q1 if k == 1 else gen.Q2)))]
        c.append_gate(g, rand_loc(rng, w, k, 0), gen.rand_params(rng, g.num_params))
    return c


def make_circuit(rng: np.random.Generator, n: int, depth: int, p3: float,
                 pph: float, pblock: float, local: int) -> Any:
    """Random qubit circuit with placeholders and ready-made blocks."""
    from bqskit.ir.circuit import Circuit
    from bqskit.ir.gates import BarrierPlaceholder
    from bqskit.ir.gates import CircuitGate
    from bqskit.ir.gates import MeasurementPlaceholder
    from bqskit.ir.gates import Reset
    c = Circuit(n)
    for _ in range(depth):
        r = rng.random()
        if r < pph:
            kind = int(rng.integers(3))
            if kind == 0:
                k = int(rng.integers(1, n + 1)) if rng.random() < 0.3 else int(rng.integers(1, min(n, 3) + 1))
                loc = rand_loc(rng, n, k, 0 if rng.random() < 0.5 else local)
                if rng.random() < 0.5:
                    loc = tuple(sorted(loc))
                c.append_gate(BarrierPlaceholder(k), loc)
            elif kind == 1:
                k = int(rng.integers(1, min(n, 3) + 1))
                loc = tuple(sorted(rand_loc(rng, n, k, local)))
                c.append_gate(
                    MeasurementPlaceholder([('c', n)], {q: ('c', q) for q in loc}), loc,
                )
            else:
                c.append_gate(Reset(), rand_loc(rng, n, 1, 0))
            continue
        r = rng.random()
        if r < pblock:
            w = int(rng.integers(1, min(n, 3) + 1))
            sub = small_block(rng, w)
            c.append_gate(CircuitGate(sub), rand_loc(rng, n, w, local), sub.params)
            continue
        r = rng.random()
        if r < p3 and n >= 3:
            g = gen.Q3[int(rng.integers(len(gen.Q3)))]
        elif r < p3 + 0.5 and n >= 2:
            g = gen.Q2[int(rng.integers(len(gen.Q2)))]
        else:
            g = gen.Q1[int(rng.integers(len(gen.Q1)))]
        c.append_gate(g, rand_loc(rng, n, g.num_qudits, local), gen.rand_params(rng, g.num_params))
    return c


def make_case(seed: int, idx: int, tier: str) -> dict[str, Any]:
    rng = core.rng_for(seed, PID, idx)
    name = pick_partitioner(rng)
    lim = LIMITS[name]
    maxd = min(TIERS[tier]['max_depth'], lim['max_depth'])
    small = rng.random() < 0.55            # simulable width
    n = int(rng.integers(2, 9)) if small else int(rng.integers(9, 21))
    n = min(n, lim['max_n'])
    bs = int(rng.integers(2, lim['max_bs'] + 1))
    depth = int(rng.integers(3, maxd + 1)) if rng.random() < 0.8 else int(rng.integers(1, 8))
    p3 = float(rng.choice([0.0, 0.0, 0.08, 0.2]))
    if name in NARROW_ONLY and bs < 3 and rng.random() < 0.8:
        p3 = 0.0  # mostly stay inside the documented domain
    if name in ('QuickPartitioner', 'GroupSingleQuditGatePass'):
        pph = float(rng.choice([0.0, 0.05, 0.15, 0.3]))
    else:
        pph = float(rng.choice([0.0, 0.0, 0.0, 0.08]))
    pblock = float(rng.choice([0.0, 0.0, 0.06, 0.15]))
    local = int(rng.choice([0, 0, 2, 3, 4]))
    c = make_circuit(rng, n, depth, p3, pph, pblock, local)
    args: dict[str, Any] = {'block_size': bs}
    if name == 'ClusteringPartitioner':
        args['num_points'] = int(rng.integers(1, 9))
    if name == 'GroupSingleQuditGatePass':
        args = {}
    if name in ('GTQCPartitioner', 'TDAGPartitioner') and rng.random() < 0.3:
        args['discard_subset_groups'] = False
    return {
        'idx': idx, 'partitioner': name, 'args': args,
        'data_seed': int(rng.integers(1, 2 ** 31 - 1)),
        'circuit': wl.circ_to_json(c),
        'gen': {'n': n, 'depth': depth, 'p3': p3, 'pph': pph, 'pblock': pblock, 'local': local},
    }


def build_pass(name: str, args: dict[str, Any]) -> Any:
    import bqskit.passes as P
    with warnings.catch_warnings():
        warnings.simplefilter('ignore')
        return getattr(P, name)(**args)


# ---- oracle -----------------------------------------------------------------
def is_ph(gate: Any) -> bool:
    return isinstance(gate, wl.PLACEHOLDERS)


def strip_unitary(flat: list[Any], radixes: list[int]) -> np.ndarray:
    items = [
        (np.asarray(g.get_unitary(list(p))), loc)
        for g, loc, p, _ in flat if not is_ph(g)
    ]
    return refsim.unitary_of_items(items, radixes)


def first_diff(a: list[str], b: list[str]) -> int:
    for i, (x, y) in enumerate(zip(a, b)):
        if x != y:
            return i
    return min(len(a), len(b))


def evaluate(case: dict[str, Any], cin: Any, cout: Any) -> tuple[list[dict[str, Any]], dict[str, int], dict[str, Any]]:
    """All oracles on one (input, output) pair. Returns (witnesses, counters,
    info)."""
    from bqskit.ir.gates import CircuitGate
    name = case['partitioner']
    bs = int(case['args'].get('block_size', 1))
    n = cin.num_qudits
    w: list[dict[str, Any]] = []
    cnt: Counter[str] = Counter()

    def bad(kind: str, **kw: Any) -> None:
        w.append(dict(kind='%s:%s' % (name, kind), **kw))

    fin = wl.flat_ops(cin)
    fout = wl.flat_ops(cout)
    kin = [(wl.leaf_key(g, loc, p), loc) for g, loc, p, _ in fin]
    kout = [(wl.leaf_key(g, loc, p), loc) for g, loc, p, _ in fout]
    cnt['leaf_ops_compared'] += len(kin)

    # (2) multiset, then per-qudit order
    min_, mout = Counter(k for k, _ in kin), Counter(k for k, _ in kout)
    seq_ok = True
    if min_ != mout:
        seq_ok = False
        extra, missing = mout - min_, min_ - mout
        if extra and not missing:
            kind = 'ops_duplicated'
        elif missing and not extra:
            kind = 'ops_lost'
        else:
            ex_gl = Counter(json.dumps(json.loads(k)[:2]) for k in extra.elements())
            mi_gl = Counter(json.dumps(json.loads(k)[:2]) for k in missing.elements())
            kind = 'params_changed' if ex_gl == mi_gl else 'ops_changed'
        bad(
            kind, extra=sorted(extra.elements())[:6], missing=sorted(missing.elements())[:6],
            num_in=len(kin), num_out=len(kout),
        )
    else:
        sin, sout = wl.per_qudit(kin, n), wl.per_qudit(kout, n)
        if sin != sout:
            seq_ok = False
            q = next(i for i in range(n) if sin[i] != sout[i])
            phk = {k for (k, _), (g, _, _, _) in zip(kin, fin) if is_ph(g)}
            strip = lambda s: [[k for k in x if k not in phk] for x in s]  # noqa
            kind = 'placeholder_reordered' if strip(sin) == strip(sout) else 'order_changed'
            i = first_diff(sin[q], sout[q])
            bad(
                kind, qudit=q, position=i,
                expected=sin[q][max(0, i - 1):i + 3], observed=sout[q][max(0, i - 1):i + 3],
            )
    cnt['sequence_checks'] += 1

    # (3) placeholders never inside a block (input blocks hold none)
    nph = sum(1 for g, _, _, _ in fin if is_ph(g))
    cnt['placeholders_seen'] += nph
    inside = [(type(g).__name__, list(loc)) for g, loc, _, d in fout if is_ph(g) and d > 0]
    if inside:
        bad('placeholder_in_block', inside=inside[:6], count=len(inside))
    if nph:
        cnt['placeholder_checks'] += 1

    # (1) block widths
    in_top = [(set(op.location), op.num_qudits) for op in cin]
    nblocks = 0
    for op in cout:
        if isinstance(op.gate, CircuitGate):
            nblocks += 1
            loc = set(op.location)
            widest = max([k for s, k in in_top if s <= loc] or [0])
            if op.num_qudits > max(bs, widest):
                bad(
                    'block_too_wide', block_location=list(op.location),
                    block_size=bs, widest_input_op_inside=widest,
                )
    cnt['blocks_checked'] += nblocks

    # (4) unitary, second witness
    uni = None
    if n <= 8:
        u0 = strip_unitary(fin, list(cin.radixes))
        u1 = strip_unitary(fout, list(cin.radixes))
        uni = float(np.max(np.abs(u0 - u1)))
        cnt['unitary_checks'] += 1
        if uni > UNITARY_TOL and seq_ok:
            bad('unitary_changed_but_sequences_equal', diff=uni)
        for x in w:
            x['unitary_maxdiff'] = uni

    # (5) sanity of the output and the repository's own unfolding
    if any(all(x is None for x in cyc) for cyc in cout._circuit):
        bad('empty_cycle')
    if cout.num_operations != sum(1 for _ in cout):
        bad('num_operations_wrong', reported=cout.num_operations)
    gc = Counter(op.gate for op in cout)
    if dict(gc) != dict(cout.gate_counts):
        bad('gate_counts_wrong')
    cnt['sanity_checks'] += 1
    try:
        u = cout.copy()
        u.unfold_all()
        if any(isinstance(op.gate, CircuitGate) for op in u):
            bad('unfold_all_left_blocks')
        elif wl.flat_sequences(u) != wl.per_qudit(kout, n):
            bad('unfold_all_differs_from_flattening')
        cnt['unfold_all_checks'] += 1
    except Exception as e:  # noqa
        bad('unfold_all_raised', exc=type(e).__name__, msg=str(e)[:200], site=core.raising_site(e), frames=core.repo_frames(e))
    info = {'blocks': nblocks, 'placeholders': nph, 'unitary_maxdiff': uni, 'leaf_ops': len(kin)}
    return w, dict(cnt), info


# ---- execution through a real compiler -----------------------------------
class CaseTimeout(BaseException):  # not swallowed by `except Exception` in the client
    pass


def _alarm(signum: int, frame: Any) -> None:
    raise CaseTimeout()


def parse_remote_error(msg: str) -> dict[str, Any]:
    """Exception type, raising site and bqskit frames from the traceback text
    the runtime sends to the client."""
    import re
    frames = re.findall(r'File "([^"]+)", line \d+, in (\S+)', msg)
    repo = ['%s:%s' % (os.path.basename(f), fn) for f, fn in frames if '/bqskit/' in f]
    last = frames[-1] if frames else ('?', '?')
    lines = [x for x in msg.strip().splitlines() if x.strip()]
    exc, text = '?', ''
    for ln in reversed(lines):
        m = re.match(r'^([A-Za-z_][\w\.]*(?:Error|Exception|Interrupt|Exit|Warning|Timeout)?)\s*:\s*(.*)$', ln)
        if m and not ln.startswith(' '):
            exc, text = m.group(1).split('.')[-1], m.group(2)
            break
    else:
        if lines:
            exc = lines[-1].strip()[:60]
    return {
        'exc': exc, 'msg': text[:300],
        'site': '%s:%s' % (os.path.basename(last[0]), last[1]),
        'frames': repo[-8:],
    }


def widest_gate(cin: Any) -> int:
    """Widest top-level operation (placeholders included: Scan/GTQCP/TDAG
    treat a wide barrier like any other wide gate and refuse it)."""
    return max([op.num_qudits for op in cin] or [0])


def run_one(comp: Any, case: dict[str, Any], watchdog: int) -> dict[str, Any]:
    """Compile one case and judge it. Never raises for behaviour of the code
    under test."""
    name = case['partitioner']
    cin = wl.circ_from_json(case['circuit'])
    res: dict[str, Any] = {'w': [], 'c': {}, 'info': {}, 'status': 'ok', 'rebuild': False}
    p = build_pass(name, case['args'])
    passes = [wl.SetData([['seed', case['data_seed']]]), wl.Guard(p)]
    old = signal.signal(signal.SIGALRM, _alarm)
    signal.alarm(watchdog)
    try:
        out, data = comp.compile(cin.copy(), passes, request_data=True)
    except CaseTimeout:
        res['status'] = 'timeout'
        res['rebuild'] = True
        return res
    except RuntimeError as e:  # not expected with the guard: runtime failure
        res['rebuild'] = True
        if isinstance(e.__cause__, CaseTimeout):
            res['status'] = 'timeout'
            return res
        txt = str(e.__cause__) if e.__cause__ is not None else str(e)
        res['status'] = 'harness_error' if 'Traceback' in txt else 'infrastructure'
        res['err'] = 'compile failed outside the guarded pass: %r caused by %r' % (e, e.__cause__)
        return res
    finally:
        signal.alarm(0)
        signal.signal(signal.SIGALRM, old)
    if 'verif_exc' in data:
        info = data['verif_exc']
        wide = widest_gate(cin)
        bs = int(case['args'].get('block_size', 1))
        if name in NARROW_ONLY and 'cannot handle gates larger than' in info['msg'] and wide > bs:
            res['status'] = 'rejected_input'
            return res
        res['status'] = 'raised'
        res['w'].append(dict(
            kind='%s:raised:%s:%s' % (name, info['exc'], info['site']),
            exc=info['exc'], msg=info['msg'], site=info['site'], frames=info['frames'],
            widest_gate=wide, block_size=bs, num_qudits=cin.num_qudits,
        ))
        return res
    w, c, info = evaluate(case, cin, out)
    res['w'], res['c'], res['info'] = w, c, info
    return res


def shrink(case: dict[str, Any], kind: str, budget: int = 150) -> dict[str, Any]:
    """Delta-debug the input in-process (the pass is run directly, without a
    runtime; partitioners do not use it) while the same kind still fires."""
    import asyncio
    import logging
    from bqskit.compiler.passdata import PassData
    name = case['partitioner']
    from bqskit.utils.random import seed_random_sources
    ops = list(case['circuit']['ops'])
    radixes = case['circuit']['radixes']
    evals = [0]

    def fires(trial: list[Any]) -> bool:
        evals[0] += 1
        c = dict(case, circuit={'radixes': radixes, 'ops': trial})
        try:
            cin = wl.circ_from_json(c['circuit'])
            out = cin.copy()
            data = PassData(out)
            data.seed = case['data_seed']
            seed_random_sources(case['data_seed'])
        except Exception:  # noqa
            return False
        logging.disable(logging.WARNING)
        try:
            asyncio.run(build_pass(name, case['args']).run(out, data))
        except Exception as e:  # noqa
            k = '%s:raised:%s:%s' % (name, type(e).__name__, core.raising_site(e))
            if name in NARROW_ONLY and 'cannot handle gates larger than' in str(e):
                return False
            return kind.startswith(k)
        finally:
            logging.disable(logging.NOTSET)
        try:
            w, _, _ = evaluate(c, cin, out)
        except Exception:  # noqa
            return False
        return any(x['kind'] == kind for x in w)

    if not fires(ops):
        return case
    chunk = max(1, len(ops) // 2)
    while chunk >= 1 and evals[0] < budget:
        i = 0
        progressed = False
        while i < len(ops) and evals[0] < budget:
            trial = ops[:i] + ops[i + chunk:]
            if trial and fires(trial):
                ops = trial
                progressed = True
            else:
                i += chunk
        if chunk == 1 and not progressed:
            break
        chunk = max(1, chunk // 2) if chunk > 1 else (1 if progressed else 0)
    return dict(case, circuit={'radixes': radixes, 'ops': ops}, shrunk_from=len(case['circuit']['ops']))


def run_batch(arg: tuple[int, str, list[int]]) -> list[dict[str, Any]]:
    """One process: one compiler, a batch of cases."""
    seed, tier, idxs = arg
    wd = TIERS[tier]['watchdog']
    out = []
    comp = None
    try:
        for idx in idxs:
            case = make_case(seed, idx, tier)
            if comp is None:
                comp = wl.safe_compiler(1)
            t0 = time.monotonic()
            for attempt in range(3):
                if comp is None:
                    comp = wl.safe_compiler(1)
                try:
                    r = run_one(comp, case, wd)
                except Exception as e:  # harness failure: never a verdict
                    r = {'w': [], 'c': {}, 'info': {}, 'status': 'harness_error', 'rebuild': True,
                         'err': '%s: %s @ %s' % (type(e).__name__, str(e)[:200], core.short_tb(e))}
                if r['status'] == 'timeout' and attempt == 0:
                    pass  # design: a case that timed out is re-run once, alone
                elif r['status'] != 'infrastructure':
                    break
                wl.close_compiler(comp)
                comp = None
            r['wall'] = time.monotonic() - t0
            if r['rebuild']:
                wl.close_compiler(comp)
                comp = None
            for x in r['w']:
                x['case'] = case
            r['case_meta'] = {
                'idx': idx, 'partitioner': case['partitioner'], 'args': case['args'],
                'gen': case['gen'], 'sig': core.sig_of([case['partitioner'], case['args'], case['circuit']]),
                'num_ops': len(case['circuit']['ops']),
            }
            out.append(r)
    finally:
        if comp is not None:
            wl.close_compiler(comp)
    return out


def refine_raised(x: dict[str, Any]) -> None:
    """Sharpen the mechanism name of a QuickPartitioner failure: does it need
    the barrier-like operations of the input? (in-process re-run without them)"""
    import asyncio
    import logging
    from bqskit.compiler.passdata import PassData
    case = x['case']
    if case['partitioner'] != 'QuickPartitioner' or ':raised:' not in x['kind']:
        return
    ops = [o for o in case['circuit']['ops'] if isinstance(o[0], str) or 'block' in o[0]]
    had = len(ops) != len(case['circuit']['ops'])
    suffix = 'without_placeholders'
    if had:
        c = wl.circ_from_json({'radixes': case['circuit']['radixes'], 'ops': ops})
        logging.disable(logging.WARNING)
        try:
            asyncio.run(build_pass(case['partitioner'], case['args']).run(c, PassData(c)))
            suffix = 'needs_placeholders'
        except Exception:  # noqa
            pass
        finally:
            logging.disable(logging.NOTSET)
    x['kind'] += ':' + suffix
    x['input_has_placeholders'] = had


def merge(run: core.Run, r: dict[str, Any], shrunk_kinds: set[str]) -> None:
    meta = r['case_meta']
    name = meta['partitioner']
    if r['status'] == 'harness_error':
        run.inconclusive_because('harness error in case %d: %s' % (meta['idx'], r.get('err')))
        return
    if r['status'] == 'infrastructure':
        run.inconclusive_because('runtime connection broke three times in case %d: %s' % (meta['idx'], r.get('err')))
        return
    if r['status'] == 'timeout':
        run.count('timeout:' + name)
        run.inconclusive_because('watchdog expired on %s (case %d)' % (name, meta['idx']))
        return
    run.count('compiled:' + name)
    if r['status'] == 'rejected_input':
        run.count('rejected_input:' + name)
        run.case(meta['sig'], nontrivial=False)
        return
    for k, v in r['c'].items():
        run.count(k, v)
    if r['status'] == 'raised':
        run.count('raised:' + name)
    info = r['info']
    run.case(
        meta['sig'], nontrivial=info.get('blocks', 0) >= 3,
        sample={k: meta[k] for k in ('partitioner', 'args', 'gen', 'num_ops')} | {'observed': info},
    )
    for x in r['w']:
        try:
            refine_raised(x)
        except Exception:  # noqa
            pass
        if x['kind'] not in shrunk_kinds:
            shrunk_kinds.add(x['kind'])
            try:
                x['case'] = shrink(x['case'], x['kind'])
            except Exception:  # noqa
                pass
        else:
            # keep later witnesses of an already documented kind small
            if len(x['case']['circuit']['ops']) > 60:
                x = dict(x, case=dict(x['case'], circuit={'omitted': 'see seed/idx', 'num_ops': len(x['case']['circuit']['ops'])}))
        KIND_FILES[x['kind']] += 1
        run.max_violation_files = 10 ** 6 if KIND_FILES[x['kind']] <= 3 else 0
        run.violation(x)


KIND_FILES: Counter = Counter()


def main(tier: str, seed: int, replay: str | None = None) -> int:
    run = core.Run(PID, tier, seed)
    run.max_violation_files = 40
    if replay:
        return do_replay(run, replay)
    cfg = TIERS[tier]
    procs = min(cfg['procs'], max(2, (os.cpu_count() or 4) - 2))
    procs = int(os.environ.get('VERIF_PROCS', procs))
    idxs = list(range(int(cfg['cases'] * float(os.environ.get('VERIF_CASE_SCALE', '1')))))  # scale: development aid
    batches = [(seed, tier, idxs[i::procs]) for i in range(procs)]
    results = core.pmap(run_batch, batches, workers=procs)
    shrunk: set[str] = set()
    flat = sorted((r for b in results for r in b), key=lambda r: r['case_meta']['idx'])
    for r in flat:
        merge(run, r, shrunk)
    for name, _ in WEIGHTS:
        run.require('compiled:' + name, 5)
    for c in ('sequence_checks', 'blocks_checked', 'placeholder_checks', 'unitary_checks', 'unfold_all_checks'):
        run.require(c, 20)
    return run.finish(
        rule='distinct (partitioner, arguments, input circuit); non-trivial = the output holds >= 3 blocks',
        assumptions=[
            'flattening and per-qudit sequences are computed by vlib/workloads.py, not by unfold_all()',
            'a block may be as wide as the widest input operation whose qudits it covers (statement: "or the width of a single wider gate")',
            'input blocks never contain placeholders, so a placeholder below the top level was absorbed by the partitioner',
            'Scan/GTQCP/TDAG refusing gates wider than the block size (documented RuntimeError) is a rejected input',
            'exhaustive-search partitioners are driven only on the sizes in LIMITS (finishing in seconds)',
            'ClusteringPartitioner is made reproducible by seeding PassData.seed in a first pass',
        ],
        extra={'limits': LIMITS},
    )


def do_replay(run: core.Run, path: str) -> int:
    w = json.load(open(path))['witness']
    case = w['case']
    if 'ops' not in case.get('circuit', {}):
        case = make_case(run.seed, int(case['idx']), run.tier)
    comp = wl.safe_compiler(2)
    try:
        r = run_one(comp, case, 300)
    finally:
        wl.close_compiler(comp)
    run.count('compiled:' + case['partitioner'])
    run.case(('replay', case['partitioner'], case['args'], case['circuit']))
    run.case(('replay2',))
    for k, v in r['c'].items():
        run.count(k, v)
    print('replay status=%s observed=%s' % (r['status'], r['info']))
    for x in r['w']:
        x['case'] = case
        run.violation(x)
    return run.finish(rule='replay of one recorded case')
