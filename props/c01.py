"""C01 — compile() preserves circuit semantics under the reported mappings.

Runtime monitor at the API boundary of `bqskit.compile(circuit, model,
optimization_level=k, with_mapping=True, compiler=...)`: every generated
(circuit, model, configuration) is compiled by the real workflow in its own
subprocess (private attached Compiler), and the returned (circuit, initial,
final) triple is judged by the independent simulator:

 (1) both mappings have logical length and are injective into the machine;
 (2) with measurements/barriers stripped, `mapped_cost(U_in, U_out, pi, pf)`
     <= max(1e-10*(ops+1), (k+1)^2 * synthesis_epsilon), k = accepted numerical
     rewrites counted by the in-situ pass monitor (conservative bound if off);
 (3) every measured logical qudit l reappears in the output's measurement
     placeholder on physical qudit pf[l] with the same classical bit, last on
     those qudits, none invented or lost.

A compile() that raises is a violation only when the re-implemented documented
preconditions hold.
"""
from __future__ import annotations

from typing import Any

import numpy as np

from vlib import compilechk as cc
from vlib import core

PID = 'C01'

# ---------------------------------------------------------------- case tables
# quick: (level, n, depth, extra machine width, graph, gateset, options)
QUICK: list[tuple[int, int, int, int, str, str, dict[str, Any]]] = [
    (1, 3, 6, 2, 'line', 'cz_rz_sx', dict(force3=True, measure='end', workers=4)),
    (1, 4, 8, 1, 'random', '', dict(barriers=1, block=True, workers=2)),
    (1, 5, 10, 0, 'ring', '', dict(measure='split', workers=4)),
    (1, 2, 6, 2, 'line', '', dict(workers=1)),
    (1, 4, 7, 0, 'tree', 'cx_cz_u3', dict(force3=True, p3=0.05, workers=4)),
    (1, 3, 8, 1, 'star', '', dict(eps=1e-4, workers=2)),
    (1, 1, 5, 1, 'line', 'cx_rz_sx', dict(workers=1)),
    (1, 4, 10, 0, 'grid', 'isw_rz_rx', dict(eps=1e-6, error_threshold=1e-3, workers=4)),
    (2, 3, 6, 1, 'line', 'cx_rz_sx', dict(force3=True, measure='end', workers=4)),
    (2, 4, 8, 0, 'star', 'sqisw_u3', dict(workers=4)),
    (2, 3, 7, 2, 'tree', 'cz_u3', dict(mss=2, p3=0.0, workers=2)),
    (2, 3, 5, 0, 'line', 'cz_rz_sx', dict(measure='mid', workers=2)),
    (3, 3, 4, 1, 'line', 'cz_u3', dict(p3=0.0, workers=4)),
    (4, 3, 4, 0, 'line', 'cx_u3', dict(p3=0.0, workers=4)),
    # a circular shift of the qubits between single-qubit layers: permutation-
    # aware mapping (level 4) should absorb it as a 3-cycle on a 3-qudit block
    (4, 3, 0, 0, 'line', 'cx_u3', dict(cyclic=True, workers=4)),
]
QUICK_TIMEOUT = {1: 300.0, 2: 300.0, 3: 420.0, 4: 420.0}

# thorough: number of cases per level and their size ranges
THOROUGH_COUNTS = {1: 70, 2: 50, 3: 25, 4: 15}
THOROUGH_N = {1: (1, 7), 2: (1, 6), 3: (2, 4), 4: (2, 3)}
THOROUGH_DEPTH = {1: (3, 25), 2: (3, 16), 3: (3, 8), 4: (3, 6)}
THOROUGH_TIMEOUT = {1: 480.0, 2: 600.0, 3: 900.0, 4: 900.0}
THOROUGH_MIN_CHECKED = 25   # cases that must have been judged (else exit 2)
THOROUGH_BUDGET_S = 30 * 60.0
EST = {1: 8, 2: 20, 3: 60, 4: 200}


def make_case(seed: int, idx: int, tpl: tuple[Any, ...]) -> dict[str, Any]:
    lvl, n, depth, extra, graph, gs, o = tpl
    rng = core.rng_for(seed, PID, 0, idx)
    radix = int(o.get('radix', 2))
    if o.get('cyclic'):
        from vlib import gen
        ops: list[list[Any]] = []
        for q in range(n):
            ops.append(['U3', [q], gen.rand_params(rng, 3, 'generic')])
        order = [int(x) for x in rng.permutation(n)]
        for a, b in zip(order, order[1:]):
            ops.append(['SWAP', [a, b], []])
        for q in range(n):
            ops.append(['U3', [q], gen.rand_params(rng, 3, 'generic')])
        inp = {'kind': 'circuit', 'radixes': [2] * n, 'ops': ops}
    else:
        inp = _gen_spec(rng, n, depth, radix, o)
    return _finish_case(rng, idx, lvl, n, depth, extra, graph, gs, o, inp, radix)


def _gen_spec(rng: Any, n: int, depth: int, radix: int, o: dict[str, Any]) -> dict[str, Any]:
    return cc.gen_circuit_spec(
        rng, n, depth, radix=radix, p3=o.get('p3', 0.12),
        force3=o.get('force3', False), barriers=o.get('barriers', 0),
        measure=o.get('measure', ''), block=o.get('block', False),
    )


def _finish_case(rng: Any, idx: int, lvl: int, n: int, depth: int, extra: int, graph: str, gs: str, o: dict[str, Any], inp: dict[str, Any], radix: int) -> dict[str, Any]:
    model = cc.gen_model_spec(rng, n + extra, graph, gs, radix=radix)
    cfg = {
        'level': lvl, 'mss': int(o.get('mss', 3)),
        'eps': float(o.get('eps', 1e-8)),
        'seed': int(rng.integers(1, 1 << 30)),
        'workers': int(o.get('workers', 2)),
    }
    if o.get('error_threshold') is not None:
        cfg['error_threshold'] = float(o['error_threshold'])
    n_multi = sum(1 for op in inp['ops'] if len(op[1]) > 1 and op[0] not in ('barrier', 'measure'))
    nontrivial = n_multi >= 1 and (not model['all_to_all'] or model['gateset'] != 'cx_u3')
    return {
        'input': inp, 'model': model, 'config': cfg,
        'est': EST[lvl] * max(1, n - 1) * max(1, depth // 4),
        'nontrivial': bool(nontrivial), 'index': idx,
    }


def thorough_templates(seed: int) -> list[tuple[Any, ...]]:
    rng = core.rng_for(seed, PID, 1)
    tpls: list[tuple[Any, ...]] = []
    from vlib import gen
    for lvl, cnt in THOROUGH_COUNTS.items():
        for j in range(cnt):
            lo, hi = THOROUGH_N[lvl]
            n = int(rng.integers(lo, hi + 1))
            dlo, dhi = THOROUGH_DEPTH[lvl]
            depth = int(rng.integers(dlo, dhi + 1))
            if n >= 6:
                depth = min(depth, 12)
            extra = int(rng.integers(0, 3))
            extra = min(extra, cc.MAX_SIM_QUDITS - n)
            o: dict[str, Any] = {}
            o['workers'] = int(rng.choice([1, 2, 4]))
            o['eps'] = float(rng.choice([1e-8, 1e-8, 1e-6, 1e-4]))
            o['mss'] = int(rng.choice([2, 3, 3, 3, 3, 3])) if lvl <= 2 else 3
            if lvl == 1 and n <= 4 and depth <= 10 and rng.random() < 0.15:
                o['mss'] = 4   # 4-qudit blocks are very slow: few and small
            o['p3'] = 0.0 if o['mss'] == 2 else 0.12
            o['force3'] = bool(o['mss'] >= 3 and rng.random() < 0.3)
            if lvl >= 3:
                o['p3'] = 0.05
            o['barriers'] = int(rng.random() < 0.25) * int(rng.integers(1, 3))
            r = rng.random()
            o['measure'] = 'end' if r < 0.2 else 'split' if r < 0.3 else 'mid' if r < 0.38 else ''
            o['block'] = bool(rng.random() < 0.2)
            if rng.random() < 0.2:
                o['error_threshold'] = 1e-3
            gs = ''
            r = rng.random()
            if r < 0.12:
                gs = str(rng.choice(['rigetti', 'ankaa', 'quantinuum']))
            graph = str(rng.choice(gen.GRAPH_KINDS))
            if lvl <= 2 and n <= 3 and rng.random() < 0.08:
                o['radix'] = 3
                o['barriers'] = 0
                o['measure'] = ''
                depth = min(depth, 8)
            if lvl == 4 and n == 3 and rng.random() < 0.4:
                o = dict(cyclic=True, workers=4, eps=o['eps'], mss=3)
                extra, graph, gs = 0, 'line', 'cx_u3'
            tpls.append((lvl, n, depth, extra, graph, gs, o))
    return tpls


# -------------------------------------------------------------------- monitor
def on_ok(run: core.Run) -> Any:
    def f(case: dict[str, Any], res: dict[str, Any]) -> None:
        ob = res['obs'][0]
        inp, model, cfg = case['input'], case['model'], case['config']
        n = len(inp['radixes'])
        ident = list(range(n))
        run.count('mapping_checked')
        if 'cost' in ob:
            run.count('mapped_cost_checked')
            b = cc.budget_for(case, res, ob)
            run.count('budget_k_from_' + b['k_source'])
            st = run.extra.setdefault('cost_stats', {'max_cost': 0.0, 'max_cost_over_budget': 0.0, 'max_k': 0})
            st['max_cost'] = max(st['max_cost'], ob['cost'])
            st['max_cost_over_budget'] = max(st['max_cost_over_budget'], ob['cost'] / b['budget'])
            st['max_k'] = max(st['max_k'], b['k'])
        elif ob.get('sim') == 'skipped':
            run.count('simulation_skipped_too_wide')
        if ob.get('pi') is not None and ob['pi'] != ident:
            run.count('placement_nonidentity')
        if ob.get('pf') is not None and ob['pf'] != ob.get('pi'):
            run.count('final_ne_initial')
        if any(len(op[1]) >= 3 and op[0] not in ('barrier', 'measure', 'block') for op in inp['ops']):
            run.count('three_qudit_gate')
        if model['gateset'] in cc.ZX_GATESETS:
            run.count('zx_gateset')
        if model['n'] > n:
            run.count('machine_wider')
        if not model['all_to_all']:
            run.count('sparse_graph')
        if any(op[0] == 'measure' for op in inp['ops']):
            run.count('measurement_checked')
            if ob['pf'] != ident:
                run.count('measurement_relocated')
        if any(op[0] == 'barrier' for op in inp['ops']):
            run.count('barrier_input')
        if any(op[0] == 'block' for op in inp['ops']):
            run.count('preblocked_input')
        if inp['radixes'][0] == 3:
            run.count('qutrit_input')
        run.count('eps_%g' % cfg['eps'])
        run.count('workers_%d' % cfg['workers'])
        run.count('gateset_' + model['gateset'])
        run.count('graph_' + model['graph'])
        if cfg.get('error_threshold') is not None:
            run.count('error_threshold_on')
        if res.get('error_bound_warnings'):
            run.count('error_bound_warning_seen')
    return f


def main(tier: str, seed: int, replay: str | None = None) -> int:
    run = core.Run(PID, tier, seed)
    if replay:
        return cc.replay_case(run, replay, cc.judge_c01)
    if tier == 'quick':
        tpls = list(QUICK)
        cases = [make_case(seed, i, t) for i, t in enumerate(tpls)]
        timeouts = [QUICK_TIMEOUT[c['config']['level']] for c in cases]
    else:
        import time
        if run.deadline is None:
            run.deadline = time.monotonic() + THOROUGH_BUDGET_S
        tpls = thorough_templates(seed)
        cases = [make_case(seed, 1000 + i, t) for i, t in enumerate(tpls)]
        timeouts = [THOROUGH_TIMEOUT[c['config']['level']] for c in cases]
    run.extra['concurrency'] = cc.default_concurrency()
    cc.drive(run, cases, timeouts, cc.judge_c01, on_ok(run))
    for c, m in (
        ('mapped_cost_checked', 6 if tier == 'quick' else THOROUGH_MIN_CHECKED),
        ('mapping_checked', 6 if tier == 'quick' else THOROUGH_MIN_CHECKED),
        ('measurement_checked', 1), ('placement_nonidentity', 1),
        ('final_ne_initial', 1), ('three_qudit_gate', 1), ('zx_gateset', 1),
        ('machine_wider', 1), ('compile_L1', 1), ('compile_L2', 1),
    ):
        run.require(c, m)
    return run.finish(
        rule='one case = one bqskit.compile(circuit, model, optimization_level, max_synthesis_size, synthesis_epsilon, seed, with_mapping=True) on a private runtime; distinct = distinct (circuit, model, level, size, epsilon); non-trivial = the circuit has >=1 multi-qudit gate and the model is not (all-to-all and {CX,U3}) and the input meets compile()\'s preconditions',
        assumptions=[
            'gate matrices come from each gate\'s own get_unitary (their correctness is C18)',
            'physical qudit of logical i is initial_mapping[i] / final_mapping[i], idle machine qudits start and end in |0> (compile() docstring)',
            'budget = max(1e-10*(ops+1), (k+1)^2*max(synthesis_epsilon,1e-8)) in the degree-1 cost; k from the in-situ pass monitor, else a conservative stage x block bound',
            'measurements moved to the end are compared per (qudit, register, bit); barriers are not compared',
            'machines wider than 9 qudits are not simulated',
        ],
        extra={'levels': 'quick: 8/4/1/1 cases at levels 1/2/3/4; thorough: %s' % (THOROUGH_COUNTS,)},
    )


if __name__ == '__main__':
    core.main_entry(main)
